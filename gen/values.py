"""Value-class strategies shared by the checks (DESIGN 1.2(2))."""
import struct

from hypothesis import strategies as st

# ---- strings --------------------------------------------------------------
_no_surrogates = dict(exclude_categories=("Cs",))

ascii_text = st.text(st.characters(min_codepoint=0x20, max_codepoint=0x7E), max_size=20)
bmp_text = st.text(st.characters(min_codepoint=0x80, max_codepoint=0xFFFF, **_no_surrogates), min_size=1, max_size=8)
astral_text = st.text(st.characters(min_codepoint=0x10000, max_codepoint=0x10FFFF), min_size=1, max_size=4)
control_text = st.text(st.sampled_from([chr(i) for i in range(0, 0x20)] + ["\x7f", "\x80", "\x9f", " ", " "]), min_size=1, max_size=4)
quote_text = st.text(st.sampled_from(list("\"'\\/ab{}[]:,")), min_size=1, max_size=8)
any_text = st.text(st.characters(**_no_surrogates), max_size=12)


def mixed_text(max_parts=3):
    part = st.one_of(ascii_text, bmp_text, astral_text, control_text, quote_text, any_text)
    return st.lists(part, min_size=0, max_size=max_parts).map("".join)


def text_class(s):
    cl = []
    if not s:
        return ["str:empty"]
    if any(ord(c) >= 0x10000 for c in s):
        cl.append("str:astral")
    if any(0x80 <= ord(c) < 0x10000 for c in s):
        cl.append("str:bmp-nonascii")
    if any(ord(c) < 0x20 or c in "\x7f  " for c in s):
        cl.append("str:control")
    if any(c in "\"\\" for c in s):
        cl.append("str:quote-backslash")
    return cl or ["str:plain-ascii"]


# ---- floats ---------------------------------------------------------------
def _bits_to_float(b):
    return struct.unpack(">d", struct.pack(">Q", b))[0]


def float_hex(f):
    return struct.pack(">d", f).hex()


def hex_float(h):
    return struct.unpack(">d", bytes.fromhex(h))[0]


BOUNDARY_FLOATS = [
    0.0, -0.0, 5e-324, 2.2250738585072014e-308, 2.225073858507201e-308, 1.7976931348623157e308,
    1e21, 999999999999999900000.0, 1.0000000000000001e21, 1e-6, 9.999999999999999e-7, 1e-7, 1.5e-7, 0.000001234,
    1e20, 1e22, 1e23, 9.999999999999999e22, 123456789012345680000.0, 0.1, 0.30000000000000004, 1.0, -1.0, 100.0,
    2.0 ** 53, 2.0 ** 53 + 2, 2.0 ** 63, 2.0 ** 64, 4.5, 0.002, 1e-27, 1e300, 1e-300, 333333333.3333333, 1.5, 0.5,
    1e-5, 0.00001, 123456.789, 1e15, 1e16, 1e17, 12345678901234567890.0,
]

finite_bits_float = st.integers(0, 2 ** 64 - 1).map(_bits_to_float).filter(lambda f: f == f and abs(f) != float("inf"))
# exponents concentrated near the 1e21 / 1e-7 switch-over points
near_switch_float = st.builds(
    lambda m, e, neg: (-1 if neg else 1) * float("%de%d" % (m, e)),
    st.integers(1, 10 ** 17), st.integers(-30, 25), st.booleans(),
)
any_finite_float = st.one_of(st.sampled_from(BOUNDARY_FLOATS), finite_bits_float, near_switch_float,
                             st.floats(allow_nan=False, allow_infinity=False))


def float_class(f):
    if f == 0:
        return "num:zero"
    a = abs(f)
    if a < 2.2250738585072014e-308:
        return "num:subnormal"
    if a >= 1e21:
        return "num:exp-large"
    if a < 1e-6:
        return "num:exp-small"
    if a == int(a):
        return "num:integral-float"
    return "num:fraction"


# ---- integers -------------------------------------------------------------
BOUNDARY_INTS = [0, 1, -1, 2, 100, 101, 255, 256, 65535, 65536, 2 ** 31 - 1, 2 ** 31, -2 ** 31, 2 ** 53 - 1, 2 ** 53,
                 2 ** 53 + 1, -(2 ** 53) - 1, 2 ** 63 - 1, 2 ** 63, 2 ** 64, 2 ** 70, 10 ** 21, 10 ** 21 - 1, 999999999, 10 ** 9]
any_int = st.one_of(st.sampled_from(BOUNDARY_INTS), st.integers(-2 ** 70, 2 ** 70), st.integers(-1000, 1000))
