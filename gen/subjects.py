"""Hand-written generators of subject objects (plain JSON dicts) for the versioning
and marking checks (C05, C07, C08).  No stix2 import: everything here is data the
STIX specification / the library documentation describes as legal input.
"""
import functools
import uuid

from hypothesis import strategies as st

from oracle import markmodel, rfc8785, tsref

VERSIONS = ("2.0", "2.1")


# Drawing an index from a cached integer strategy is several times cheaper than building
# st.sampled_from(list) / st.lists(...) anew for every draw inside a composite.
@functools.lru_cache(maxsize=None)
def _idx(n):
    return st.integers(0, n - 1)


@functools.lru_cache(maxsize=None)
def _idx_list(n, lo, hi):
    return st.lists(_idx(n), min_size=lo, max_size=hi, unique=True)


def pick(draw, seq):
    """One element of a non-empty sequence."""
    return seq[draw(_idx(len(seq)))]


def picks(draw, seq, lo, hi):
    """lo..hi distinct elements of seq, in drawn order."""
    hi = min(hi, len(seq))
    return [seq[i] for i in draw(_idx_list(len(seq), min(lo, hi), hi))]


def uid(n):
    return "00000000-0000-4000-8000-%012x" % n


IDENT_IDS = ["identity--" + uid(i) for i in range(1, 5)]
MARKING_IDS = ["marking-definition--" + uid(0xa0 + i) for i in range(1, 5)] + ["marking-definition--" + uid(0xa5).upper()]    # (one with upper-case hex digits)
LANGS = ["en", "fr", "de-CH"]
OBJ_REFS = ["malware--" + uid(0x31), "indicator--" + uid(0x32), "identity--" + uid(1), "campaign--" + uid(0x33)]
KCP = [{"kill_chain_name": "lockheed-martin-cyber-kill-chain", "phase_name": "delivery"},
       {"kill_chain_name": "mandiant-attack-lifecycle-model", "phase_name": "establish-foothold"},
       {"kill_chain_name": "x-chain", "phase_name": "p2"}]
EXTREFS = [{"source_name": "src", "url": "https://example.org/a"},
           {"source_name": "capec", "external_id": "CAPEC-163"},
           {"source_name": "vendor", "description": "write-up", "url": "https://example.org/b", "hashes": {"SHA-256": "6db12788c37247f2316052e142f42f4b259d6561751e5f401a1ae2a6df9c674b"}},
           {"source_name": "note", "description": ""}]
SCO_NAMESPACE = uuid.UUID("00abedb4-aa42-466c-9c01-fed23315a9b7")

MAX_START = tsref.instant(9990, 1, 1)
MIN_START = tsref.instant(1000, 1, 1)
LAST_ALLOWED = tsref.instant(9998, 12, 31, 23, 59, 59, 999999)    # new_version at datetime.max overflows (inherent)


def ts_text(t, version):
    return tsref.fmt(t, *markmodel.spec_precision(version))


# instants: anywhere in years 1000..9990, with weight on second/millisecond/day boundaries
_sub_second = st.one_of(st.just(0), st.integers(0, 999999), st.integers(0, 999).map(lambda k: k * 1000),
                        st.sampled_from([999999, 999000, 999, 1, 500, 1000, 123456, 120000, 100000, 998999, 999499]))
_second_of_day = st.one_of(st.integers(0, 86399), st.sampled_from([0, 86399, 43200, 3599, 3600]))
_day = st.one_of(
    st.integers(tsref.days_from_civil(1000, 1, 1), tsref.days_from_civil(9989, 12, 31)),
    st.integers(tsref.days_from_civil(1970, 1, 1), tsref.days_from_civil(2038, 1, 19)),
    st.sampled_from([tsref.days_from_civil(1000, 1, 1), tsref.days_from_civil(1999, 12, 31), tsref.days_from_civil(2000, 2, 29),
                     tsref.days_from_civil(2016, 12, 31), tsref.days_from_civil(9989, 12, 31), tsref.days_from_civil(2024, 2, 29)]),
)
instant = st.builds(lambda d, s, us: d * tsref.US_PER_DAY + s * 10 ** 6 + us, _day, _second_of_day, _sub_second)


_gap = st.one_of(st.just(0), st.sampled_from([1, 999, 1000, 1001, 10 ** 6, 86400 * 10 ** 6]), st.integers(0, 10 ** 9))


@st.composite
def created_modified(draw, version):
    """(created text, modified text): modified >= created, at the precision the spec version writes."""
    c = draw(instant)
    gap = draw(_gap)
    m = min(c + gap, MAX_START)
    if version == "2.0":
        c, m = c - c % 1000, m - m % 1000
    if m < c:
        m = c
    return ts_text(c, version), ts_text(m, version)


# ---- per type: required content and a table of legal values for optional / replaceable properties ----------
# table entry: property -> (candidate values, removable?)

def _common_optional(version):
    t = {
        "labels": ([["a"], ["a", "b"], ["x-l", "y", "z"]], True),
        "external_references": ([EXTREFS[:1], EXTREFS[1:3], EXTREFS[:3]], True),
    }
    if version == "2.1":
        t["confidence"] = ([0, 1, 50, 100], True)
        t["lang"] = (["en", "fr"], True)
    return t


@functools.lru_cache(maxsize=None)
def type_table(typ, version):
    """(required content, {property: (candidate values, removable?)}) -- shared, read-only."""
    v21 = version == "2.1"
    t = _common_optional(version)
    if typ == "identity":
        req = {"name": "ACME"}
        t.update({"name": (["n1", "Name Two", "ACME"], False), "description": (["d1", "some text"], True),
                  "sectors": ([["technology"], ["energy", "defense"]], True), "contact_information": (["a@b.example", "x"], True)})
        if v21:
            t["identity_class"] = (["individual", "organization"], True)
            t["roles"] = ([["ceo"], ["a", "b"]], True)
        else:
            req["identity_class"] = "individual"
            t["identity_class"] = (["individual", "organization", "class"], False)
    elif typ == "malware":
        t.update({"description": (["d1", "a trojan"], True), "kill_chain_phases": ([KCP[:1], KCP[:2], KCP[1:]], True)})
        if v21:
            req = {"is_family": False}
            t.update({"name": (["m1", "mal two"], True), "malware_types": ([["trojan"], ["bot", "worm"]], True),
                      "aliases": ([["al1"], ["al1", "al2"]], True)})
        else:
            req = {"name": "mal", "labels": ["trojan"]}
            t["name"] = (["m1", "mal two"], False)
            t["labels"] = ([["trojan"], ["bot", "worm"], ["a", "b", "c"]], False)
    elif typ == "indicator":
        req = {"pattern": "[file:name = 'a']", "valid_from": "2016-01-01T00:00:00Z"}
        t.update({"name": (["i1", "ind two"], True), "description": (["d1", "watch"], True),
                  "pattern": (["[file:name = 'b']", "[ipv4-addr:value = '198.51.100.1']"], False),
                  "valid_from": (["2017-02-03T04:05:06Z", "2016-01-01T00:00:00.5Z", "1999-12-31T23:59:59.999999Z"], False),
                  "kill_chain_phases": ([KCP[:1], KCP[:2]], True)})
        if v21:
            req["pattern_type"] = "stix"
            req["pattern_version"] = "2.1"      # the library fills this default in; keep documents fixed points
            t["indicator_types"] = ([["malicious-activity"], ["anomalous-activity", "benign"]], True)
        else:
            req["labels"] = ["malicious-activity"]
            t["labels"] = ([["malicious-activity"], ["anomalous-activity", "benign"]], False)
    elif typ == "report":
        req = {"name": "rep", "published": "2016-01-20T17:00:00Z", "object_refs": OBJ_REFS[:1]}
        t.update({"name": (["r1", "rep two"], False), "description": (["d1", "summary"], True),
                  "published": (["2017-02-03T04:05:06Z", "2016-01-20T17:00:00.25Z"], False),
                  "object_refs": ([OBJ_REFS[:2], OBJ_REFS[1:], OBJ_REFS[:1]], False)})
        if v21:
            t["report_types"] = ([["threat-report"], ["campaign", "malware"]], True)
        else:
            req["labels"] = ["threat-report"]
            t["labels"] = ([["threat-report"], ["campaign", "malware"]], False)
    elif typ == "relationship":
        req = {"relationship_type": "uses", "source_ref": OBJ_REFS[3], "target_ref": OBJ_REFS[0]}
        t.update({"relationship_type": (["uses", "related-to", "x-rel"], False), "description": (["d1", "why"], True),
                  "source_ref": ([OBJ_REFS[3], OBJ_REFS[1]], False), "target_ref": ([OBJ_REFS[0], OBJ_REFS[2]], False)})
    elif typ == "campaign":
        req = {"name": "camp"}
        t.update({"name": (["c1", "camp two"], False), "description": (["d1", "ops"], True),
                  "aliases": ([["al1"], ["al1", "al2"]], True), "objective": (["money", "o"], True)})
    else:
        raise ValueError(typ)
    return req, t


@functools.lru_cache(maxsize=None)
def _sorted_props(typ, version):
    return sorted(type_table(typ, version)[1])


SDO_TYPES = ("identity", "malware", "indicator", "report", "relationship", "campaign")
_TYPE_IDS = {typ: typ + "--" + uid(0x50 + i) for i, typ in enumerate(SDO_TYPES)}


@st.composite
def sdo(draw, version=None, typ=None, optional_share=0.5, creator=None):
    """A valid SDO/SRO document of the given spec version and type (drawn if None)."""
    version = version or pick(draw, VERSIONS)
    typ = typ or pick(draw, SDO_TYPES)
    req, table = type_table(typ, version)
    c, m = draw(created_modified(version))
    doc = {"type": typ}
    if version == "2.1":
        doc["spec_version"] = "2.1"
    doc["id"] = _TYPE_IDS[typ]
    if creator is True or (creator is None and draw(st.booleans())):
        doc["created_by_ref"] = pick(draw, IDENT_IDS)
    doc["created"], doc["modified"] = c, m
    doc.update({k: (list(v) if isinstance(v, list) else v) for k, v in req.items()})
    for prop in _sorted_props(typ, version):
        cands, removable = table[prop]
        if prop in req:
            if draw(st.integers(0, 3)) == 0:
                doc[prop] = pick(draw, cands)
        elif draw(_idx(100)) < optional_share * 100:
            doc[prop] = pick(draw, cands)
    return doc


@st.composite
def change_set(draw, typ, version, max_props=3):
    """{property: value | None}: legal changes for the type (None only on removable properties)."""
    _, table = type_table(typ, version)
    names = _sorted_props(typ, version)
    out = {}
    for _ in range(1 + draw(_idx(max_props))):
        p = pick(draw, names)
        cands, removable = table[p]
        if removable and draw(st.integers(0, 2)) == 0:
            out[p] = None
        else:
            out[p] = pick(draw, cands)
    return out


# ---- 2.1 file SCO ------------------------------------------------------------------------------------------

def sco_id(typ, contributing):
    """Deterministic (UUIDv5) SCO identifier from the id-contributing properties present."""
    return "%s--%s" % (typ, uuid.uuid5(SCO_NAMESPACE, rfc8785.canon(contributing)))


FILE_HASHES = [{"MD5": "d41d8cd98f00b204e9800998ecf8427e"},
               {"SHA-256": "6db12788c37247f2316052e142f42f4b259d6561751e5f401a1ae2a6df9c674b", "MD5": "d41d8cd98f00b204e9800998ecf8427e"},
               {"SHA-1": "da39a3ee5e6b4b0d3255bfef95601890afd80709"}]
FILE_LOCKED = {"name": ["other.exe", "b.txt"], "hashes": [FILE_HASHES[2], {"MD5": "00000000000000000000000000000000"}],
               "parent_directory_ref": ["directory--" + uid(0x61)], "extensions": [{"ntfs-ext": {"sid": "S-1"}}]}
FILE_FREE = {"size": ([0, 1, 4096], True), "mime_type": (["text/plain", "application/x-dosexec"], True),
             "name_enc": (["windows-1252", "utf-8"], True), "magic_number_hex": (["4d5a", "00"], True)}


@st.composite
def versionable_file_sco(draw):
    """2.1 file SCO that carries custom created / modified / revoked properties (the only way an SCO is
    versionable); deterministic id (UUIDv5) or a random-style UUIDv4 id."""
    c, m = draw(created_modified("2.1"))
    name = pick(draw, ["a.exe", "notes.txt"])
    contributing = {"name": name}
    doc = {"type": "file", "spec_version": "2.1"}
    if draw(st.booleans()):
        contributing["hashes"] = {"MD5": FILE_HASHES[0]["MD5"]}
    v5 = draw(st.integers(0, 3)) != 0
    doc["id"] = sco_id("file", contributing) if v5 else "file--" + uid(0x71)
    if "hashes" in contributing:
        doc["hashes"] = dict(FILE_HASHES[0])
    doc["name"] = name
    for p in sorted(FILE_FREE):
        if draw(st.booleans()):
            doc[p] = pick(draw, FILE_FREE[p][0])
    doc["created"], doc["modified"], doc["revoked"] = c, m, False
    return doc


# ---- decorations for the marking checks ----------------------------------------------------------------------

PREFIX_SIBLINGS = {
    # custom properties whose names extend a standard property name (and one another)
    "name_suffix": ["s", "another"],
    "labels_x": [["q"], ["q", "r"]],
    "x_map": [{"a": "1", "ab": "2"}, {"a": "1", "ab": {"c": "3", "cd": [1, 2]}, "abc": ["u", "v"]}, {"k": {"a": 1, "ab": 2}, "kk": "w"}],
    "x_list": [["s", "t"], [{"k": "v", "kk": "w"}, "t"]],
    "description_x": ["dx"],
    "created_by": ["someone"],
}


@st.composite
def prefix_subject(draw, version=None, typ=None):
    """SDO/SRO with sibling names that are character prefixes of one another."""
    doc = draw(sdo(version, typ, optional_share=0.6, creator=draw(st.integers(0, 3)) != 0))
    n = draw(st.integers(1, len(PREFIX_SIBLINGS)))
    for k in picks(draw, sorted(PREFIX_SIBLINGS), n, n):
        doc[k] = pick(draw, PREFIX_SIBLINGS[k])
    return doc


def marking_definition(version, n=0):
    doc = {"type": "marking-definition"}
    if version == "2.1":
        doc["spec_version"] = "2.1"
    doc.update({"id": MARKING_IDS[n % len(MARKING_IDS)], "created": "2017-01-20T00:00:00.000Z",
                "definition_type": "statement", "definition": {"statement": "Copyright 2017, Example Corp"}})
    return doc


@st.composite
def initial_markings(draw, doc, version, usable, max_granular=3):
    """Adds object_marking_refs / granular_markings over selectors from `usable` (real paths of doc)."""
    doc = dict(doc)
    if draw(st.booleans()):
        doc["object_marking_refs"] = picks(draw, MARKING_IDS, 1, 2)
        if draw(st.integers(0, 5)) == 0:
            # a legal document that lists an object marking twice
            doc["object_marking_refs"] = doc["object_marking_refs"] + [doc["object_marking_refs"][0]]
    if usable and draw(st.booleans()):
        gms = []
        used = set()
        dup = draw(st.integers(0, 3)) == 0
        for _ in range(draw(st.integers(1, max_granular))):
            sels = sorted(picks(draw, usable, 1, 3))
            if version == "2.1" and draw(st.integers(0, 3)) == 0:
                mk = ("lang", pick(draw, LANGS))
            else:
                mk = ("marking_ref", pick(draw, MARKING_IDS))
            if not dup:
                sels = [s for s in sels if (s, mk[1]) not in used]      # no duplicate (selector, marking) pairs in the input
            used.update((s, mk[1]) for s in sels)
            if sels:
                gms.append({mk[0]: mk[1], "selectors": sels})
        if dup and gms:
            # a legal document that is not in the library's compressed normal form: the same (selector, marking) pair twice,
            # as a second entry with an overlapping selector list or as a selector listed twice in one entry
            g = gms[draw(st.integers(0, len(gms) - 1))]
            if draw(st.booleans()):
                extra = sorted(set(picks(draw, usable, 0, 2)) | {g["selectors"][0]})
                gms.insert(draw(st.integers(0, len(gms))), dict(g, selectors=extra))
            else:
                g["selectors"] = g["selectors"] + [g["selectors"][draw(st.integers(0, len(g["selectors"]) - 1))]]
        if gms:
            doc["granular_markings"] = gms
    return doc


# ---- subjects for the selector check (C08): falsy values, repeated elements, embedded objects, upper-case keys --

FALSY_CUSTOM = {"x_zero": 0, "x_false": False, "x_empty": "", "x_fzero": 0.0, "x_nodict": {}, "x_true": True, "x_one": 1}
NESTED_CUSTOM = [
    {"x_nest": {"a": 0, "b": {"c": False, "D": "up", "e": ""}, "lst": [0, 0, 1, "", "s", "s"]}},
    {"x_nest": {"Key": {"inner": [{"z": 0}, {"z": 0}, {"z": 1}]}, "k2": [[1, 2], [1, 2], []]}},
    {"x_rows": [{"n": "a", "v": 1}, {"n": "a", "v": 1}, {"n": "b", "v": 0}]},
    {"x_mixed": [False, 0, "", 1, True, "1"]},
]


@st.composite
def selector_subject(draw, version=None, typ=None):
    """SDO/SRO biased towards falsy values, duplicate list elements, embedded objects, mixed-case keys."""
    version = version or pick(draw, VERSIONS)
    typ = typ or pick(draw, SDO_TYPES)
    doc = draw(sdo(version, typ, optional_share=0.45))
    req, table = type_table(typ, version)
    # falsy / repeated standard values
    if "description" in table and draw(st.booleans()):
        doc["description"] = pick(draw, ["", "d"])
    if draw(st.booleans()):
        base = doc.get("labels") or ["a"]
        doc["labels"] = pick(draw, [base + base[:1], base + ["a", "a"], base])
    if version == "2.1" and draw(st.booleans()):
        doc["confidence"] = pick(draw, [0, 0, 15])
    if typ == "report" and draw(st.booleans()):
        doc["object_refs"] = pick(draw, [OBJ_REFS[:1] * 2, OBJ_REFS[:2] + OBJ_REFS[:1], OBJ_REFS[:3]])
    if typ == "identity" and draw(st.booleans()):
        doc["contact_information"] = ""
    if draw(st.booleans()):
        doc["external_references"] = pick(draw, [EXTREFS[2:3], EXTREFS[:1] * 2, EXTREFS[1:4], [EXTREFS[3], EXTREFS[2]]])
    if typ in ("malware", "indicator") and draw(st.booleans()):
        doc["kill_chain_phases"] = pick(draw, [KCP[:1] * 2, KCP[:2], KCP[:1]])
    for k in picks(draw, sorted(FALSY_CUSTOM), 0, 3):
        doc[k] = FALSY_CUSTOM[k]
    if draw(st.booleans()):
        doc.update(pick(draw, NESTED_CUSTOM))
    # path-order traps: "[10]" sorts before "[2]" as text, and "-" / "_" sort around "." -- a walk must not rely on text order
    r = draw(st.integers(0, 11))
    if r == 0:
        doc["labels"] = ["l%d" % (i % 9) for i in range(pick(draw, [11, 12, 13]))]
    elif r == 1:
        doc["x_long"] = [{"k": i, "kk": [i, i]} for i in range(pick(draw, [11, 12]))]
    elif r == 2:
        doc["x_sib"] = {"abc": {"k": 1, "z": 0}, "abc-x": 2, "abc_y": {"z": 0}, "ab": [0, 1]}
    return doc


NTFS = {"sid": "S-1-5-21", "alternate_data_streams": [{"name": "second.stream", "size": 0, "hashes": {"MD5": "d41d8cd98f00b204e9800998ecf8427e"}},
                                                        {"name": "third", "size": 25536}]}
PEBIN = {"pe_type": "exe", "number_of_sections": 0, "optional_header": {"magic_hex": "010b", "size_of_code": 0, "checksum_hex": "00"},
         "sections": [{"name": ".text", "size": 0, "entropy": 0.0}, {"name": ".text", "size": 0, "entropy": 0.0}, {"name": ".data", "size": 10}]}
ARCHIVE = {"contains_refs": ["file--" + uid(0x62), "file--" + uid(0x62)], "comment": ""}


@st.composite
def file_content(draw, version):
    """Property content of a file observable (without type/id): hashes with upper-case keys, falsy size, extensions."""
    f = {"name": pick(draw, ["a.exe", "b", ""])}
    if draw(st.booleans()):
        f["hashes"] = dict(pick(draw, FILE_HASHES))
    if draw(st.booleans()):
        f["size"] = pick(draw, [0, 0, 77])
    if draw(st.booleans()):
        f["mime_type"] = "text/plain"
    ext = {}
    if draw(st.booleans()):
        ext["ntfs-ext"] = NTFS if draw(st.booleans()) else {"sid": "S-1"}
    if draw(st.booleans()):
        ext["windows-pebinary-ext"] = PEBIN if draw(st.booleans()) else {"pe_type": "dll", "number_of_sections": 0}
    if version == "2.1" and draw(st.integers(0, 3)) == 0:
        ext["archive-ext"] = ARCHIVE
    if ext:
        f["extensions"] = ext
    return f


@st.composite
def file_sco21(draw):
    doc = {"type": "file", "spec_version": "2.1", "id": "file--" + uid(0x72)}
    doc.update(draw(file_content("2.1")))
    if draw(st.integers(0, 3)) == 0:
        doc["defanged"] = True
    return doc


@st.composite
def observed_data20(draw):
    c, m = draw(created_modified("2.0"))
    objs = {"0": dict({"type": "file"}, **draw(file_content("2.0")))}
    if draw(st.booleans()):
        objs["1"] = {"type": "directory", "path": pick(draw, ["/tmp", ""]), "contains_refs": ["0"] * draw(st.integers(1, 2))}
    if draw(st.booleans()):
        objs["2"] = {"type": "ipv4-addr", "value": "198.51.100.3"}
    doc = {"type": "observed-data", "id": "observed-data--" + uid(0x73), "created": c, "modified": m,
           "first_observed": "2015-12-21T19:00:00Z", "last_observed": "2015-12-21T19:00:00Z",
           "number_observed": pick(draw, [1, 50]), "objects": objs}
    if draw(st.booleans()):
        doc["labels"] = ["a", "a"]
    return doc
