"""Object pools, populations and filter sets for the data-store checks (C11, C12, C18).

No stix2 import.  Everything produced here is plain JSON so that a whole case
(pool + history / queries / partition) shrinks and replays as one value.

Pool objects are hand-written, spec-valid STIX 2.0 / 2.1 objects (several
registered types incl. hyphenated ones, 2.1 SCOs without `modified`,
marking-definitions, one custom type per spec version that the harness
registers, and unregistered custom types which the library keeps as plain
dictionaries).  Properties with a spec default (`revoked`, `defanged`) are
always written explicitly on registered types, so that "the property is
present" means the same for the input document and for the parsed object.
"""
from hypothesis import strategies as st

from oracle import storemodel as M
from oracle import tsref

U = "00000000-0000-4000-8000-0000000000%02x"


def oid(typ, n):
    return "%s--%s" % (typ, U % n)


# ---- templates -------------------------------------------------------------
# name -> (type, spec version, class, base properties)
#   class: "sdo" registered versioned | "sco" registered, no created/modified | "marking" created only |
#          "custom" registered by the harness | "unreg" kept as dict (versioned) | "unreg-obs" kept as dict, no timestamps
MD20 = oid("marking-definition", 0x60)
MD21 = oid("marking-definition", 0x61)
ID_A, ID_B = oid("identity", 0x10), oid("identity", 0x11)
ID_C, ID_D = oid("identity", 0x20), oid("identity", 0x21)

TEMPLATES = {
    "identity20": ("identity", "2.0", "sdo", {
        "name": "alice", "identity_class": "individual", "sectors": ["energy", "retail"], "labels": ["alpha"],
        "external_references": [{"source_name": "capec", "external_id": "CAPEC-1"}, {"source_name": "acme", "url": "https://example.com/a"}],
        "object_marking_refs": [MD20]}),
    "indicator20": ("indicator", "2.0", "sdo", {
        "labels": ["malicious-activity"], "pattern": "[a:b = 1]", "valid_from": "2019-06-01T00:00:00Z", "name": "ind",
        "kill_chain_phases": [{"kill_chain_name": "lm", "phase_name": "recon"}, {"kill_chain_name": "lm", "phase_name": "exploit"}],
        "created_by_ref": ID_A}),
    "malware20": ("malware", "2.0", "sdo", {"labels": ["trojan", "alpha"], "name": "mal", "created_by_ref": ID_B}),
    "attack-pattern20": ("attack-pattern", "2.0", "sdo", {
        "name": "ap", "created_by_ref": ID_A, "external_references": [{"source_name": "capec", "external_id": "CAPEC-7"}]}),
    "relationship20": ("relationship", "2.0", "sdo", {
        "relationship_type": "uses", "source_ref": oid("attack-pattern", 0x40), "target_ref": oid("malware", 0x30)}),
    "marking20": ("marking-definition", "2.0", "marking", {"definition_type": "statement", "definition": {"statement": "copyright"}}),
    "gadget20": ("x-verif-gadget", "2.0", "custom", {"name": "gadget", "size": 3, "tags": ["alpha"]}),
    "unreg20": ("x-unreg-old", "2.0", "unreg", {"name": "old", "foo": 1, "tags": ["alpha", "delta"], "nested": {"k": "v"}}),
    "identity21": ("identity", "2.1", "sdo", {
        "name": "bob", "identity_class": "organization", "sectors": ["energy"], "confidence": 50, "labels": ["bravo"],
        "object_marking_refs": [MD21], "granular_markings": [{"marking_ref": MD21, "selectors": ["name", "sectors"]}]}),
    "indicator21": ("indicator", "2.1", "sdo", {
        "pattern": "[a:b = 1]", "pattern_type": "stix", "pattern_version": "2.1", "valid_from": "2019-06-01T00:00:00.5Z",
        "indicator_types": ["anomalous-activity"], "confidence": 80, "name": "ind", "created_by_ref": ID_C}),
    "malware21": ("malware", "2.1", "sdo", {"name": "mal", "is_family": True, "malware_types": ["ransomware", "bot"], "created_by_ref": ID_C}),
    "intrusion-set21": ("intrusion-set", "2.1", "sdo", {
        "name": "iset", "aliases": ["alpha", "charlie"], "first_seen": "2019-03-01T00:00:00.123456Z", "confidence": 20, "created_by_ref": ID_D,
        "external_references": [{"source_name": "acme", "external_id": "G0001"}]}),
    "relationship21": ("relationship", "2.1", "sdo", {
        "relationship_type": "indicates", "source_ref": oid("indicator", 0x22), "target_ref": oid("malware", 0x32), "confidence": 50}),
    "report21": ("report", "2.1", "sdo", {
        "name": "rep", "published": "2019-12-31T23:59:59Z", "report_types": ["threat-report"],
        "object_refs": [oid("malware", 0x32), oid("indicator", 0x22)]}),
    "ipv4-addr21": ("ipv4-addr", "2.1", "sco", {"value": "198.51.100.7", "defanged": False}),
    "file21": ("file", "2.1", "sco", {
        "name": "a.exe", "size": 1024, "hashes": {"MD5": "d41d8cd98f00b204e9800998ecf8427e"}, "defanged": True,
        "extensions": {"ntfs-ext": {"sid": "S-1-5"}}}),
    "marking21": ("marking-definition", "2.1", "marking", {"definition_type": "statement", "definition": {"statement": "internal"}}),
    "widget21": ("x-verif-widget", "2.1", "custom", {
        "name": "widget", "size": 7, "tags": ["bravo", "charlie"], "flag": True, "meta": {"k1": "v1", "k2": 5}}),
    "unreg21": ("x-unreg", "2.1", "unreg", {"name": "unreg", "foo": 2, "tags": ["charlie"], "nested": {"k": "w"}, "confidence": 50}),
    "unreg-obs21": ("x-unreg-obs", "2.1", "unreg-obs", {"value": "obs", "size": 5}),
    # same type name as unreg21 but without timestamps: one type directory then holds flat <id>.json files next to <id>/<modified>.json
    # directories, and whether the type "is versioned" changes while a store is alive
    "unreg-flat21": ("x-unreg", "2.1", "unreg-obs", {"name": "flat", "foo": 3, "tags": ["charlie", "echo"]}),
    # the only type of the pool whose identifiers spell their UUID with upper-case hex digits (legal; no lower-case sibling in its directory)
    "campaign21": ("campaign", "2.1", "sdo", {"name": "camp", "aliases": ["alpha", "foxtrot"], "objective": "obj", "confidence": 30}),
    # the only type whose identifiers are no UUIDv1-5 (version digit 7; STIX 2.1 asks for the RFC 4122 variant only): nothing about a
    # directory layout may depend on the UUID version
    "course-of-action21": ("course-of-action", "2.1", "sdo", {"name": "coa", "description": "do", "confidence": 10, "labels": ["golf"]}),
}
# two id slots per template: (template, slot number)
SLOT_BASE = {"identity20": 0x10, "indicator20": 0x24, "malware20": 0x30, "attack-pattern20": 0x40, "relationship20": 0x50,
             "marking20": 0x60 - 0x0, "gadget20": 0x70, "unreg20": 0x78, "identity21": 0x20, "indicator21": 0x22, "malware21": 0x32,
             "intrusion-set21": 0x42, "relationship21": 0x52, "report21": 0x5a, "ipv4-addr21": 0x80, "file21": 0x84,
             "marking21": 0x61, "widget21": 0x72, "unreg21": 0x7a, "unreg-obs21": 0x88, "unreg-flat21": 0x7c, "campaign21": 0xca, "course-of-action21": 0xc0}
UPPER_CASE_IDS = ("campaign21",)
UUID7_IDS = ("course-of-action21",)
# marking20 uses 0x60 and 0x62, marking21 0x61 and 0x63 (MD20/MD21 above are slot 0)
SLOT_STEP = {"marking20": 2, "marking21": 2}
UNREG_TYPES = ("x-unreg-old", "x-unreg", "x-unreg-obs")
CUSTOM_TYPES = ("x-verif-gadget", "x-verif-widget")
ALL_TEMPLATES = sorted(TEMPLATES)
NODE_TEMPLATES = [t for t in ALL_TEMPLATES if not t.startswith(("relationship", "marking")) and t not in UUID7_IDS]     # (2.0 relationships cannot refer to a non-v4 id)
ALL_TYPES = sorted({v[0] for v in TEMPLATES.values()})


def slot_id(tname, k):
    typ = TEMPLATES[tname][0]
    i = oid(typ, SLOT_BASE[tname] + k * SLOT_STEP.get(tname, 1))
    if tname in UPPER_CASE_IDS:
        i = typ + "--" + ("abcdef" + i.split("--", 1)[1][6:]).upper()
    if tname in UUID7_IDS:
        u = i.split("--", 1)[1]
        i = typ + "--" + u[:14] + "7" + u[15:]
    return i


ALL_IDS = sorted(slot_id(t, k) for t in ALL_TEMPLATES for k in (0, 1))

# ---- timestamp spellings ----------------------------------------------------------
# (fraction in microseconds, text after the seconds)
SPELL = [(0, ""), (0, ".000"), (500000, ".5"), (500000, ".500"), (123000, ".123"), (123456, ".123456"),
         (120000, ".12"), (120000, ".120"), (0, ".000000"), (999999, ".999999"), (500000, ".50"), (999998, ".999998")]
SPELL_MS = [1, 3, 4, 7]            # exactly three digits: the only spellings STIX 2.0 allows for created/modified
SPELL_NAMES = ["Z", ".000Z", ".5Z", ".500Z", ".123Z", ".123456Z", ".12Z", ".120Z", ".000000Z", ".999999Z", ".50Z", ".999998Z"]
YEARS = [2020, 2020, 2020, 2021, 9998, 1001]
CREATED_MS = ["1000-01-01T00:00:00.000Z", "1000-06-01T12:30:00.500Z"]                 # never after any modified
CREATED_ANY = CREATED_MS + ["1000-01-01T00:00:00Z", "1000-06-01T12:30:00.5Z", "1000-06-01T12:30:00.123456Z"]


def ts_text(year, sec, sp):
    return "%04d-01-01T00:00:%02d%sZ" % (year, sec, SPELL[sp][1])


def ts_instant(year, sec, sp):
    return tsref.instant(year, 1, 1, 0, 0, sec, SPELL[sp][0])


def build(tname, k, created, modified, vno, newest, overrides=None):
    """One stored version as a JSON dict."""
    typ, ver, cls, base = TEMPLATES[tname]
    o = {"type": typ}
    if ver == "2.1":
        o["spec_version"] = "2.1"
    o["id"] = slot_id(tname, k)
    if cls in ("sdo", "custom", "unreg", "marking"):
        o["created"] = created
    if cls in ("sdo", "custom", "unreg"):
        o["modified"] = modified
        o["description"] = "v%d" % vno
        if cls != "unreg" or vno % 2:
            o["revoked"] = bool(newest and (SLOT_BASE[tname] + vno) % 3 == 0)
    for kk, vv in base.items():
        o[kk] = vv
    if k == 1 and "name" in o:
        o["name"] = o["name"] + "-two"
    if overrides:
        o.update(overrides)
    return o


# ---- pools --------------------------------------------------------------------------

@st.composite
def versions_of(draw, tname, k, max_versions, overrides=None):
    typ, ver, cls, base = TEMPLATES[tname]
    if cls in ("sco", "unreg-obs"):
        return [build(tname, k, None, None, 0, True, overrides)]
    sp_ok = SPELL_MS if (ver == "2.0" and cls != "unreg") else list(range(len(SPELL)))
    created = draw(st.sampled_from(CREATED_MS if (ver == "2.0" and cls != "unreg") else CREATED_ANY))
    if cls == "marking":
        return [build(tname, k, created, None, 0, True, overrides)]
    year = draw(st.sampled_from(YEARS))
    if cls == "unreg":   # weight on spellings whose text order contradicts their order in time (Z / .5Z / .123Z / .123456Z / .12Z in one second)
        sp_ok = [0, 0, 2, 4, 5, 6, 9] + sp_ok
    lo = min(max_versions, draw(st.sampled_from([1, 2, 2])))
    moments = draw(st.lists(st.tuples(st.sampled_from([0, 0, 1, 2]), st.sampled_from(sp_ok)), min_size=lo, max_size=max_versions,
                            unique_by=lambda m: (m[0], SPELL[m[1]][0])))
    if max_versions >= 2 and len(SPELL) - 1 in sp_ok and draw(st.integers(0, 7)) == 0:
        # two versions one microsecond apart near the end of the calendar: an instant taken through binary floating point (POSIX seconds as
        # a float resolve ~30 us there) no longer tells them apart
        year = 9998
        moments = [(0, 9), (0, len(SPELL) - 1)] if draw(st.booleans()) else [(0, len(SPELL) - 1), (0, 9)]
    newest = max(moments, key=lambda m: (m[0], SPELL[m[1]][0]))
    return [build(tname, k, created, ts_text(year, s, sp), i + 1, (s, sp) == newest, overrides) for i, (s, sp) in enumerate(moments)]


@st.composite
def pool(draw, min_ids=3, max_ids=6, max_versions=4, max_objects=20, templates=None, unreg_weight=2):
    """A list of stored versions (several per id, distinct modified instants, drawn order)."""
    names = list(templates or ALL_TEMPLATES)
    weighted = names + [n for n in names if TEMPLATES[n][2] == "unreg"] * unreg_weight
    slots = draw(st.lists(st.tuples(st.sampled_from(weighted), st.integers(0, 1)), min_size=min_ids, max_size=max_ids, unique=True))
    out = []
    for tname, k in slots:
        vs = draw(versions_of(tname, k, max_versions))
        if len(out) + len(vs) > max_objects:
            vs = vs[:max(0, max_objects - len(out))]
        out.extend(vs)
    return out


def pool_classes(objs):
    cl = set()
    for o in objs:
        cl.add("type:" + o["type"] + ("/2.1" if o.get("spec_version") else "/2.0"))
        m = o.get("modified")
        if m:
            frac = m[19:-1]
            cl.add("spelling:" + (frac if frac in ("", ".000", ".5", ".500", ".50", ".12", ".120", ".000000") else ".%dd" % (len(frac) - 1)) + "Z")
    return sorted(cl)


def is_dict_kept(obj):
    return obj.get("type") in UNREG_TYPES


def out_of_order_ids(added):
    """ids for which some later-added version is older than an earlier-added one (list of objects in add order)."""
    last = {}
    bad = set()
    for o in added:
        k = M.key_of(o)
        if k[1] is None:
            continue
        if o["id"] in last and k[1] < last[o["id"]]:
            bad.add(o["id"])
        last[o["id"]] = max(k[1], last.get(o["id"], k[1]))
    return bad


def text_order_differs(versions):
    """Among stored versions of one id: does the textual maximum of `modified` differ from the latest instant?"""
    vs = [o for o in versions if o.get("modified")]
    if len(vs) < 2:
        return False
    by_text = max(vs, key=lambda o: o["modified"])
    by_inst = max(vs, key=lambda o: M.instant(o["modified"]))
    return by_text is not by_inst


# ---- filters -------------------------------------------------------------------------
# path -> kind.  Kinds decide which operators and values are type-compatible and semantically documented:
#   str/int/bool/ts : scalar reached through dictionaries only -> every comparison operator of that type
#   ts2             : timestamp property that only registered types carry (datetime filter values allowed)
#   fan             : string reached through a list of embedded objects (holds if it holds for some element): = in contains
#   list            : list of strings: = in contains(whole element or absent value)
PATHS = {
    "name": "str", "description": "str", "value": "str", "identity_class": "str", "relationship_type": "str", "source_ref": "str",
    "target_ref": "str", "created_by_ref": "str", "pattern_type": "str", "spec_version": "str", "definition_type": "str",
    "confidence": "int", "size": "int", "foo": "int",
    "revoked": "bool", "is_family": "bool", "flag": "bool", "defanged": "bool",
    "created": "ts", "modified": "ts", "valid_from": "ts2", "first_seen": "ts2", "published": "ts2",
    "labels": "list", "sectors": "list", "malware_types": "list", "indicator_types": "list", "aliases": "list", "object_refs": "list",
    "object_marking_refs": "list", "tags": "list", "report_types": "list", "granular_markings.selectors": "list",
    "external_references.source_name": "fan", "external_references.external_id": "fan", "kill_chain_phases.phase_name": "fan",
    "granular_markings.marking_ref": "fan",
    "definition.statement": "str", "hashes.MD5": "str", "extensions.ntfs-ext.sid": "str", "nested.k": "str", "meta.k1": "str", "meta.k2": "int",
}
ABSENT_STR = "zz-none"
ORDER_OPS = ["<", "<=", ">", ">="]


def present_values(objs, path):
    vals = []
    for o in objs:
        for v in M._final_values(o, path.split(".")):
            if v not in vals:
                vals.append(v)
    return vals


def respell(t, style):
    """Timestamp text for instant t: 0 minimal digits, 1 at least three, 2 six digits, 3 two-digit-padded minimal (extra zero)."""
    if style == 0:
        return tsref.fmt(t, "any", "exact")
    if style == 1:
        return tsref.fmt(t, "millisecond", "min")
    base = tsref.fmt(t - t % 10 ** 6, "second", "exact")[:-1]
    six = "%06d" % (t % 10 ** 6)
    if style == 2:
        return base + "." + six + "Z"
    frac = six.rstrip("0")
    return base + "." + frac + "0Z" if 0 < len(frac) < 6 else tsref.fmt(t, "any", "exact")


@st.composite
def _ts_value(draw, present, allow_dt):
    if present:
        t = M.instant(draw(st.sampled_from(present)))
    else:
        t = tsref.instant(2020, 1, 1)
    t += draw(st.sampled_from([0, 0, 0, 250000, -250000, 1, -1, 10 ** 6, -10 ** 6, 500000]))
    t = min(max(t, tsref.instant(1000, 1, 1)), tsref.instant(9998, 12, 31))
    text = respell(t, draw(st.integers(0, 3)))
    if allow_dt and draw(st.booleans()):
        return {"$dt": text}
    return text


@st.composite
def type_or_id_filter(draw, objs):
    types = sorted({o["type"] for o in objs})
    ids = sorted({o["id"] for o in objs})
    absent_ids = [i for i in ALL_IDS if i not in ids]
    any_type = st.sampled_from(types) if types else st.sampled_from(ALL_TYPES)
    type_v = st.one_of(any_type, any_type, st.sampled_from(ALL_TYPES + ["campaign", "x-nothing"]))
    id_v = st.one_of(st.sampled_from(ids) if ids else st.sampled_from(ALL_IDS), st.sampled_from(ids) if ids else st.sampled_from(ALL_IDS),
                     st.sampled_from(absent_ids or ALL_IDS), st.sampled_from([oid("campaign", 1), oid("x-nothing", 2)]))
    which = draw(st.sampled_from(["type", "type", "id", "id"]))
    op = draw(st.sampled_from(["=", "=", "=", "!=", "!=", "in", "in", "in", "<", ">=", "contains"]))
    vs = type_v if which == "type" else id_v
    if op == "in":
        value = draw(st.lists(vs, min_size=0, max_size=4))
        if draw(st.integers(0, 9)) == 0:
            # a member that is no text at all: it equals no type and no id (as in a plain list scan); the other members still count
            value.insert(draw(st.integers(0, len(value))), draw(st.sampled_from([5, None, True, 1.5])))
        elif draw(st.integers(0, 7)) == 0:
            # a text as the right-hand side of `in` (substring test, as Python's `in`): the value itself, text around it, two joined
            v = draw(vs)
            value = draw(st.sampled_from([v, "x-" + v + "-kit", v + "," + draw(vs), v[:-1]]))
    elif op == "contains":
        v = draw(vs)
        a = draw(st.integers(0, max(0, len(v) - 1)))
        value = v[a:a + draw(st.integers(1, 12))]
        if which == "type" and "_" in value:
            value = v
    else:
        value = draw(vs)
        if op in ("=", "!=") and draw(st.integers(0, 11)) == 0:
            # texts that are no type / id of any object but would name something as a path: the parent directory, a detour through it
            t = draw(any_type)
            value = draw(st.sampled_from(["..", ".", t + "/../" + t, "./" + t, t + "/"])) if which == "type" else \
                draw(st.sampled_from(["..", "../" + draw(id_v), t + "/../" + draw(id_v)]))
        elif op in ("=", "!=") and draw(st.integers(0, 7)) == 0:
            # a list compared for (in)equality with a text: never equal, always unequal
            value = [value] + draw(st.lists(vs, max_size=1))
    return {"prop": which, "op": op, "value": value}


def _ts_excluded(path, objs, no_ts):
    """no_ts=True: no timestamp-valued paths at all; no_ts="dict-kept": none where a dictionary-kept object carries the path
    (the recorded open finding C12 dict-kept-timestamp-compared-as-text lives there; C12 itself explores that region)."""
    if not no_ts or PATHS[path] not in ("ts", "ts2"):
        return False
    return no_ts is True or any(is_dict_kept(o) and path in o for o in objs)


@st.composite
def property_filter(draw, objs, dt_ok=True, no_ts=False):
    all_paths = [p for p in sorted(PATHS) if not _ts_excluded(p, objs, no_ts)]
    present_paths = [p for p in all_paths if present_values(objs, p)]
    path = draw(st.sampled_from(present_paths)) if present_paths and draw(st.integers(0, 9)) else draw(st.sampled_from(all_paths))
    kind = PATHS[path]
    vals = present_values(objs, path)
    if kind in ("ts", "ts2"):
        op = draw(st.sampled_from(["=", "!=", "<", "<=", ">", ">=", "<", ">", "=", "in"]))
        # a datetime instance is only type-compatible with parsed timestamps: not where a dictionary-kept object carries the property
        tv = _ts_value([v for v in vals if M.is_ts(v)], dt_ok and not any(is_dict_kept(o) and path in o for o in objs))
        if op == "in":
            return {"prop": path, "op": op, "value": draw(st.lists(_ts_value([v for v in vals if M.is_ts(v)], False), max_size=3))}
        return {"prop": path, "op": op, "value": draw(tv)}
    if kind == "bool":
        op = draw(st.sampled_from(["=", "!=", "in"]))
        return {"prop": path, "op": op, "value": draw(st.lists(st.booleans(), max_size=2)) if op == "in" else draw(st.booleans())}
    if kind == "int":
        ints = [v for v in vals if isinstance(v, int) and not isinstance(v, bool)] or [5]
        iv = st.one_of(st.sampled_from(ints), st.sampled_from(ints).map(lambda x: x + 1), st.sampled_from(ints).map(lambda x: x - 1), st.just(0))
        op = draw(st.sampled_from(["=", "!=", "in"] + ORDER_OPS))
        return {"prop": path, "op": op, "value": draw(st.lists(iv, max_size=3)) if op == "in" else draw(iv)}
    strs = [v for v in vals if isinstance(v, str)] or [ABSENT_STR]
    sv = st.one_of(st.sampled_from(strs), st.sampled_from(strs), st.just(ABSENT_STR))
    if kind == "str":
        op = draw(st.sampled_from(["=", "=", "!=", "in", "contains"] + ORDER_OPS))
    else:
        op = draw(st.sampled_from(["=", "in", "contains"]))
    if op == "in":
        return {"prop": path, "op": op, "value": draw(st.lists(sv, max_size=3))}
    if op == "contains" and kind != "list":
        v = draw(sv)
        a = draw(st.integers(0, max(0, len(v) - 1)))
        return {"prop": path, "op": op, "value": v[a:a + draw(st.integers(1, 8))]}
    return {"prop": path, "op": op, "value": draw(sv)}


def _clamp(t):
    return min(max(t, tsref.instant(1000, 1, 1)), tsref.instant(9998, 12, 31))


@st.composite
def aimed_ts_filter(draw, objs, path, v, dt_ok=True):
    """A timestamp filter that holds for the stored value v of `path`, the filter value respelled (Z / .0Z / .000Z / .000000Z ...)."""
    t = M.instant(v)
    op = draw(st.sampled_from(["=", "=", "<=", ">=", "<", ">", "!=", "in"]))
    delta = draw(st.sampled_from([1, 250000, 500000, 10 ** 6]))
    t2 = _clamp({"<": t + delta, ">": t - delta, "!=": t + delta}.get(op, t))
    if t2 == t and op in ("<", ">", "!="):
        op = "="
    text = respell(t2, draw(st.integers(0, 3)))
    if op == "in":
        return {"prop": path, "op": op, "value": [text] + [respell(_clamp(t + 7), 0)] * draw(st.integers(0, 1))}
    if dt_ok and draw(st.booleans()) and not any(is_dict_kept(o) and path in o for o in objs):
        return {"prop": path, "op": op, "value": {"$dt": text}}
    return {"prop": path, "op": op, "value": text}


@st.composite
def aimed_filter(draw, objs, target, type_id, dt_ok=True, no_ts=False):
    """A filter that holds for `target` (one stored object): keeps conjunctions from being empty all the time."""
    if type_id:
        which = draw(st.sampled_from(["type", "id"]))
        v = target[which]
        others = sorted({o[which] for o in objs if o[which] != v}) + (ALL_TYPES + ["campaign"] if which == "type" else ALL_IDS + [oid("campaign", 1)])
        others = [x for x in others if x != v]
        op = draw(st.sampled_from(["=", "=", "in", "in", "!=", "!=", ">=", "contains"]))
        if op == "in":
            value = draw(st.lists(st.sampled_from(others), max_size=3))
            value.insert(draw(st.integers(0, len(value))), v)
        elif op == "!=":
            value = draw(st.sampled_from(others))
        elif op == "contains":
            a = draw(st.integers(0, max(0, len(v) - 1)))
            value = v[a:a + draw(st.integers(1, 12))]
        else:
            value = v
        return {"prop": which, "op": op, "value": value}
    paths = [p for p in sorted(PATHS) if not _ts_excluded(p, objs, no_ts) and M._final_values(target, p.split("."))]
    if not paths:
        return draw(aimed_filter(objs, target, True))
    path = draw(st.sampled_from(paths))
    kind = PATHS[path]
    v = draw(st.sampled_from(M._final_values(target, path.split("."))))
    others = [x for x in present_values(objs, path) if x != v and type(x) is type(v)]
    if kind in ("ts", "ts2"):
        return draw(aimed_ts_filter(objs, path, v, dt_ok))
    if kind == "bool":
        op = draw(st.sampled_from(["=", "!=", "in"]))
        return {"prop": path, "op": op, "value": v if op == "=" else (not v) if op == "!=" else [v]}
    if kind == "int":
        op = draw(st.sampled_from(["=", "in", "<=", ">=", "<", ">", "!="]))
        value = {"<": v + 1, ">": v - 1, "!=": v + 1, "in": [v] + others[:1]}.get(op, v)
        return {"prop": path, "op": op, "value": value}
    ops = ["=", "=", "in", "contains"] + (["<=", ">=", "<", ">", "!="] if kind == "str" else [])
    op = draw(st.sampled_from(ops))
    if op == "in":
        value = draw(st.lists(st.sampled_from(others + [ABSENT_STR]), max_size=2))
        value.insert(draw(st.integers(0, len(value))), v)
    elif op == "contains" and kind != "list":
        a = draw(st.integers(0, max(0, len(v) - 1)))
        value = v[a:a + draw(st.integers(1, 8))]
    elif op == "<":
        value = v + "z"
    elif op == ">":
        value = v[:-1] if len(v) > 1 else " "
    elif op == "!=":
        value = draw(st.sampled_from(others + [ABSENT_STR]))
    else:
        value = v
    return {"prop": path, "op": op, "value": value}


@st.composite
def filter_set(draw, objs, min_size=0, max_size=5, type_id_weight=2, dt_ok=True, no_ts=False):
    """0-5 filters; three times out of four most of them are aimed at one stored object so that conjunctions have answers."""
    n = draw(st.sampled_from([k for k in (0, 1, 1, 2, 2, 2, 3, 3, 4, 5) if min_size <= k <= max_size]))
    target = draw(st.sampled_from(objs)) if objs and draw(st.integers(0, 3)) else None
    out = []
    for _ in range(n):
        type_id = draw(st.integers(0, 4)) < type_id_weight
        if target is not None and draw(st.integers(0, 4)):
            out.append(draw(aimed_filter(objs, target, type_id, dt_ok, no_ts)))
        elif type_id:
            out.append(draw(type_or_id_filter(objs)))
        else:
            out.append(draw(property_filter(objs, dt_ok, no_ts)))
    if target is not None and len(out) <= max_size - 2 + (1 if out else 0) and draw(st.integers(0, 3)) == 0:
        out = (out[:max(0, max_size - 2)] + draw(twin_equalities(objs, target, no_ts)))[:max(max_size, 2)]
    return out


@st.composite
def twin_equalities(draw, objs, target, no_ts=False):
    """Two '=' filters on ONE property with different values that both hold for `target`: two elements of a list-valued (or fanned-out)
    property, or two spellings of one timestamp.  (Equalities on one property contradict each other only for scalar, literally
    compared values.)"""
    multi = [p for p in sorted(PATHS) if PATHS[p] in ("list", "fan") and len(set(map(str, M._final_values(target, p.split("."))))) >= 2]
    tsp = [p for p in sorted(PATHS) if PATHS[p] in ("ts", "ts2") and not _ts_excluded(p, objs, no_ts) and M._final_values(target, p.split("."))]
    kinds = (["multi"] if multi else []) + (["ts"] if tsp else [])
    if not kinds:
        return []
    if draw(st.sampled_from(kinds)) == "multi":
        path = draw(st.sampled_from(multi))
        vals = []
        for v in M._final_values(target, path.split(".")):
            if v not in vals:
                vals.append(v)
        a = draw(st.integers(0, len(vals) - 1))
        b = draw(st.integers(0, len(vals) - 2))
        b = b + 1 if b >= a else b
        return [{"prop": path, "op": "=", "value": vals[a]}, {"prop": path, "op": "=", "value": vals[b]}]
    path = draw(st.sampled_from(tsp))
    t = M.instant(M._final_values(target, path.split("."))[0])
    s1 = draw(st.integers(0, 3))
    s2 = draw(st.integers(0, 2))
    s2 = s2 + 1 if s2 >= s1 else s2
    return [{"prop": path, "op": "=", "value": respell(t, s1)}, {"prop": path, "op": "=", "value": respell(t, s2)}]


def filter_classes(filters):
    cl = []
    for f in filters:
        kind = "type" if f["prop"] == "type" else "id" if f["prop"] == "id" else PATHS.get(f["prop"], "?")
        cl.append("op:" + f["op"])
        cl.append("kind:%s" % kind)
        if "." in f["prop"]:
            cl.append("dotted-path")
        if isinstance(f["value"], dict):
            cl.append("value:datetime")
        elif M.is_ts(f["value"]):
            cl.append("value:timestamp-text")
    return cl


def filter_shape(filters):
    return sorted("%s %s %s" % (f["prop"], f["op"], "list%d" % len(f["value"]) if isinstance(f["value"], list) else type(f["value"]).__name__)
                  for f in filters)


def selftest():
    # list-element vocabulary must be free of proper-substring relations (keeps `contains` on lists unambiguous)
    words = set()
    for t in ALL_TEMPLATES:
        o = build(t, 0, "1000-01-01T00:00:00.000Z", "2020-01-01T00:00:00.000Z", 1, True)
        for p, kind in PATHS.items():
            if kind == "list":
                words.update(v for v in present_values([o], p) if isinstance(v, str))
    words.add(ABSENT_STR)
    for a in words:
        for b in words:
            assert a == b or a not in b, "list vocabulary: %r is a substring of %r" % (a, b)
    assert len(set(ALL_IDS)) == 2 * len(ALL_TEMPLATES), "id slots collide"
    assert respell(ts_instant(2020, 0, 2), 0).endswith(":00.5Z") and respell(ts_instant(2020, 0, 2), 1).endswith(":00.500Z")
    assert respell(ts_instant(2020, 0, 2), 2).endswith(":00.500000Z") and respell(ts_instant(2020, 0, 2), 3).endswith(":00.50Z")
    assert respell(ts_instant(2020, 1, 0), 3).endswith(":01Z") and respell(ts_instant(2020, 1, 0), 1).endswith(":01.000Z")
    for sp, (us, txt) in enumerate(SPELL):
        assert M.instant(ts_text(2020, 1, sp)) == ts_instant(2020, 1, sp)
