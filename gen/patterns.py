"""STIX pattern AST, printer, parser and Hypothesis strategies (DESIGN 1.2(6)).

Independent of stix2 (never imported here).  Everything is JSON:

comparison level
  {"k":"cmp","path":P,"op":OP,"neg":bool,"rhs":C}      OP in OPS
  {"k":"exists","path":P,"neg":bool}                    (2.1 only)
  {"k":"and"|"or","args":[...]}                         n-ary; a child with the same k means explicit parentheses
observation level
  {"k":"obs","e":<comparison level>}
  {"k":"oand"|"oor"|"ofb","args":[...]}
  {"k":"qual","e":<observation level>,"q":Q}
  Q = {"q":"repeats","n":INT} | {"q":"within","n":INT|FLOAT} | {"q":"startstop","a":TS,"b":TS}
path      P = {"t":"file","steps":[{"s":"key","n":"name","q":bool} | {"s":"idx","i":int|"*"}, ...]}   (first step is a key)
constants C = {"c":"int","v":5,"sp":"+5"} {"c":"float","sp":".5"} {"c":"str","v":"x"} {"c":"bool","v":true}
              {"c":"ts","v":"2020-01-01T00:00:00.5Z"} {"c":"hex","v":"AB"} {"c":"bin","v":"YQ=="} {"c":"set","items":[C...]}

Printing takes a *style*: a list of small ints consumed cyclically, deciding
whitespace, comments, redundant parentheses and operator spelling.  The empty
style prints the compact canonical form, so cases shrink towards it.
"""
import re

OPS = ["=", "!=", "<", "<=", ">", ">=", "IN", "LIKE", "MATCHES", "ISSUBSET", "ISSUPERSET"]
ORDER_OPS = ("<", "<=", ">", ">=")
STRING_OPS = ("LIKE", "MATCHES", "ISSUBSET", "ISSUPERSET")
KEYWORDS = {"AND", "OR", "NOT", "FOLLOWEDBY", "LIKE", "MATCHES", "ISSUPERSET", "ISSUBSET", "EXISTS", "LAST", "IN", "START",
            "STOP", "SECONDS", "true", "false", "WITHIN", "REPEATS", "TIMES"}
IDENT_RE = re.compile(r"^[A-Za-z_][A-Za-z0-9_]*$")
TYPE_RE = re.compile(r"^[A-Za-z_][A-Za-z0-9_-]*$")
TS_RE = re.compile(r"^(\d{4})-(0[1-9]|1[012])-(0[1-9]|[12]\d|3[01])T([01]\d|2[0-3]):([0-5]\d):([0-5]\d|60)(?:\.(\d+))?Z$")
OBS_OPS = {"oand": "AND", "oor": "OR", "ofb": "FOLLOWEDBY"}
OBS_PREC = {"ofb": 1, "oor": 2, "oand": 3, "qual": 4, "obs": 4}
CMP_PREC = {"or": 1, "and": 2, "cmp": 3, "exists": 3}


class PatternSyntaxError(Exception):
    pass


def plain_ident(name):
    return bool(IDENT_RE.match(name)) and name not in KEYWORDS


# ----------------------------------------------------------------------
# printer

class Style(object):
    def __init__(self, seq=()):
        self.seq = list(seq or ())
        self.i = 0

    def pick(self, n):
        if not self.seq or n <= 1:
            return 0
        v = self.seq[self.i % len(self.seq)]
        self.i += 1
        return v % n


_OPT_WS = ["", " ", "", "  ", "\t", "\n", " /* c */ ", " ", "/**/", " \r\n "]
_REQ_WS = [" ", " ", "  ", "\t", "\n", " /* c */ ", " ", "/*x*/"]
_LEAD_WS = ["", " ", "", "\n", "\t ", "\u00a0"]
_WORD = set("ABCDEFGHIJKLMNOPQRSTUVWXYZabcdefghijklmnopqrstuvwxyz0123456789_")


def _join(tokens, sty, loose):
    """Concatenate tokens; whitespace is mandatory only where two word-like tokens would fuse."""
    out = []
    prev = None
    for tok in tokens:
        if prev is not None:
            need = (prev[-1] in _WORD or prev[-1] == "-") and (tok[0] in _WORD or tok[0] in "+-.'")
            if need:
                out.append(_REQ_WS[sty.pick(len(_REQ_WS))] if loose else " ")
            elif loose:
                out.append(_OPT_WS[sty.pick(len(_OPT_WS))])
            else:
                out.append(_compact_sep(prev, tok))
        out.append(tok)
        prev = tok
    return "".join(out)


def _compact_sep(prev, tok):
    # canonical spacing close to common usage (purely cosmetic; every choice here is legal)
    if prev in ("[", "(", ":", ".") or tok in ("]", ")", ":", ".", ","):
        return ""
    if tok == "[" and prev not in ("AND", "OR", "FOLLOWEDBY"):
        return ""
    return " "


def escape_string(s):
    return s.replace("\\", "\\\\").replace("'", "\\'")


def const_tokens(c):
    k = c["c"]
    if k == "int":
        return [c.get("sp") or str(c["v"])]
    if k == "float":
        return [c["sp"]]
    if k == "str":
        return ["'" + escape_string(c["v"]) + "'"]
    if k == "bool":
        return ["true" if c["v"] else "false"]
    if k == "ts":
        return ["t'" + c["v"] + "'"]
    if k == "hex":
        return ["h'" + c["v"] + "'"]
    if k == "bin":
        return ["b'" + c["v"] + "'"]
    if k == "set":
        toks = ["("]
        for i, it in enumerate(c["items"]):
            if i:
                toks.append(",")
            toks.extend(const_tokens(it))
        toks.append(")")
        return toks
    raise ValueError("constant kind %r" % k)


def path_tokens(p):
    toks = [p["t"], ":"]
    first = True
    for st in p["steps"]:
        if st["s"] == "key":
            if not first:
                toks.append(".")
            if st.get("q") or not plain_ident(st["n"]):
                toks.append("'" + escape_string(st["n"]) + "'")
            else:
                toks.append(st["n"])
        else:
            if first:
                raise ValueError("path starts with an index step")
            toks.extend(["[", str(st["i"]), "]"])
        first = False
    return toks


def _cmp_tokens(n, sty, loose, parent_prec):
    k = n["k"]
    if k == "cmp":
        toks = path_tokens(n["path"])
        if n["neg"]:
            toks.append("NOT")
        op = n["op"]
        if loose and op == "=" and sty.pick(4) == 1:
            op = "=="
        elif loose and op == "!=" and sty.pick(3) == 1:
            op = "<>"
        toks.append(op)
        toks.extend(const_tokens(n["rhs"]))
    elif k == "exists":
        toks = (["NOT"] if n["neg"] else []) + ["EXISTS"] + path_tokens(n["path"])
    else:
        word = "AND" if k == "and" else "OR"
        toks = []
        for i, a in enumerate(n["args"]):
            if i:
                toks.append(word)
            toks.extend(_cmp_tokens(a, sty, loose, CMP_PREC[k] + 0.5))
    need = CMP_PREC[k] < parent_prec
    extra = 1 if (loose and sty.pick(7) == 1) else 0
    for _ in range((1 if need else 0) + extra):
        toks = ["("] + toks + [")"]
    return toks


def _qual_tokens(q):
    if q["q"] == "repeats":
        return ["REPEATS"] + const_tokens(q["n"]) + ["TIMES"]
    if q["q"] == "within":
        return ["WITHIN"] + const_tokens(q["n"]) + ["SECONDS"]
    return ["START"] + const_tokens(q["a"]) + ["STOP"] + const_tokens(q["b"])


def _obs_tokens(n, sty, loose, parent_prec):
    """Returns (tokens, bare) where bare is the set of qualifier kinds applied directly to an un-parenthesised [...]
    (the third-party 2.1 validator refuses a repeated kind there), or None."""
    k = n["k"]
    bare = None
    if k == "obs":
        toks = ["["] + _cmp_tokens(n["e"], sty, loose, 0) + ["]"]
        bare = set()
    elif k == "qual":
        inner, ibare = _obs_tokens(n["e"], sty, loose, 4)
        if ibare is not None and n["q"]["q"] in ibare:
            inner = ["("] + inner + [")"]
            ibare = None
        toks = inner + _qual_tokens(n["q"])
        bare = None if ibare is None else ibare | {n["q"]["q"]}
    else:
        word = OBS_OPS[k]
        toks = []
        for i, a in enumerate(n["args"]):
            if i:
                toks.append(word)
            toks.extend(_obs_tokens(a, sty, loose, OBS_PREC[k] + 0.5)[0])
    need = OBS_PREC[k] < parent_prec
    extra = 1 if (loose and sty.pick(7) == 1) else 0
    if need or extra:
        bare = None
    for _ in range((1 if need else 0) + extra):
        toks = ["("] + toks + [")"]
    return toks, bare


def to_text(ast, style=None):
    """Print an observation-level AST.  style None/[] -> canonical compact text."""
    sty = Style(style)
    loose = bool(sty.seq)
    toks, _ = _obs_tokens(ast, sty, loose, 0)
    body = _join(toks, sty, loose)
    if loose:  # no comment in front: the third-party validator's bracket pre-check only skips blanks and "("
        body = _LEAD_WS[sty.pick(len(_LEAD_WS))] + body + _OPT_WS[sty.pick(len(_OPT_WS))]
    return body
