"""STIX pattern AST, printer, parser and Hypothesis strategies (DESIGN 1.2(6)).

Independent of stix2 (never imported here).  Everything is JSON:

comparison level
  {"k":"cmp","path":P,"op":OP,"neg":bool,"rhs":C}      OP in OPS
  {"k":"exists","path":P,"neg":bool}                    (2.1 only)
  {"k":"and"|"or","args":[...]}                         n-ary; a child with the same k means explicit parentheses
observation level
  {"k":"obs","e":<comparison level>}
  {"k":"oand"|"oor"|"ofb","args":[...]}
  {"k":"qual","e":<observation level>,"q":Q}
  Q = {"q":"repeats","n":INT} | {"q":"within","n":INT|FLOAT} | {"q":"startstop","a":TS,"b":TS}
path      P = {"t":"file","steps":[{"s":"key","n":"name","q":bool} | {"s":"idx","i":int|"*"}, ...]}   (first step is a key)
constants C = {"c":"int","v":5,"sp":"+5"} {"c":"float","sp":".5"} {"c":"str","v":"x"} {"c":"bool","v":true}
              {"c":"ts","v":"2020-01-01T00:00:00.5Z"} {"c":"hex","v":"AB"} {"c":"bin","v":"YQ=="} {"c":"set","items":[C...]}

Printing takes a *style*: a list of small ints consumed cyclically, deciding
whitespace, comments, redundant parentheses and operator spelling.  The empty
style prints the compact canonical form, so cases shrink towards it.
"""
import re

OPS = ["=", "!=", "<", "<=", ">", ">=", "IN", "LIKE", "MATCHES", "ISSUBSET", "ISSUPERSET"]
ORDER_OPS = ("<", "<=", ">", ">=")
STRING_OPS = ("LIKE", "MATCHES", "ISSUBSET", "ISSUPERSET")
KEYWORDS = {"AND", "OR", "NOT", "FOLLOWEDBY", "LIKE", "MATCHES", "ISSUPERSET", "ISSUBSET", "EXISTS", "LAST", "IN", "START",
            "STOP", "SECONDS", "true", "false", "WITHIN", "REPEATS", "TIMES"}
IDENT_RE = re.compile(r"^[A-Za-z_][A-Za-z0-9_]*\Z")
TYPE_RE = re.compile(r"^[A-Za-z_][A-Za-z0-9_-]*\Z")
TS_RE = re.compile(r"^(\d{4})-(0[1-9]|1[012])-(0[1-9]|[12]\d|3[01])T([01]\d|2[0-3]):([0-5]\d):([0-5]\d|60)(?:\.(\d+))?Z\Z")
OBS_OPS = {"oand": "AND", "oor": "OR", "ofb": "FOLLOWEDBY"}
OBS_PREC = {"ofb": 1, "oor": 2, "oand": 3, "qual": 4, "obs": 4}
CMP_PREC = {"or": 1, "and": 2, "cmp": 3, "exists": 3}


class PatternSyntaxError(Exception):
    pass


def plain_ident(name):
    return bool(IDENT_RE.match(name)) and name not in KEYWORDS


# ----------------------------------------------------------------------
# printer

class Style(object):
    def __init__(self, seq=()):
        self.seq = list(seq or ())
        self.i = 0

    def pick(self, n):
        if not self.seq or n <= 1:
            return 0
        v = self.seq[self.i % len(self.seq)]
        self.i += 1
        return v % n


_OPT_WS = ["", " ", "", "  ", "\t", "\n", " /* c */ ", " ", "/**/", " \r\n "]
_REQ_WS = [" ", " ", "  ", "\t", "\n", " /* c */ ", " ", "/*x*/"]
_LEAD_WS = ["", " ", "", "\n", "\t ", "\u00a0"]
_WORD = set("ABCDEFGHIJKLMNOPQRSTUVWXYZabcdefghijklmnopqrstuvwxyz0123456789_")


def _join(tokens, sty, loose):
    """Concatenate tokens; whitespace is mandatory only where two word-like tokens would fuse.  No comment is placed
    before the first "[": the third-party validator's bracket pre-check skips only blanks and "(" there."""
    out = []
    prev = None
    opened = False
    for tok in tokens:
        if prev is not None:
            need = (prev[-1] in _WORD or prev[-1] == "-") and (tok[0] in _WORD or tok[0] == "'" or (tok[0] in "+-." and len(tok) > 1))
            if not loose:
                out.append(" " if need else _compact_sep(prev, tok))
            elif not opened:
                out.append(_LEAD_WS[sty.pick(len(_LEAD_WS))])
            elif need:
                out.append(_REQ_WS[sty.pick(len(_REQ_WS))])
            else:
                out.append(_OPT_WS[sty.pick(len(_OPT_WS))])
        out.append(tok)
        opened = opened or tok == "["
        prev = tok
    return "".join(out)


def _compact_sep(prev, tok):
    # canonical spacing close to common usage (purely cosmetic; every choice here is legal)
    if prev in ("[", "(", ":", ".") or tok in ("]", ")", ":", ".", ","):
        return ""
    if tok == "[" and prev not in ("AND", "OR", "FOLLOWEDBY"):
        return ""
    return " "


def escape_string(s):
    return s.replace("\\", "\\\\").replace("'", "\\'")


def const_tokens(c):
    k = c["c"]
    if k == "int":
        return [c.get("sp") or str(c["v"])]
    if k == "float":
        return [c["sp"]]
    if k == "str":
        return ["'" + escape_string(c["v"]) + "'"]
    if k == "bool":
        return ["true" if c["v"] else "false"]
    if k == "ts":
        return ["t'" + c["v"] + "'"]
    if k == "hex":
        return ["h'" + c["v"] + "'"]
    if k == "bin":
        return ["b'" + c["v"] + "'"]
    if k == "set":
        toks = ["("]
        for i, it in enumerate(c["items"]):
            if i:
                toks.append(",")
            toks.extend(const_tokens(it))
        toks.append(")")
        return toks
    raise ValueError("constant kind %r" % k)


def path_tokens(p):
    toks = [p["t"], ":"]
    first = True
    for st in p["steps"]:
        if st["s"] == "key":
            if not first:
                toks.append(".")
            if st.get("q") or not plain_ident(st["n"]):
                toks.append("'" + escape_string(st["n"]) + "'")
            else:
                toks.append(st["n"])
        else:
            if first:
                raise ValueError("path starts with an index step")
            toks.extend(["[", st.get("sp") or str(st["i"]), "]"])
        first = False
    return toks


def _cmp_tokens(n, sty, loose, parent_prec):
    k = n["k"]
    if k == "cmp":
        toks = path_tokens(n["path"])
        if n["neg"]:
            toks.append("NOT")
        op = n["op"]
        if loose and op == "=" and sty.pick(4) == 1:
            op = "=="
        elif loose and op == "!=" and sty.pick(3) == 1:
            op = "<>"
        toks.append(op)
        toks.extend(const_tokens(n["rhs"]))
    elif k == "exists":
        toks = (["NOT"] if n["neg"] else []) + ["EXISTS"] + path_tokens(n["path"])
    else:
        word = "AND" if k == "and" else "OR"
        toks = []
        for i, a in enumerate(n["args"]):
            if i:
                toks.append(word)
            toks.extend(_cmp_tokens(a, sty, loose, CMP_PREC[k] + 0.5))
    need = CMP_PREC[k] < parent_prec
    extra = 1 if (loose and sty.pick(7) == 1) else 0
    for _ in range((1 if need else 0) + extra):
        toks = ["("] + toks + [")"]
    return toks


def _qual_tokens(q):
    if q["q"] == "repeats":
        return ["REPEATS"] + const_tokens(q["n"]) + ["TIMES"]
    if q["q"] == "within":
        return ["WITHIN"] + const_tokens(q["n"]) + ["SECONDS"]
    return ["START"] + const_tokens(q["a"]) + ["STOP"] + const_tokens(q["b"])


def _obs_tokens(n, sty, loose, parent_prec):
    """Returns (tokens, bare) where bare is the set of qualifier kinds applied directly to an un-parenthesised [...]
    (the third-party 2.1 validator refuses a repeated kind there), or None."""
    k = n["k"]
    bare = None
    if k == "obs":
        toks = ["["] + _cmp_tokens(n["e"], sty, loose, 0) + ["]"]
        bare = set()
    elif k == "qual":
        inner, ibare = _obs_tokens(n["e"], sty, loose, 4)
        if ibare is not None and n["q"]["q"] in ibare:
            inner = ["("] + inner + [")"]
            ibare = None
        toks = inner + _qual_tokens(n["q"])
        bare = None if ibare is None else ibare | {n["q"]["q"]}
    else:
        word = OBS_OPS[k]
        toks = []
        for i, a in enumerate(n["args"]):
            if i:
                toks.append(word)
            toks.extend(_obs_tokens(a, sty, loose, OBS_PREC[k] + 0.5)[0])
    need = OBS_PREC[k] < parent_prec
    extra = 1 if (loose and sty.pick(7) == 1) else 0
    if need or extra:
        bare = None
    for _ in range((1 if need else 0) + extra):
        toks = ["("] + toks + [")"]
    return toks, bare


def to_text(ast, style=None):
    """Print an observation-level AST.  style None/[] -> canonical compact text."""
    sty = Style(style)
    loose = bool(sty.seq)
    toks, _ = _obs_tokens(ast, sty, loose, 0)
    body = _join(toks, sty, loose)
    if loose:  # no comment in front: the third-party validator's bracket pre-check only skips blanks and "("
        body = _LEAD_WS[sty.pick(len(_LEAD_WS))] + body + _OPT_WS[sty.pick(len(_OPT_WS))]
    return body


# ----------------------------------------------------------------------
# parser (recursive descent over my own tokenizer; mirrors the stix2-patterns 2.1.2 grammar)

_WS_CHARS = set(" \t\r\n\x0b\x0c\x85\xa0                　")
_B64 = "[A-Za-z0-9+/]"
_LEX = [  # (type, regex) in the grammar's priority order; longest match wins, ties go to the earlier rule
    ("intneg", re.compile(r"-(?:0|[1-9][0-9]*)")),
    ("intpos", re.compile(r"\+?(?:0|[1-9][0-9]*)")),
    ("floatneg", re.compile(r"-[0-9]*\.[0-9]+")),
    ("floatpos", re.compile(r"\+?[0-9]*\.[0-9]+")),
    ("hex", re.compile(r"h'(?:[A-Fa-f0-9]{2})*'")),
    ("bin", re.compile(r"b'(?:%s{4})*(?:%s{4}|%s{3}=|%s{2}==)'" % (_B64, _B64, _B64, _B64))),
    ("str", re.compile(r"'(?:[^'\\]|\\'|\\\\)*'")),
    ("bool", re.compile(r"true|false")),
    ("ts", re.compile(r"t'[0-9]{4}-(?:0[1-9]|1[012])-(?:0[1-9]|[12][0-9]|3[01])T(?:[01][0-9]|2[0-3]):[0-5][0-9]:(?:[0-5][0-9]|60)(?:\.[0-9]+)?Z'")),
    ("kw", None),  # handled through the identifier rule below
    ("id", re.compile(r"[A-Za-z_][A-Za-z0-9_]*")),
    ("idh", re.compile(r"[A-Za-z_][A-Za-z0-9_-]*")),
    ("op", re.compile(r"==|=|!=|<>|<=|>=|<|>")),
    ("punct", re.compile(r"[:.,()\[\]*]")),
]


def tokenize(text, version="2.1"):
    kws = KEYWORDS if version == "2.1" else KEYWORDS - {"EXISTS"}
    toks = []
    i, n = 0, len(text)
    while i < n:
        ch = text[i]
        if ch in _WS_CHARS:
            i += 1
            continue
        if text.startswith("/*", i):
            j = text.find("*/", i + 2)
            if j < 0:
                raise PatternSyntaxError("unterminated comment at %d" % i)
            i = j + 2
            continue
        if text.startswith("//", i):
            j = i
            while j < n and text[j] not in "\r\n":
                j += 1
            i = j
            continue
        best = None
        for typ, rx in _LEX:
            if rx is None:
                continue
            m = rx.match(text, i)
            if m and m.end() > i and (best is None or m.end() > best[1]):
                best = (typ, m.end())
        if best is None:
            raise PatternSyntaxError("unexpected character %r at %d" % (ch, i))
        typ, j = best
        val = text[i:j]
        if typ == "id" and val in kws:
            typ = "kw"
        toks.append((typ, val, i))
        i = j
    toks.append(("eof", "", n))
    return toks


def unescape_string(body):
    out = []
    i = 0
    while i < len(body):
        if body[i] == "\\":
            out.append(body[i + 1])
            i += 2
        else:
            out.append(body[i])
            i += 1
    return "".join(out)


class _Parser(object):
    def __init__(self, text, version):
        self.toks = tokenize(text, version)
        self.i = 0
        self.version = version

    def peek(self, k=0):
        return self.toks[min(self.i + k, len(self.toks) - 1)]

    def at(self, typ, val=None):
        t = self.peek()
        return t[0] == typ and (val is None or t[1] == val)

    def take(self, typ=None, val=None):
        t = self.peek()
        if (typ is not None and t[0] != typ) or (val is not None and t[1] != val):
            raise PatternSyntaxError("expected %s %s, found %r at %d" % (typ or "", val or "", t[1], t[2]))
        self.i += 1
        return t

    # observation level
    def pattern(self):
        n = self.obs_chain(0)
        self.take("eof")
        return n

    _LEVELS = [("ofb", "FOLLOWEDBY"), ("oor", "OR"), ("oand", "AND")]

    def obs_chain(self, lvl):
        if lvl == 3:
            return self.obs_atom()
        k, word = self._LEVELS[lvl]
        args = [self.obs_chain(lvl + 1)]
        while self.at("kw", word):
            self.take()
            args.append(self.obs_chain(lvl + 1))
        return args[0] if len(args) == 1 else {"k": k, "args": args}

    def obs_atom(self):
        if self.at("punct", "["):
            self.take()
            e = self.cmp_chain(0)
            self.take("punct", "]")
            n = {"k": "obs", "e": e}
        elif self.at("punct", "("):
            self.take()
            n = self.obs_chain(0)
            self.take("punct", ")")
        else:
            t = self.peek()
            raise PatternSyntaxError("expected '[' or '(', found %r at %d" % (t[1], t[2]))
        while True:
            if self.at("kw", "REPEATS"):
                self.take()
                c = self.const(("intpos",))
                self.take("kw", "TIMES")
                q = {"q": "repeats", "n": c}
            elif self.at("kw", "WITHIN"):
                self.take()
                c = self.const(("intpos", "floatpos"))
                self.take("kw", "SECONDS")
                q = {"q": "within", "n": c}
            elif self.at("kw", "START"):
                self.take()
                a = self.const(("ts",))
                self.take("kw", "STOP")
                b = self.const(("ts",))
                q = {"q": "startstop", "a": a, "b": b}
            else:
                return n
            n = {"k": "qual", "e": n, "q": q}

    # comparison level
    def cmp_chain(self, lvl):
        if lvl == 2:
            return self.prop_test()
        k, word = (("or", "OR"), ("and", "AND"))[lvl]
        args = [self.cmp_chain(lvl + 1)]
        while self.at("kw", word):
            self.take()
            args.append(self.cmp_chain(lvl + 1))
        return args[0] if len(args) == 1 else {"k": k, "args": args}

    _ORDERABLE = ("intpos", "intneg", "floatpos", "floatneg", "str", "bin", "hex", "ts")

    def prop_test(self):
        if self.at("punct", "("):
            self.take()
            n = self.cmp_chain(0)
            self.take("punct", ")")
            return n
        if self.at("kw", "EXISTS") or (self.at("kw", "NOT") and self.peek(1)[:2] == ("kw", "EXISTS")):
            neg = False
            if self.at("kw", "NOT"):
                self.take()
                neg = True
            self.take("kw", "EXISTS")
            return {"k": "exists", "path": self.path(), "neg": neg}
        p = self.path()
        neg = False
        if self.at("kw", "NOT"):
            self.take()
            neg = True
        t = self.take()
        if t[0] == "op":
            op = {"==": "=", "<>": "!="}.get(t[1], t[1])
            rhs = self.const(self._ORDERABLE + (("bool",) if op in ("=", "!=") else ()))
        elif t[0] == "kw" and t[1] == "IN":
            op = "IN"
            self.take("punct", "(")
            items = []
            if not self.at("punct", ")"):
                items.append(self.const(self._ORDERABLE + ("bool",)))
                while self.at("punct", ","):
                    self.take()
                    items.append(self.const(self._ORDERABLE + ("bool",)))
            self.take("punct", ")")
            rhs = {"c": "set", "items": items}
        elif t[0] == "kw" and t[1] in STRING_OPS:
            op = t[1]
            rhs = self.const(("str",))
        else:
            raise PatternSyntaxError("expected a comparison operator, found %r at %d" % (t[1], t[2]))
        return {"k": "cmp", "path": p, "op": op, "neg": neg, "rhs": rhs}

    def path(self):
        t = self.take()
        if t[0] not in ("id", "idh"):
            raise PatternSyntaxError("expected an object type, found %r at %d" % (t[1], t[2]))
        self.take("punct", ":")
        steps = [self.key_step()]
        while True:
            if self.at("punct", "."):
                self.take()
                steps.append(self.key_step())
            elif self.at("punct", "["):
                self.take()
                t2 = self.take()
                if t2[0] in ("intpos", "intneg"):
                    idx = int(t2[1])
                elif t2[:2] == ("punct", "*"):
                    idx = "*"
                else:
                    raise PatternSyntaxError("bad index %r at %d" % (t2[1], t2[2]))
                self.take("punct", "]")
                steps.append({"s": "idx", "i": idx})
            else:
                return {"t": t[1], "steps": steps}

    def key_step(self):
        t = self.take()
        if t[0] == "id":
            return {"s": "key", "n": t[1], "q": False}
        if t[0] == "str":
            return {"s": "key", "n": unescape_string(t[1][1:-1]), "q": True}
        raise PatternSyntaxError("expected a property name, found %r at %d" % (t[1], t[2]))

    def const(self, allowed):
        t = self.take()
        if t[0] not in allowed:
            raise PatternSyntaxError("constant of kind %s not allowed here (%r at %d)" % (t[0], t[1], t[2]))
        typ, v = t[0], t[1]
        if typ in ("intpos", "intneg"):
            return {"c": "int", "v": int(v), "sp": v}
        if typ in ("floatpos", "floatneg"):
            return {"c": "float", "sp": v}
        if typ == "str":
            return {"c": "str", "v": unescape_string(v[1:-1])}
        if typ == "bool":
            return {"c": "bool", "v": v == "true"}
        if typ == "ts":
            return {"c": "ts", "v": v[2:-1]}
        if typ == "hex":
            return {"c": "hex", "v": v[2:-1]}
        if typ == "bin":
            return {"c": "bin", "v": v[2:-1]}
        raise PatternSyntaxError("not a constant: %r" % (v,))


def parse(text, version="2.1"):
    """text -> AST (parentheses erased, operator chains n-ary).  Raises PatternSyntaxError."""
    return _Parser(text, version).pattern()


# ----------------------------------------------------------------------
# canonical form (spelling erased) and traversal helpers

def ts_instant(v):
    m = TS_RE.match(v)
    if not m:
        raise ValueError("not a timestamp literal: %r" % (v,))
    frac = (m.group(7) or "").rstrip("0")
    return "-".join(m.group(1, 2, 3)) + "T" + ":".join(m.group(4, 5, 6)) + ("." + frac if frac else "") + "Z"


def canon_const(c):
    k = c["c"]
    if k == "int":
        return {"c": "int", "v": c["v"]}
    if k == "float":
        return {"c": "float", "v": float(c["sp"]).hex()}
    if k == "ts":
        return {"c": "ts", "v": ts_instant(c["v"])}
    if k == "hex":
        return {"c": "hex", "v": c["v"].lower()}
    if k == "set":
        return {"c": "set", "items": [canon_const(x) for x in c["items"]]}
    return {"c": k, "v": c["v"]}


def canon_path(p):
    return {"t": p["t"], "steps": [{"s": "key", "n": s["n"]} if s["s"] == "key" else {"s": "idx", "i": s["i"]} for s in p["steps"]]}


def canon(n):
    """Erase constant/operator spelling: `!=` becomes NOT =, `+5` is 5, `.50` is 0.5, timestamps by instant."""
    k = n["k"]
    if k == "cmp":
        op, neg = n["op"], bool(n["neg"])
        if op == "!=":
            op, neg = "=", not neg
        return {"k": "cmp", "path": canon_path(n["path"]), "op": op, "neg": neg, "rhs": canon_const(n["rhs"])}
    if k == "exists":
        return {"k": "exists", "path": canon_path(n["path"]), "neg": bool(n["neg"])}
    if k == "obs":
        return {"k": "obs", "e": canon(n["e"])}
    if k == "qual":
        q = n["q"]
        if q["q"] == "startstop":
            cq = {"q": "startstop", "a": canon_const(q["a"]), "b": canon_const(q["b"])}
        else:
            cq = {"q": q["q"], "n": canon_const(q["n"])}
        return {"k": "qual", "e": canon(n["e"]), "q": cq}
    return {"k": k, "args": [canon(a) for a in n["args"]]}


def walk(n):
    """Yield every node (observation and comparison level), parents first."""
    yield n
    k = n["k"]
    if k in ("obs", "qual"):
        for x in walk(n["e"]):
            yield x
    elif "args" in n:
        for a in n["args"]:
            for x in walk(a):
                yield x


def map_nodes(n, fn):
    """Bottom-up rebuild: fn(node_with_mapped_children) -> node."""
    k = n["k"]
    if k in ("obs", "qual"):
        m = dict(n)
        m["e"] = map_nodes(n["e"], fn)
    elif "args" in n:
        m = dict(n)
        m["args"] = [map_nodes(a, fn) for a in n["args"]]
    else:
        m = dict(n)
    return fn(m)


def consts_of(n):
    for x in walk(n):
        if x["k"] == "cmp":
            if x["rhs"]["c"] == "set":
                yield x["rhs"]
                for it in x["rhs"]["items"]:
                    yield it
            else:
                yield x["rhs"]
        elif x["k"] == "qual":
            q = x["q"]
            for key in ("n", "a", "b"):
                if key in q:
                    yield q[key]


def depth(n):
    k = n["k"]
    if k in ("cmp", "exists"):
        return 1
    if k in ("obs", "qual"):
        return 1 + depth(n["e"])
    return 1 + max(depth(a) for a in n["args"])


def types_of(n):
    """Set of object types a comparison-level expression can be satisfied by (None = unsatisfiable AND)."""
    k = n["k"]
    if k in ("cmp", "exists"):
        return {n["path"]["t"]}
    sets = [types_of(a) for a in n["args"]]
    if k == "or":
        out = set()
        for s in sets:
            out |= s
        return out
    out = set(sets[0])
    for s in sets[1:]:
        out &= s
    return out


# ----------------------------------------------------------------------
# Hypothesis strategies: unrestricted vocabulary (C10)

from hypothesis import strategies as st  # noqa: E402

_ID_FIRST = "abcdefghijklmnopqrstuvwxyzABCDEFGHIJKLMNOPQRSTUVWXYZ_"
_ID_REST = _ID_FIRST + "0123456789"


def _fix_kw(s):
    return s + "_" if s in KEYWORDS else s


ident = st.one_of(
    st.sampled_from(["b", "c", "name", "value", "size", "x", "y", "dst_ref", "src_ref", "parent_ref", "opened_connection_refs", "_p", "A",
                     "Z9", "x_y_z", "t", "h", "b", "like", "and", "In", "Start", "exists", "TRUE", "not", "a1", "extensions", "key", "values"]),
    st.builds(lambda a, r: _fix_kw(a + r), st.sampled_from(_ID_FIRST), st.text(_ID_REST, max_size=6)),
    st.builds(lambda a, suf: a + suf, st.sampled_from(["a", "dst", "x_1", "Q"]), st.sampled_from(["_ref", "_refs"])),
)
object_type = st.one_of(
    st.sampled_from(["a", "file", "ipv4-addr", "network-traffic", "windows-registry-key", "x-custom-obj", "b", "_x", "A1", "x-1", "a--b",
                     "q_", "t", "h", "x-", "user-account", "X-Y-Z", "and", "exists"]),
    st.builds(lambda a, r: _fix_kw(a + r), st.sampled_from(_ID_FIRST), st.text(_ID_REST + "-", max_size=7)),
)
# names that can only be written quoted
quoted_name = st.one_of(
    st.sampled_from(["SHA-256", "k-2", "windows-pebinary-ext", "c d", "c.d", "", "AND", "true", "LIKE", "0abc", "9", "a'b", "a\\b", "é", "x[0]",
                     "a:b", " ", "c-'d", "-", "a-b.c", "EXISTS", "\U0001f600", "a\nb", "NOT", "x*",
                     "na\u00efve", "gr\u00f6\u00dfe", "x\u00b2", "a\u0661", "s_\u00df", "b\n", "name\n", "_\u00e9"]),
    st.text(st.characters(exclude_categories=("Cs",)), max_size=5),
    st.text("ab-._ '\\0", min_size=1, max_size=5),
)


@st.composite
def key_step(draw):
    r = draw(st.integers(0, 9))
    if r <= 5:
        return {"s": "key", "n": draw(ident), "q": False}
    if r == 6:
        return {"s": "key", "n": draw(ident), "q": True}     # quoted although it need not be
    n = draw(quoted_name)
    return {"s": "key", "n": n, "q": True}


@st.composite
def index_step(draw):
    r = draw(st.integers(0, 9))
    if r <= 3:
        return {"s": "idx", "i": "*"}
    i = draw(st.one_of(st.integers(0, 3), st.sampled_from([0, 1, 2, 10, 255, 2 ** 31, 10 ** 20])))
    st_ = {"s": "idx", "i": i}
    if r == 9:
        st_["sp"] = "+%d" % i
    return st_


@st.composite
def object_path(draw, otype=None):
    t = otype if otype is not None else draw(object_type)
    steps = [draw(key_step())]
    nmore = draw(st.sampled_from([0, 0, 0, 0, 1, 1, 1, 2, 2, 3]))
    for _ in range(nmore):
        r = draw(st.integers(0, 19))
        if r <= 5:
            steps.append(draw(index_step()))
            if r == 0:
                steps.append(draw(index_step()))         # list of lists: rare, legal in the grammar
        else:
            steps.append(draw(key_step()))
    return {"t": t, "steps": steps}


HASH_PATHS = [
    ({"t": "file", "steps": [{"s": "key", "n": "hashes", "q": False}, {"s": "key", "n": "MD5", "q": False}]}, "79054025255fb1a26e4bc422aef54eb4"),
    ({"t": "file", "steps": [{"s": "key", "n": "hashes", "q": False}, {"s": "key", "n": "SHA-256", "q": True}]},
     "aec070645fe53ee3b3763059376134f058cc337247c978add178b6ccdfb0019f"),
]

int_const = st.one_of(
    st.integers(-5, 20).map(lambda v: {"c": "int", "v": v}),
    st.sampled_from([0, 1, -1, 255, 65536, 2 ** 31, 2 ** 53 + 1, 2 ** 63, -2 ** 63 - 1, 10 ** 22, 371712]).map(lambda v: {"c": "int", "v": v}),
    st.integers(0, 10 ** 6).map(lambda v: {"c": "int", "v": v, "sp": "+%d" % v}),
    st.just({"c": "int", "v": 0, "sp": "-0"}),
)


@st.composite
def float_const(draw):
    r = draw(st.integers(0, 9))
    if r <= 2:
        sp = draw(st.sampled_from(["0.5", ".5", "+.5", "-.5", "00.50", "1.0", "-0.0", "0.0", "3.14159", "7.0", "0.1", "100.25", "0.30000000000000004",
                                   "+1.5", "0.0001", "0.001", "9999999999999998.0", "123456.789", "1.10", "000.000"]))
    elif r <= 4:   # magnitudes that Python's repr() writes with an exponent
        sp = draw(st.sampled_from(["0.00001", "0.000015", ".00009999", "-0.00001", "0.0000000001", "10000000000000000.0", "123456789012345678.0",
                                   "1000000000000000000000.0", "-20000000000000000.5", "0.000000000000000000000000001"]))
    else:
        sign = draw(st.sampled_from(["", "", "", "-", "+"]))
        ip = draw(st.one_of(st.just(""), st.integers(0, 10 ** 9).map(str), st.integers(0, 99).map(lambda v: "0%d" % v)))
        fp = draw(st.one_of(st.integers(0, 10 ** 6).map(str), st.integers(0, 999).map(lambda v: "%06d" % v), st.integers(1, 99).map(lambda v: "%d00" % v)))
        sp = sign + ip + "." + fp
    return {"c": "float", "sp": sp}


str_const = st.one_of(
    st.sampled_from(["", "a", "foo.dll", "C:\\Windows\\System32", "it's", "\\", "'", "\\'", "a\\\\b", "%x_", "^a.*b$", "1.2.3.4/24", "é", "日本語",
                     "\U0001f600", "a\nb", "\t", "2020-01-01T00:00:00Z", "true", "1", "a b", "HKEY_LOCAL_MACHINE\\foo\\bar", "''", "\\\\'\\"]).map(
        lambda v: {"c": "str", "v": v}),
    st.text(st.characters(exclude_categories=("Cs",)), max_size=8).map(lambda v: {"c": "str", "v": v}),
    st.text("ab'\\ %_", max_size=8).map(lambda v: {"c": "str", "v": v}),
)
bool_const = st.booleans().map(lambda v: {"c": "bool", "v": v})


def _dim(y, m):
    if m == 2:
        return 29 if (y % 4 == 0 and (y % 100 != 0 or y % 400 == 0)) else 28
    return 30 if m in (4, 6, 9, 11) else 31


@st.composite
def ts_text(draw, max_frac=9):
    y = draw(st.one_of(st.integers(1970, 2030), st.integers(1, 9999), st.sampled_from([1, 999, 1000, 1582, 1900, 2000, 9999])))
    mo = draw(st.integers(1, 12))
    d = draw(st.one_of(st.integers(1, 28), st.just(_dim(y, mo)), st.just(1)))
    h, mi, s = draw(st.sampled_from([0, 23]) | st.integers(0, 23)), draw(st.sampled_from([0, 59]) | st.integers(0, 59)), draw(st.sampled_from([0, 59]) | st.integers(0, 59))
    nfrac = draw(st.sampled_from([0, 0, 1, 2, 3, 3, 6, 6] + ([7, 9] if max_frac >= 9 else [])))
    if nfrac > max_frac:
        nfrac = max_frac
    frac = ""
    if nfrac:
        frac = "." + draw(st.one_of(st.text("0123456789", min_size=nfrac, max_size=nfrac), st.just("0" * nfrac), st.just(("1" + "0" * nfrac)[:nfrac]),
                                    st.just("9" * nfrac)))
    return "%04d-%02d-%02dT%02d:%02d:%02d%sZ" % (y, mo, d, h, mi, s, frac)


ts_const = ts_text().map(lambda v: {"c": "ts", "v": v})
hex_const = st.one_of(
    st.sampled_from(["ab", "AB", "00", "ffFF", "4fa2", "", "0123456789abcdef"]).map(lambda v: {"c": "hex", "v": v}),
    st.binary(min_size=1, max_size=6).flatmap(lambda b: st.sampled_from([b.hex(), b.hex().upper()])).map(lambda v: {"c": "hex", "v": v}),
)


def _b64(b):
    import base64
    return base64.b64encode(b).decode("ascii")


bin_const = st.one_of(st.sampled_from(["YQ==", "YWI=", "YWJj", "ZmpoZWll", "/+8=", "AAAA"]), st.binary(min_size=1, max_size=7).map(_b64)).map(
    lambda v: {"c": "bin", "v": v})

orderable_const = st.one_of(int_const, float_const(), str_const, ts_const, hex_const, bin_const)
primitive_const = st.one_of(int_const, float_const(), str_const, ts_const, hex_const, bin_const, bool_const)
set_const = st.lists(primitive_const, min_size=0, max_size=4).map(lambda items: {"c": "set", "items": items})


# ---- static pools: one Hypothesis draw per leaf part instead of a dozen (generation cost dominates otherwise).
# Built deterministically at import time from a fixed-seed PRNG; the fine-grained strategies above stay in use for
# a share of the leaves so that values outside the pools keep appearing.

def _build_pools():
    import random
    rnd = random.Random(20260926)
    idents = ["b", "c", "name", "value", "size", "x", "dst_ref", "src_ref", "parent_ref", "opened_connection_refs", "_p", "A", "Z9", "x_y_z", "t", "h",
              "like", "and", "In", "exists", "TRUE", "not", "a1", "extensions", "key", "values", "a_ref", "Q_refs", "sections", "entropy", "data"]
    quoted = ["SHA-256", "k-2", "windows-pebinary-ext", "c d", "c.d", "", "AND", "true", "LIKE", "0abc", "9", "a'b", "a\\b", "\u00e9", "x[0]", "a:b", " ",
              "c-'d", "-", "a-b.c", "EXISTS", "\U0001f600", "a\nb", "NOT", "x*", "b", "name", "'", "\\", "k_2", "a-b-c",
              "na\u00efve", "gr\u00f6\u00dfe", "x\u00b2", "a\u0661", "s_\u00df", "b\n", "name\n", "_\u00e9"]
    types = ["a", "file", "ipv4-addr", "network-traffic", "windows-registry-key", "x-custom-obj", "b", "_x", "A1", "x-1", "a--b", "q_", "t", "h", "x-",
             "user-account", "X-Y-Z", "and", "exists", "process", "url", "email-message", "c", "x509-certificate"]
    idxs = ["*", "*", "*", 0, 1, 2, 10, 255, 2 ** 31, 10 ** 20, 0, 1]

    def key():
        r = rnd.randrange(10)
        if r <= 5:
            return {"s": "key", "n": rnd.choice(idents), "q": False}
        if r == 6:
            return {"s": "key", "n": rnd.choice(idents), "q": True}
        return {"s": "key", "n": rnd.choice(quoted), "q": True}

    def idx():
        i = rnd.choice(idxs)
        stp = {"s": "idx", "i": i}
        if i != "*" and rnd.randrange(8) == 0:
            stp["sp"] = "+%d" % i
        return stp

    shapes = []
    for _ in range(420):
        steps = [key()]
        for _ in range(rnd.choice([0, 0, 0, 0, 1, 1, 1, 2, 2, 3])):
            r = rnd.randrange(20)
            if r <= 5:
                steps.append(idx())
                if r == 0:
                    steps.append(idx())
            else:
                steps.append(key())
        shapes.append(steps)
    return types, shapes


TYPE_POOL, STEPS_POOL = _build_pools()
INT_POOL = ([{"c": "int", "v": v} for v in list(range(-3, 12)) + [255, 65536, 2 ** 31, 2 ** 53 + 1, 2 ** 63, -2 ** 63 - 1, 10 ** 22, 371712, -17]]
            + [{"c": "int", "v": v, "sp": "+%d" % v} for v in (0, 1, 5, 42, 10 ** 6)] + [{"c": "int", "v": 0, "sp": "-0"}])
FLOAT_POOL = [{"c": "float", "sp": sp} for sp in [
    "0.5", ".5", "+.5", "-.5", "00.50", "1.0", "-0.0", "0.0", "3.14159", "7.0", "0.1", "100.25", "0.30000000000000004", "+1.5", "0.0001", "0.001",
    "9999999999999998.0", "123456.789", "1.10", "000.000", "2.5", "-3.25", "1234567.125", "0.75", "10.0", "-1.0", "0.125", "99.99", "6.02", "1.000001",
    # magnitudes that Python's repr() writes with an exponent
    "0.00001", "0.000015", ".00009999", "-0.00001", "0.0000000001", "10000000000000000.0", "123456789012345678.0", "1000000000000000000000.0",
    "-20000000000000000.5", "0.000000000000000000000000001"]]
STR_POOL = [{"c": "str", "v": v} for v in [
    "", "a", "foo.dll", "C:\\Windows\\System32", "it's", "\\", "'", "\\'", "a\\\\b", "%x_", "^a.*b$", "1.2.3.4/24", "\u00e9", "\u65e5\u672c\u8a9e", "\U0001f600", "a\nb",
    "\t", "2020-01-01T00:00:00Z", "true", "1", "a b", "HKEY_LOCAL_MACHINE\\foo\\bar", "''", "\\\\'\\", "pdf.exe", "abc", "ABC", "x%", "198.51.100.1/32",
    "site.of.interest.zaz", "$$t00rzch$$.elf", "\u2028", "\x00", "a\\'b", "'\\", "end\\", "'start", "\"", "a, b", "(x)", "[y]", "t'z'", "h'00'", "--", "/* c */"]]
BOOL_POOL = [{"c": "bool", "v": True}, {"c": "bool", "v": False}]
TS_POOL = [{"c": "ts", "v": v} for v in [
    "2020-01-01T00:00:00Z", "2016-06-01T00:00:00Z", "2014-01-13T07:03:17Z", "1982-12-31T02:14:17.232Z", "2020-02-29T23:59:59Z", "0001-01-01T00:00:00Z",
    "9999-12-31T23:59:59.999999Z", "0999-06-15T12:00:00Z", "1000-01-01T00:00:00.0Z", "2020-01-01T00:00:00.1Z", "2020-01-01T00:00:00.10Z",
    "2020-01-01T00:00:00.100Z", "2020-01-01T00:00:00.000Z", "2020-01-01T00:00:00.123Z", "2020-01-01T00:00:00.1234Z", "2020-01-01T00:00:00.12345Z",
    "2020-01-01T00:00:00.123456Z", "2020-01-01T00:00:00.000001Z", "2020-01-01T00:00:00.999999Z", "2021-12-31T23:59:59.5Z", "1970-01-01T00:00:00Z",
    "2038-01-19T03:14:08Z", "1900-03-01T10:20:30.040Z", "1582-10-15T00:00:00Z", "2000-02-29T12:34:56.78Z",
    # more than six fraction digits
    "2020-01-01T00:00:00.1234567Z", "2020-01-01T00:00:00.123456789Z", "2020-01-01T00:00:00.0000000Z", "1999-12-31T23:59:59.9999999Z"]]
HEX_POOL = [{"c": "hex", "v": v} for v in ["ab", "AB", "00", "ffFF", "4fa2", "0123456789abcdef", "Ab", "7f", "DEADBEEF", "0a0B", ""]]
BIN_POOL = [{"c": "bin", "v": v} for v in ["YQ==", "YWI=", "YWJj", "ZmpoZWll", "/+8=", "AAAA", "q80=", "3q2+7w==", "AA==", "++//"]]

_pool_path = st.builds(lambda t, steps: {"t": t, "steps": steps}, st.sampled_from(TYPE_POOL), st.sampled_from(STEPS_POOL))


def path_of(otype):
    if otype is None:
        return st.one_of(_pool_path, _pool_path, _pool_path, object_path())
    pooled = st.sampled_from(STEPS_POOL).map(lambda steps: {"t": otype, "steps": steps})
    return st.one_of(pooled, pooled, pooled, object_path(otype))


pool_int = st.sampled_from(INT_POOL)
pool_float = st.sampled_from(FLOAT_POOL)
pool_str = st.sampled_from(STR_POOL)
pool_ts = st.sampled_from(TS_POOL)
pool_hex = st.sampled_from(HEX_POOL)
pool_bin = st.sampled_from(BIN_POOL)
pool_bool = st.sampled_from(BOOL_POOL)
q_orderable = st.one_of(pool_int, pool_float, pool_str, pool_ts, pool_hex, pool_bin, pool_int, pool_float, pool_str, pool_ts, orderable_const)
q_primitive = st.one_of(pool_int, pool_float, pool_str, pool_ts, pool_hex, pool_bin, pool_bool, pool_str, pool_float, primitive_const)
q_string = st.one_of(pool_str, pool_str, pool_str, str_const)
q_set = st.lists(q_primitive, min_size=0, max_size=4).map(lambda items: {"c": "set", "items": items})
_OP_DRAW = OPS + ["=", "="]

# Pre-built strategy objects and plain recursive builder functions taking `draw`: creating strategy objects inside
# composites on every call costs more than the draws themselves.
_I2, _I8, _I10, _I12, _I20, _I25, _I40 = (st.integers(0, k - 1) for k in (2, 8, 10, 12, 20, 25, 40))
_S_TYPE = st.one_of(st.sampled_from(TYPE_POOL), st.sampled_from(TYPE_POOL), object_type)
_S_STEPS = st.sampled_from(STEPS_POOL)
_S_FRESH_PATH = object_path()
_S_ARITY = st.sampled_from([2, 2, 2, 2, 3])
_S_CDEPTH = st.sampled_from([0, 0, 0, 1, 1, 2])
_S_ODEPTH = st.sampled_from([0, 0, 1, 1, 1, 2, 2])
_S_NQ = st.sampled_from([0, 0, 0, 0, 0, 0, 1, 1, 2, 3])
_S_REPN = st.sampled_from([1, 2, 3, 4, 5, 1, 2, 10, 1000, 2 ** 40])
_S_WITHIN = st.sampled_from([1, 2, 3, 4, 5, 6, 7, 8, 9, 10, 60, 300, 86400, 2 ** 40])
_S_WFLOAT = st.sampled_from(["1.5", ".5", "0.25", "10.0", "+2.5"])
_S_TS_TEXT = ts_text()
_S_VER = st.sampled_from(["2.1", "2.1", "2.1", "2.1", "2.0"])
_S_OOP = st.sampled_from(["oand", "oor", "ofb"])


def _g_path(draw, otype):
    if draw(_I8) == 0:
        p = draw(_S_FRESH_PATH)
        return {"t": otype if otype is not None else p["t"], "steps": p["steps"]}
    return {"t": otype if otype is not None else draw(_S_TYPE), "steps": draw(_S_STEPS)}


def _g_comparison(draw, otype, version):
    r = draw(_I40)
    if r == 0 and version == "2.1":
        return {"k": "exists", "path": _g_path(draw, otype), "neg": bool(draw(_I2))}
    if r == 1 and otype in (None, "file"):
        p, val = HASH_PATHS[draw(_I2)]
        return {"k": "cmp", "path": p, "op": "=", "neg": bool(draw(_I2)), "rhs": {"c": "str", "v": val}}
    op = _OP_DRAW[r % len(_OP_DRAW)]
    neg = draw(_I10) < 3
    if op in ("=", "!="):
        rhs = draw(q_primitive)
    elif op in ORDER_OPS:
        rhs = draw(q_orderable)
    elif op == "IN":
        rhs = draw(q_set)
    else:
        rhs = draw(q_string)
    return {"k": "cmp", "path": _g_path(draw, otype), "op": op, "neg": neg, "rhs": rhs}


def _g_cexpr(draw, depth, otype, version):
    """Boolean tree inside one [...].  Operands normally share one object type (a comparison AND over disjoint
    types can never match and the library refuses it: generated rarely, counted under its own key)."""
    if depth <= 0 or draw(_I10) < 4:
        return _g_comparison(draw, otype if draw(_I25) else None, version)
    k = "and" if draw(_I2) else "or"
    return {"k": k, "args": [_g_cexpr(draw, depth - 1, otype, version) for _ in range(draw(_S_ARITY))]}


def _g_qual(draw):
    r = draw(_I12)
    if r <= 3:
        n = draw(_S_REPN)
        c = {"c": "int", "v": n}
        if r == 0:
            c["sp"] = "+%d" % n
        return {"q": "repeats", "n": c}
    if r <= 7:
        if r == 4 and draw(_I2):
            return {"q": "within", "n": {"c": "float", "sp": draw(_S_WFLOAT)}}
        n = draw(_S_WITHIN)
        c = {"c": "int", "v": n}
        if r == 5:
            c["sp"] = "+%d" % n
        return {"q": "within", "n": c}
    if r <= 10:
        return {"q": "startstop", "a": draw(pool_ts), "b": draw(pool_ts)}
    return {"q": "startstop", "a": {"c": "ts", "v": draw(_S_TS_TEXT)}, "b": {"c": "ts", "v": draw(_S_TS_TEXT)}}


def _g_oexpr(draw, depth, version):
    r = draw(_I10)
    if depth <= 0 or r < 3:
        n = {"k": "obs", "e": _g_cexpr(draw, draw(_S_CDEPTH), draw(_S_TYPE), version)}
    elif r < 8:
        k = draw(_S_OOP)
        n = {"k": k, "args": [_g_oexpr(draw, depth - 1, version) for _ in range(draw(_S_ARITY))]}
    else:
        n = _g_oexpr(draw, depth - 1, version)
    for _ in range(draw(_S_NQ)):
        n = {"k": "qual", "e": n, "q": _g_qual(draw)}
    return n


@st.composite
def comparison_expr(draw, depth=2, otype=None, version="2.1"):
    return _g_cexpr(draw, depth, otype if otype is not None else draw(_S_TYPE), version)


@st.composite
def observation_expr(draw, depth=2, version="2.1"):
    return _g_oexpr(draw, depth, version)


style = st.one_of(st.just([]), st.lists(st.integers(0, 9), min_size=1, max_size=24))


@st.composite
def text_case(draw, version=None):
    """{"ast":..., "sty":[...], "ver":"2.1"|"2.0"} -- printed with to_text(ast, sty)."""
    ver = version or draw(_S_VER)
    ast = _g_oexpr(draw, draw(_S_ODEPTH), ver)
    case = {"ast": ast, "sty": draw(style), "ver": ver}
    pre = draw(st.sampled_from([None, None, None, None, "equivalence", "equivalence", "edit-earlier-model"]))
    if pre:
        case["pre"] = pre
    return case


# ----------------------------------------------------------------------
# named input features (used for class tables and for root-cause keys) and their removal

def float_prints_with_exponent(sp):
    """Python's shortest repr switches to exponent form below 1e-4 and from 1e16 on."""
    v = abs(float(sp))
    return v != 0 and (v < 1e-4 or v >= 1e16)


def ts_frac_digits(v):
    m = TS_RE.match(v)
    return len(m.group(7) or "") if m else 0


def step_needs_quotes(name):
    return not plain_ident(name)


def _path_features(p, out):
    steps = p["steps"]
    for i, s in enumerate(steps):
        if s["s"] == "key":
            if s.get("q") or step_needs_quotes(s["n"]):
                out.add("step:quoted")
                if i > 0 and step_needs_quotes(s["n"]) and "-" not in s["n"]:
                    out.add("quoted-step-needs-quotes")
                if i > 0 and i + 1 < len(steps) and steps[i + 1]["s"] == "idx" and steps[i + 1]["i"] == "*":
                    out.add("quoted-step-star")
            if s["n"].endswith("_ref") or s["n"].endswith("_refs"):
                out.add("step:ref")
        else:
            out.add("step:star" if s["i"] == "*" else "step:index")
            if i > 0 and steps[i - 1]["s"] == "idx":
                out.add("double-index")
    if len(steps) > 1:
        out.add("step:nested")


def features(ast):
    """Set of feature names of an observation-level AST."""
    out = set()
    for n in walk(ast):
        k = n["k"]
        if k == "cmp":
            op = n["op"]
            out.add("op:" + op)
            _path_features(n["path"], out)
            if n["neg"]:
                out.add("NOT")
                out.add("not:" + op)
                if op in ORDER_OPS:
                    out.add("not-order")
                elif op == "!=":
                    out.add("not-neq")
                elif op != "=":
                    out.add("not-setlike:" + op)
            if n["rhs"]["c"] == "set":
                out.add("set:%d" % min(len(n["rhs"]["items"]), 3))
        elif k == "exists":
            out.add("exists")
            _path_features(n["path"], out)
        elif k == "and":
            out.add("bool:and")
            if len(_all_types(n)) > 1:
                out.add("and-mixed-types")
        elif k == "or":
            out.add("bool:or")
        elif k in OBS_OPS:
            out.add("obs:" + OBS_OPS[k])
        elif k == "qual":
            out.add("qual:" + n["q"]["q"])
            if n["e"]["k"] == "qual":
                out.add("qual:stacked")
            if n["q"]["q"] == "within" and n["q"]["n"]["c"] == "float":
                out.add("within-float")
    for c in consts_of(ast):
        ck = c["c"]
        out.add("const:" + ck)
        if ck == "float" and float_prints_with_exponent(c["sp"]):
            out.add("float-exp")
        elif ck == "ts" and ts_frac_digits(c["v"]) > 6:
            out.add("ts-frac>6")
        elif ck == "hex" and c["v"] == "":
            out.add("hex-empty")
        elif ck == "str" and ("'" in c["v"] or "\\" in c["v"]):
            out.add("str:needs-escape")
        elif ck in ("int", "float") and c.get("sp") and c["sp"][0] == "+":
            out.add("num:plus-sign")
    return out


def _all_types(n):
    return {x["path"]["t"] for x in walk(n) if x["k"] in ("cmp", "exists")}


def _map_consts(ast, fn):
    def node(n):
        if n["k"] == "cmp":
            r = n["rhs"]
            n["rhs"] = {"c": "set", "items": [fn(x) for x in r["items"]]} if r["c"] == "set" else fn(r)
        elif n["k"] == "qual":
            n["q"] = {key: (fn(val) if key in ("n", "a", "b") else val) for key, val in n["q"].items()}
        return n
    return map_nodes(ast, node)


def _map_paths(ast, fn):
    def node(n):
        if n["k"] in ("cmp", "exists"):
            n["path"] = fn(n["path"])
        return n
    return map_nodes(ast, node)


def strip_feature(ast, feat):
    """Same pattern with every occurrence of the named feature replaced by the nearest harmless form."""
    if feat in ("not-order", "not-neq") or feat.startswith("not-setlike:"):
        def node(n):
            if n["k"] == "cmp" and n["neg"]:
                op = n["op"]
                if (feat == "not-order" and op in ORDER_OPS) or (feat == "not-neq" and op == "!=") or feat == "not-setlike:" + op:
                    n["neg"] = False
            return n
        return map_nodes(ast, node)
    if feat == "exists":
        return map_nodes(ast, lambda n: {"k": "cmp", "path": n["path"], "op": "=", "neg": n["neg"], "rhs": {"c": "int", "v": 1}} if n["k"] == "exists" else n)
    if feat == "float-exp":
        return _map_consts(ast, lambda c: {"c": "float", "sp": "0.5"} if c["c"] == "float" and float_prints_with_exponent(c["sp"]) else c)
    if feat == "ts-frac>6":
        def fix(c):
            if c["c"] == "ts" and ts_frac_digits(c["v"]) > 6:
                head, frac = c["v"][:-1].split(".")
                return {"c": "ts", "v": head + "." + frac[:6] + "Z"}
            return c
        return _map_consts(ast, fix)
    if feat == "hex-empty":
        return _map_consts(ast, lambda c: {"c": "hex", "v": "00"} if c["c"] == "hex" and c["v"] == "" else c)
    if feat == "within-float":
        def node(n):
            if n["k"] == "qual" and n["q"]["q"] == "within" and n["q"]["n"]["c"] == "float":
                n["q"] = {"q": "within", "n": {"c": "int", "v": 1}}
            return n
        return map_nodes(ast, node)
    if feat == "and-mixed-types":
        def node(n):
            if n["k"] == "obs":
                ts = sorted(_all_types(n["e"]))
                if len(ts) > 1:
                    n["e"] = _map_paths(n["e"], lambda p: {"t": ts[0], "steps": p["steps"]})
            return n
        return map_nodes(ast, node)
    if feat in ("quoted-step-needs-quotes", "quoted-step-star", "double-index"):
        def fix(p):
            steps = []
            for i, s in enumerate(p["steps"]):
                s = dict(s)
                prev = steps[-1] if steps else None
                if feat == "double-index" and s["s"] == "idx" and prev is not None and prev["s"] == "idx":
                    continue
                if feat == "quoted-step-needs-quotes" and s["s"] == "key" and i > 0 and step_needs_quotes(s["n"]) and "-" not in s["n"]:
                    s = {"s": "key", "n": "k-2", "q": True}
                if feat == "quoted-step-star" and s["s"] == "idx" and s["i"] == "*" and prev is not None and prev["s"] == "key" and len(steps) > 1 \
                        and (prev.get("q") or step_needs_quotes(prev["n"])):
                    steps[-1] = {"s": "key", "n": "qs", "q": False}
                steps.append(s)
            return {"t": p["t"], "steps": steps}
        return _map_paths(ast, fix)
    raise ValueError("unknown feature %r" % feat)


def nontrivial_c10(ast, feats=None):
    """DESIGN C10 NT: >= 1 NOT or quoted/indexed step or constant needing escaping, and nesting depth >= 2."""
    f = feats if feats is not None else features(ast)
    return bool(f & {"NOT", "step:quoted", "step:index", "step:star", "str:needs-escape"}) and depth(ast) >= 3


# ----------------------------------------------------------------------
# self-test: printer <-> parser agree on fixed examples, spelling erasure, refusals

_SELFTEST_TEXTS = [
    "[a:b = 1]",
    "[a:b NOT != +5 AND (a:c IN (1, 'x', true) OR a-b:'q q'[*].r_ref.s[2] LIKE 'a\\'b\\\\')]",
    "([x:y = .5] OR [x:y > t'2020-01-01T00:00:00.10Z']) REPEATS 2 TIMES WITHIN 1.5 SECONDS",
    "[a:b = 1] FOLLOWEDBY [a:b = 2] OR [a:b = 3] AND [a:b = 4] START t'2020-01-01T00:00:00Z' STOP t'2021-01-01T00:00:00Z'",
    "[a:b = 1] AND ([a:b = 2] AND [a:b = 3])",
    "[NOT EXISTS a:b.'c-d'[0] OR a:b != h'AB' AND a:b = b'YQ==']",
    "([a:b MATCHES '^x'] REPEATS 2 TIMES) REPEATS 3 TIMES",
]


def selftest():
    """Raises AssertionError when the printer, the parser or the canonical form disagree."""
    for t in _SELFTEST_TEXTS:
        a = parse(t)
        for sty in ([], [1], [3, 1, 4, 1, 5, 9, 2, 6], [6, 6, 6], [9, 8, 7, 6, 5, 4, 3, 2, 1, 0]):
            t2 = to_text(a, sty)
            assert canon(parse(t2)) == canon(a), (t, sty, t2)
        assert to_text(a) == t, (to_text(a), t)
    # structure is what the grammar says: FOLLOWEDBY < OR < AND, qualifiers bind to the nearest operand
    a = parse(_SELFTEST_TEXTS[3])
    assert a["k"] == "ofb" and a["args"][1]["k"] == "oor" and a["args"][1]["args"][1]["k"] == "oand", a
    assert a["args"][1]["args"][1]["args"][1]["k"] == "qual"
    a = parse("[a:b = 1 OR a:c = 2 AND a:d = 3]")["e"]
    assert a["k"] == "or" and a["args"][1]["k"] == "and"
    assert parse("[a:b = 1] AND ([a:b = 2] AND [a:b = 3])")["args"][1]["k"] == "oand"
    assert len(parse("([a:b = 1] AND [a:b = 2]) AND [a:b = 3]")["args"]) == 2
    assert len(parse("[a:b = 1] AND [a:b = 2] AND [a:b = 3]")["args"]) == 3
    # spelling erasure
    c = lambda t: canon(parse(t))  # noqa: E731
    assert c("[a:b != 1]") == c("[a:b NOT = 1]") == c("[a:b<>+1]") and c("[a:b NOT != 1]") == c("[a:b == 1]") != c("[a:b != 1]")
    assert c("[a:b = .50]") == c("[a:b = 0.5]") != c("[a:b = 5]") and c("[a:b = 1]") != c("[a:b = 1.0]")
    assert c("[a:b = t'2020-01-01T00:00:00.100Z']") == c("[a:b = t'2020-01-01T00:00:00.1Z']") != c("[a:b = t'2020-01-01T00:00:00Z']")
    assert c("[a:b = h'AB']") == c("[a:b = h'ab']") and c("[a:'b'.c = 1]") == c("[a:b.'c' = 1]") != c("[a:'b.c' = 1]")
    assert c("[a:b = 'x\\'y']")["e"]["rhs"]["v"] == "x'y" and c("[a:b = '\\\\']")["e"]["rhs"]["v"] == "\\"
    assert c("[a:b IN (1,2)]") != c("[a:b IN (2,1)]")
    # refusals (each is refused by the reference grammar as well)
    for bad in ["[a:b = 05]", "[a:b = 5.]", "[a:b = 1e5]", "[a:b > true]", "[a:b = TRUE]", "[a:b = h'a']", "[a:b = b'YQ']", "[a:b = 'a\\nb']",
                "[a:b-c = 1]", "[a:AND = 1]", "[a:b[01] = 1]", "[a:[0] = 1]", "[a:b LIKE 1]", "[a:b=1] and [a:b=2]", "[a:b=1] WITHIN -1 SECONDS",
                "[a:b=1] START '2020-01-01T00:00:00Z' STOP '2021-01-01T00:00:00Z'", "[a:bIN (1)]", "[a:b=1 ANDa:c=2]", "[a:b=<1]", "a:b = 1", "[a:b = 1",
                "[a:b = t'2020-13-01T00:00:00Z']", "[a:b = 1]]", "[a:b = 1] REPEATS 2.5 TIMES", ""]:
        try:
            parse(bad)
        except PatternSyntaxError:
            continue
        raise AssertionError("parser accepted %r" % bad)
    try:
        parse("[EXISTS a:b]", "2.0")
    except PatternSyntaxError:
        pass
    else:
        raise AssertionError("2.0 parser accepted EXISTS")
    f = features(parse("[a:b.'c d'[*] NOT > 0.00001 AND c:d NOT IN (h'', t'2020-01-01T00:00:00.1234567Z')] WITHIN 1.5 SECONDS"))
    for name in ("not-order", "not-setlike:IN", "float-exp", "ts-frac>6", "hex-empty", "within-float", "and-mixed-types", "quoted-step-needs-quotes",
                 "quoted-step-star"):
        assert name in f, (name, f)
        assert name not in features(strip_feature(parse("[a:b.'c d'[*] NOT > 0.00001 AND c:d NOT IN (h'', t'2020-01-01T00:00:00.1234567Z')] "
                                                        "WITHIN 1.5 SECONDS"), name)), name
