"""Bounded-vocabulary pattern generator, documented rewrite laws and semantic mutations (DESIGN C09, G).

Vocabulary = what oracle/patsem.py's universe can decide: object types a, b, ipv4-addr, ipv6-addr,
windows-registry-key; a handful of paths; constants from small pools that hit (and miss) the pool objects' values.
Never imports stix2.
"""
import copy
import json

from hypothesis import strategies as st

from gen import patterns as P
from oracle import patsem


def _k(*names):
    steps = []
    for n in names:
        if isinstance(n, int) or n == "*":
            steps.append({"s": "idx", "i": n})
        else:
            steps.append({"s": "key", "n": n, "q": not P.plain_ident(n)})
    return steps


def _c(kind, v):
    if kind == "float":
        return {"c": "float", "sp": v}
    return {"c": kind, "v": v}


def _cs(kind, vals):
    return [_c(kind, v) for v in vals]


BIG = 2 ** 53          # neighbours that collapse to one double: constants must be compared exactly, not after float()
INTS = _cs("int", [1, 2, 3, 5]) + [{"c": "int", "v": 1, "sp": "+1"}] + _cs("int", [BIG, BIG + 1])
FLOATS = _cs("float", ["1.0", "2.0", "1.5", "3.00", "0.5", "9007199254740992.0"])     # the last one IS 2**53: equal to the integer BIG, one less than BIG + 1
NUMS = INTS + FLOATS
BOOLS = _cs("bool", [True, False])
Y_STR = _cs("str", ["a", "A", "b", "ab", "a%", ""])
Y_LIKE = _cs("str", ["a%", "a_", "%", "A%", "a", "_"])
Y_RE = _cs("str", ["^a", "b$", "A", "^[aA]$", "a.", "^$"])
K_STR = _cs("str", ["v", "V", "w", ""])
TS = _cs("ts", ["2020-01-01T00:00:00Z", "2020-01-01T00:00:00.000Z", "2021-01-01T00:00:00Z", "2022-06-01T12:00:00.5Z", "2022-06-01T12:00:00.500Z"])
HEX = _cs("hex", ["61", "6162", "ff", "FF", "00"])
BIN = _cs("bin", ["YQ==", "YWI=", "/w==", "AA=="])
IP4 = _cs("str", ["1.2.3.4", "1.2.3.4/32", "1.2.3.5", "1.2.3.0/24", "1.2.3.4/24", "01.02.03.04", "10.0.0.1", "10.0.0.0/8", "1.2.3.4/99", "foo",
                  # not IPv4 addresses / CIDR blocks in dotted-decimal notation, although lenient C-library parsers take them: plain strings
                  "1.2.3", "1.2.0.3", "1.2.3.4 foo", "1.2.3.0/+24", "1.2.3.0/ 24", "1.2.3.0/2_4", "1.2.3.0/\u0662\u0664", "0x1.2.3.4", "1.2.3.4\n", "16909060"])
IP4_LIKE = _cs("str", ["1.2.3.%", "1.2.3.4", "1.2.3.4/32", "%/24", "1.2.3._"])
IP4_RE = _cs("str", ["^1\\.2", "1.2.3.4", "1.2.3.4/32", "/24$", "5$"])
IP6 = _cs("str", ["1::1/ 128", "1::1/+128", "1:2:3:4:5:6:7:8/1_12", "1::1", "1:0:0:0:0:0:0:1", "1::1/128", "1:2:3:4:5:6:7:8", "1:2:3:4:5:6:7:8/112", "1:2:3:4:5:6:7:0/112", "0001:0000:0000:0000:0000:0000:0000:0001", "bar"])
IP6_LIKE = _cs("str", ["1::%", "1::1", "1:0:0:0:0:0:0:1", "%/112"])
IP6_RE = _cs("str", ["^1::", "1::1", "1:0:0:0:0:0:0:1", "/112$"])
RK_KEY = _cs("str", ["HKLM\\Foo", "hklm\\foo", "HKLM\\FOO", "HKLM\\Bar", "ABd", "abc", "ABC"])
RK_KEY_LIKE = _cs("str", ["HKLM%", "hklm%", "%Foo", "%foo", "AB_", "ab_"])
RK_KEY_RE = _cs("str", ["^HKLM", "^hklm", "Foo$", "A\\D", "a\\d", "\\Sd", "\\sd"])
RK_NAME = _cs("str", ["Run", "run", "RUN", "A1", "a1", "zz", "Ax", "abc", "ABd"])
RK_NAME_LIKE = _cs("str", ["R%", "r%", "A_", "a_", "%"])
RK_NAME_RE = _cs("str", ["A\\D", "a\\d", "^R", "^r", "\\Wx", "\\wx", "^A\\w$"])
RK_DATA = _cs("str", ["x", "X", "y", "z"])
NETS = _cs("str", ["1.2.3.0/24", "1.2.3.4/24", "1.2.3.4", "10.0.0.0/8", "1:2:3:4:5:6:7:0/112", "1:2:3:4:5:6:7:8/112", "x"])
NONSTR = [INTS[3], BOOLS[0], FLOATS[2], TS[0], HEX[0]]

# path entries: (type, steps, eq-pool, like-pool, regex-pool, special?)
PATHS = [
    ("a", _k("x"), NUMS, Y_LIKE, Y_RE, False), ("a", _k("x"), NUMS, Y_LIKE, Y_RE, False),
    ("a", _k("y"), Y_STR, Y_LIKE, Y_RE, False), ("a", _k("y"), Y_STR, Y_LIKE, Y_RE, False),
    ("a", _k("z", 0), NUMS, Y_LIKE, Y_RE, False), ("a", _k("z", 1), NUMS, Y_LIKE, Y_RE, False), ("a", _k("z", "*"), NUMS, Y_LIKE, Y_RE, False),
    ("a", _k("z", -1), NUMS, Y_LIKE, Y_RE, False), ("a", _k("z", "*"), NUMS, Y_LIKE, Y_RE, False),      # the grammar admits negative indices
    ("a", _k("n", "k"), K_STR, Y_LIKE, Y_RE, False), ("a", _k("n", "k-2"), NUMS, Y_LIKE, Y_RE, False),
    ("a", _k("t"), TS, Y_LIKE, Y_RE, False), ("a", _k("h"), HEX + BIN[:2], Y_LIKE, Y_RE, False), ("a", _k("bn"), BIN + HEX[:2], Y_LIKE, Y_RE, False),
    ("a", _k("f"), BOOLS + INTS[:1], Y_LIKE, Y_RE, False),
    ("b", _k("x"), NUMS, Y_LIKE, Y_RE, False), ("b", _k("x"), NUMS, Y_LIKE, Y_RE, False),
    ("ipv4-addr", _k("value"), IP4, IP4_LIKE, IP4_RE, True), ("ipv4-addr", _k("value"), IP4, IP4_LIKE, IP4_RE, True),
    ("ipv6-addr", _k("value"), IP6, IP6_LIKE, IP6_RE, True),
    ("windows-registry-key", _k("key"), RK_KEY, RK_KEY_LIKE, RK_KEY_RE, True), ("windows-registry-key", _k("key"), RK_KEY, RK_KEY_LIKE, RK_KEY_RE, True),
    ("windows-registry-key", _k("values", "*", "name"), RK_NAME, RK_NAME_LIKE, RK_NAME_RE, True),
    ("windows-registry-key", _k("values", 0, "name"), RK_NAME, RK_NAME_LIKE, RK_NAME_RE, True),
    ("windows-registry-key", _k("values", "*", "data"), RK_DATA, RK_NAME_LIKE, RK_NAME_RE, False),
]
PATHS_BY_TYPE = {}
for _e in PATHS:
    PATHS_BY_TYPE.setdefault(_e[0], []).append(_e)
TYPES = ["a", "a", "a", "b", "ipv4-addr", "ipv6-addr", "windows-registry-key", "windows-registry-key"]
_OPS = ["=", "=", "=", "!=", "<", "<=", ">", ">=", "IN", "IN", "IN", "LIKE", "MATCHES", "ISSUBSET", "ISSUPERSET"]

_I2, _I3, _I4, _I6, _I8, _I10, _I16, _I20, _I30, _I64 = (st.integers(0, k - 1) for k in (2, 3, 4, 6, 8, 10, 16, 20, 30, 64))
_S_TYPE = st.sampled_from(TYPES)
_S_ARITY = st.sampled_from([2, 2, 2, 3])
_S_CDEPTH = st.sampled_from([0, 0, 0, 1, 1, 2, 3])
_S_ODEPTH = st.sampled_from([0, 1, 1, 1, 2, 2, 3])
_S_OOP = st.sampled_from(["oand", "oor", "ofb"])
_S_NQ = st.sampled_from([0, 0, 0, 0, 0, 0, 1, 1, 2])
_S_REP = st.sampled_from([1, 2, 2, 3])
_S_WITHIN = st.sampled_from(patsem.WITHIN_SECONDS)
_S_INSTANT = st.sampled_from(patsem.START_STOP_INSTANTS)


def _pick(draw, pool):
    return pool[draw(_I64) % len(pool)]


def g_comparison(draw, otype, clean=False):
    """clean: stay away from the inputs on which the pinned tree is already known to raise (a share of the cases is
    generated that way so that the search also runs behind those defects)."""
    entries = PATHS_BY_TYPE[otype]
    t, steps, eqpool, likepool, repool, special = entries[draw(_I16) % len(entries)]
    path = {"t": t, "steps": steps}
    r = draw(_I64)
    if r == 0 and not clean:
        return {"k": "exists", "path": path, "neg": bool(draw(_I2))}
    op = _OPS[r % len(_OPS)]
    neg = draw(_I4) == 0
    if clean and neg and op in P.ORDER_OPS:
        neg = False
    nonstr_ok = not (clean and special)
    if op in ("=", "!=") or op in P.ORDER_OPS:
        pool = eqpool
        if draw(_I16) == 0 and nonstr_ok and not (op in P.ORDER_OPS):
            pool = NONSTR                                       # constant of another kind (incl. non-strings on the special paths)
        rhs = _pick(draw, pool)
        if rhs["c"] == "bool" and op in P.ORDER_OPS:
            rhs = INTS[0]
    elif op == "IN":
        if special and not nonstr_ok:
            op, rhs = "=", _pick(draw, eqpool)                    # every set literal on a special path raises today
        else:
            n = (0, 1, 2, 2, 3, 3)[draw(_I6)]
            rhs = {"c": "set", "items": [_pick(draw, eqpool if draw(_I8) else NONSTR) for _ in range(n)]}
    elif op == "LIKE":
        rhs = _pick(draw, likepool)
    elif op == "MATCHES":
        rhs = _pick(draw, repool)
    else:
        rhs = _pick(draw, NETS if draw(_I4) else eqpool)
        if rhs["c"] != "str":
            rhs = NETS[0]
    return {"k": "cmp", "path": path, "op": op, "neg": neg, "rhs": rhs}


def g_cexpr(draw, depth, otype, clean=False):
    if depth <= 0 or draw(_I10) < 4:
        t = otype
        if not clean and draw(_I30) == 0:
            t = draw(_S_TYPE)                                   # comparison AND/OR across object types (rare)
        return g_comparison(draw, t, clean)
    k = "and" if draw(_I2) else "or"
    return {"k": k, "args": [g_cexpr(draw, depth - 1, otype, clean) for _ in range(draw(_S_ARITY))]}


def g_qual(draw):
    r = draw(_I3)
    if r == 0:
        return {"q": "repeats", "n": {"c": "int", "v": draw(_S_REP)}}
    if r == 1:
        return {"q": "within", "n": {"c": "int", "v": draw(_S_WITHIN)}}
    return {"q": "startstop", "a": {"c": "ts", "v": draw(_S_INSTANT)}, "b": {"c": "ts", "v": draw(_S_INSTANT)}}


def g_oexpr(draw, depth, clean=False, budget=None):
    r = draw(_I10)
    if depth <= 0 or r < 3:
        n = {"k": "obs", "e": g_cexpr(draw, draw(_S_CDEPTH), draw(_S_TYPE), clean)}
    elif r < 9:
        k = draw(_S_OOP)
        n = {"k": k, "args": [g_oexpr(draw, depth - 1, clean) for _ in range(draw(_S_ARITY))]}
    else:
        n = g_oexpr(draw, depth - 1, clean)
    for _ in range(draw(_S_NQ)):
        n = {"k": "qual", "e": n, "q": g_qual(draw)}
    return n


def n_obs(ast):
    return sum(1 for n in P.walk(ast) if n["k"] == "obs")


def n_cmp(ast):
    return sum(1 for n in P.walk(ast) if n["k"] in ("cmp", "exists"))


def g_pattern(draw, clean=False, max_obs=6, max_cmp=10):
    for _ in range(4):
        ast = g_oexpr(draw, draw(_S_ODEPTH), clean)
        if n_obs(ast) <= max_obs and n_cmp(ast) <= max_cmp:
            return ast
    return {"k": "obs", "e": g_comparison(draw, draw(_S_TYPE), clean)}


# ---------------------------------------------------------------------------
# documented rewrite laws.  Each takes (ast, pick, fresh) and returns a new AST or None when not applicable;
# pick(n) yields a drawn int < n, fresh(level, otype) a drawn small expression.

OBS_KINDS = ("oand", "oor", "ofb")
CMP_KINDS = ("and", "or")


def _sites(ast, pred):
    return [i for i, n in enumerate(P.walk(ast)) if pred(n)]


def _replace_at(ast, index, fn):
    """Rebuild ast with the index-th node (pre-order, as in P.walk) replaced by fn(node)."""
    counter = [0]

    def rec(n):
        i = counter[0]
        counter[0] += 1
        if i == index:
            # skip numbering of the subtree being replaced
            counter[0] += sum(1 for _ in P.walk(n)) - 1
            return fn(copy.deepcopy(n))
        k = n["k"]
        if k in ("obs", "qual"):
            m = dict(n)
            m["e"] = rec(n["e"])
            return m
        if "args" in n:
            m = dict(n)
            m["args"] = [rec(a) for a in n["args"]]
            return m
        return n
    return rec(ast)


def _apply(ast, pred, fn, pick):
    sites = _sites(ast, pred)
    if not sites:
        return None
    return _replace_at(ast, sites[pick(len(sites))], fn)


def rw_commute(ast, pick, fresh):
    def fn(n):
        args = n["args"]
        r = pick(3)
        n["args"] = args[::-1] if r == 0 else args[1:] + args[:1] if r == 1 else [args[1], args[0]] + args[2:]
        return n
    return _apply(ast, lambda n: n["k"] in ("oand", "oor", "and", "or"), fn, pick)


def rw_assoc(ast, pick, fresh):
    def pred(n):
        return n["k"] in OBS_KINDS + CMP_KINDS and (len(n["args"]) >= 3 or any(a["k"] == n["k"] for a in n["args"]))

    def fn(n):
        args = n["args"]
        nested = [i for i, a in enumerate(args) if a["k"] == n["k"]]
        if nested and (len(args) < 3 or pick(2)):
            i = nested[pick(len(nested))]
            n["args"] = args[:i] + args[i]["args"] + args[i + 1:]            # flatten
        else:
            i = pick(len(args) - 1)
            n["args"] = args[:i] + [{"k": n["k"], "args": args[i:i + 2]}] + args[i + 2:]   # group two neighbours
        return n
    return _apply(ast, pred, fn, pick)


def rw_idempotent(ast, pick, fresh):
    """X -> X OR X (both levels), X -> X AND X (comparison level only); or repeat one operand of such a node."""
    def pred(n):
        return True

    def fn(n):
        k = n["k"]
        if k in ("oor", "and", "or") and pick(2):
            n["args"] = n["args"] + [copy.deepcopy(n["args"][pick(len(n["args"]))])]
            return n
        if k in ("cmp", "exists", "and", "or"):
            return {"k": "and" if pick(2) else "or", "args": [n, copy.deepcopy(n)]}
        return {"k": "oor", "args": [n, copy.deepcopy(n)]}
    return _apply(ast, pred, fn, pick)


def _walk_anc(n, anc=()):
    """Like P.walk (same order), yielding (node, tuple of ancestors)."""
    yield n, anc
    k = n["k"]
    if k in ("obs", "qual"):
        for x in _walk_anc(n["e"], anc + (n,)):
            yield x
    elif "args" in n:
        for a in n["args"]:
            for x in _walk_anc(a, anc + (n,)):
                yield x


def _absorb_ok(n):
    # after normalisation every alternative of X acts as the absorbing operand: none of them may be qualified
    # (the library documents that the simplification does not work across qualifiers)
    return n["k"] != "qual" and not (n["k"] == "oor" and any(not _absorb_ok(a) for a in n["args"]))


def _or_alternatives(n):
    if n["k"] == "oor":
        out = []
        for a in n["args"]:
            out.extend(_or_alternatives(a))
        return out
    return [n]


def rw_absorb(ast, pick, fresh):
    """obs level: X -> X OR (X AND Y) | X OR (X FOLLOWEDBY Y) | X OR (Y FOLLOWEDBY X), X not qualified;
    comparison level: X -> X OR (X AND Y) | X AND (X OR Y).
    Returns (ast, tag): the tag names two situations in which the pinned normaliser is known not to see the absorption
    (recorded findings), decided here from the rewrite site:
      ~alternatives-under-distribution  X is an OR of alternatives below an AND/FOLLOWEDBY (DNF distributes first)
      ~redundant-absorber               X is itself implied by a sibling alternative of the enclosing OR"""
    sites = [(i, n, anc) for i, (n, anc) in enumerate(_walk_anc(ast)) if _absorb_ok(n)]
    if not sites:
        return None
    index, node, anc = sites[pick(len(sites))]
    tags = []
    if node["k"] in ("obs", "oand", "oor", "ofb"):
        if node["k"] == "oor" and any(a["k"] in ("oand", "ofb") for a in anc):
            tags.append("alternatives-under-distribution")
        # enclosing OR: climb through oor ancestors
        top = node
        for a in reversed(anc):
            if a["k"] != "oor":
                break
            top = a
        if top is not node:
            for z in _or_alternatives(top):
                if z is node or any(z is x for x in P.walk(node)):
                    continue
                try:
                    if patsem.separate({"k": "oor", "args": [node, z]}, z) is None:
                        tags.append("redundant-absorber")
                        break
                except patsem.Unsupported:
                    pass

    def fn(n):
        k = n["k"]
        if k in ("cmp", "exists", "and", "or"):
            y = fresh("cmp", sorted(P.types_of(n) or {n_type(n)})[0])
            if pick(2):
                return {"k": "or", "args": [n, {"k": "and", "args": [copy.deepcopy(n), y]}]}
            return {"k": "and", "args": [n, {"k": "or", "args": [copy.deepcopy(n), y]}]}
        y = fresh("obs", None)
        r = pick(3)
        inner = {"k": "oand", "args": [copy.deepcopy(n), y]} if r == 0 else {"k": "ofb", "args": [copy.deepcopy(n), y]} if r == 1 \
            else {"k": "ofb", "args": [y, copy.deepcopy(n)]}
        return {"k": "oor", "args": [n, inner]}
    return _replace_at(ast, index, fn), "".join("~" + t for t in tags)


def n_type(n):
    for x in P.walk(n):
        if x["k"] in ("cmp", "exists"):
            return x["path"]["t"]
    return "a"


def rw_distribute(ast, pick, fresh):
    """A AND (B OR C) -> (A AND B) OR (A AND C); same for FOLLOWEDBY (order kept) and for comparison AND."""
    def pred(n):
        if n["k"] in ("oand", "ofb"):
            return any(a["k"] == "oor" for a in n["args"])
        if n["k"] == "and":
            return any(a["k"] == "or" for a in n["args"])
        return False

    def fn(n):
        ork = "or" if n["k"] == "and" else "oor"
        idx = [i for i, a in enumerate(n["args"]) if a["k"] == ork]
        i = idx[pick(len(idx))]
        alts = []
        for alt in n["args"][i]["args"]:
            alts.append({"k": n["k"], "args": copy.deepcopy(n["args"][:i]) + [copy.deepcopy(alt)] + copy.deepcopy(n["args"][i + 1:])})
        return {"k": ork, "args": alts}
    return _apply(ast, pred, fn, pick)


def rw_introduce_or(ast, pick, fresh):
    """Plant the shape distribution needs: X AND Y -> X AND (Y OR Z) is NOT a law, so instead wrap an operand pair:
    A op B stays, but this helper returns A op (B OR B) (idempotence) to give `distribute` something to work on."""
    def pred(n):
        return n["k"] in ("oand", "ofb", "and")

    def fn(n):
        i = pick(len(n["args"]))
        ork = "or" if n["k"] == "and" else "oor"
        n["args"][i] = {"k": ork, "args": [n["args"][i], copy.deepcopy(n["args"][i])]}
        return n
    return _apply(ast, pred, fn, pick)


def rw_set_permute(ast, pick, fresh):
    def fn(n):
        items = n["rhs"]["items"]
        r = pick(2)
        n["rhs"] = {"c": "set", "items": items[::-1] if r == 0 else items[1:] + items[:1]}
        return n
    return _apply(ast, lambda n: n["k"] == "cmp" and n["op"] == "IN" and len(n["rhs"]["items"]) >= 2, fn, pick)


def _respell_num(c, pick):
    if c["c"] == "int":
        v = c["v"]
        if abs(v) >= BIG:      # no float spelling denotes the same number
            return {"c": "int", "v": v, "sp": "+%d" % v}
        return [{"c": "int", "v": v, "sp": "+%d" % v} if v >= 0 else {"c": "float", "sp": "%d.0" % v}, {"c": "float", "sp": "%d.0" % v},
                {"c": "float", "sp": "%d.00" % v}][pick(3)]
    f = float(c["sp"])
    if f == int(f) and pick(2):
        return {"c": "int", "v": int(f)}
    return {"c": "float", "sp": c["sp"] + "0"}


def rw_num_respell(ast, pick, fresh):
    def has_num(n):
        if n["k"] != "cmp":
            return False
        r = n["rhs"]
        return r["c"] in ("int", "float") or (r["c"] == "set" and any(x["c"] in ("int", "float") for x in r["items"]))

    def fn(n):
        r = n["rhs"]
        if r["c"] == "set":
            idx = [i for i, x in enumerate(r["items"]) if x["c"] in ("int", "float")]
            i = idx[pick(len(idx))]
            items = list(r["items"])
            items[i] = _respell_num(items[i], pick)
            n["rhs"] = {"c": "set", "items": items}
        else:
            n["rhs"] = _respell_num(r, pick)
        return n
    return _apply(ast, has_num, fn, pick)


LAWS = {
    "commute": rw_commute, "associate": rw_assoc, "idempotent": rw_idempotent, "absorb": rw_absorb, "distribute": rw_distribute,
    "set-permute": rw_set_permute, "num-respell": rw_num_respell, "introduce-or": rw_introduce_or,
}
LAW_NAMES = ["commute", "associate", "idempotent", "absorb", "absorb", "distribute", "distribute", "set-permute", "set-permute", "set-permute",
             "num-respell", "introduce-or"]


# ---------------------------------------------------------------------------
# semantic mutations (the result normally means something else)

def mut_constant(ast, pick, fresh):
    def fn(n):
        entries = [e for e in PATHS if e[0] == n["path"]["t"] and e[1] == n["path"]["steps"]]
        pool = entries[0][2] if entries else NUMS
        if n["rhs"]["c"] == "set":
            items = list(n["rhs"]["items"])
            if items and pick(2):
                items[pick(len(items))] = pool[pick(len(pool))]
            else:
                items.append(pool[pick(len(pool))])
            n["rhs"] = {"c": "set", "items": items}
        elif n["op"] in P.STRING_OPS:
            cand = _cs("str", ["a%", "^a", "A\\D", "a\\d", "hklm%", "HKLM%", "1.2.3.0/24", "10.0.0.0/8", "R%", "r%"])
            n["rhs"] = cand[pick(len(cand))]
        else:
            c = pool[pick(len(pool))]
            n["rhs"] = INTS[0] if (c["c"] == "bool" and n["op"] in P.ORDER_OPS) else c
        return n
    return _apply(ast, lambda n: n["k"] == "cmp", fn, pick)


def mut_set_item(ast, pick, fresh):
    """Replace one item of a set literal by a different value (length unchanged)."""
    def fn(n):
        entries = [e for e in PATHS if e[0] == n["path"]["t"] and e[1] == n["path"]["steps"]]
        pool = entries[0][2] if entries else NUMS
        items = list(n["rhs"]["items"])
        i = pick(len(items))
        cand = [c for c in pool if P.canon_const(c) != P.canon_const(items[i])]
        items[i] = cand[pick(len(cand))]
        n["rhs"] = {"c": "set", "items": items}
        return n
    return _apply(ast, lambda n: n["k"] == "cmp" and n["op"] == "IN" and len(n["rhs"]["items"]) >= 1, fn, pick)


def mut_operator(ast, pick, fresh):
    def fn(n):
        if n["op"] in ("=", "!=") + P.ORDER_OPS and n["rhs"]["c"] != "bool":
            ops = [o for o in ("=", "!=") + P.ORDER_OPS if o != n["op"]]
        elif n["op"] in P.STRING_OPS:
            ops = [o for o in P.STRING_OPS if o != n["op"]]
        else:
            ops = ["!="] if n["op"] == "=" else ["="] if n["op"] == "!=" else None
        if ops is None:
            n["neg"] = not n["neg"]
        else:
            n["op"] = ops[pick(len(ops))]
        return n
    return _apply(ast, lambda n: n["k"] == "cmp", fn, pick)


def mut_not(ast, pick, fresh):
    def fn(n):
        n["neg"] = not n["neg"]
        return n
    if pick(2):
        r = _apply(ast, lambda n: n["k"] == "cmp" and n["op"] in ("IN", "!=") + P.STRING_OPS, fn, pick)
        if r is not None:
            return r
    return _apply(ast, lambda n: n["k"] in ("cmp", "exists"), fn, pick)


_IP_VARIANTS = [["1.2.3.4", "1.2.3.4/32", "01.02.03.04"], ["1.2.3.0/24", "1.2.3.4/24"], ["10.0.0.0/8", "10.0.0.1/8"],
                ["1::1", "1:0:0:0:0:0:0:1", "1::1/128", "0001:0000:0000:0000:0000:0000:0000:0001"], ["1:2:3:4:5:6:7:8/112", "1:2:3:4:5:6:7:0/112"]]


def mut_special_respell(ast, pick, fresh):
    """Another spelling of the same special value (letter case of registry keys / value names, CIDR spelling of the
    same network).  The library documents these as equal for comparisons; nothing is promised for other operators."""
    def pred(n):
        return n["k"] == "cmp" and patsem.special_of(n["path"]) is not None and n["rhs"]["c"] == "str"

    def fn(n):
        v = n["rhs"]["v"]
        if patsem.special_of(n["path"]) == "regkey":
            alts = [x for x in (v.lower(), v.upper(), v.swapcase()) if x != v]
            if n["op"] == "MATCHES" and "\\" not in v:
                alts = alts or [v]
        else:
            alts = [x for grp in _IP_VARIANTS if v in grp for x in grp if x != v]
        if alts:
            n["rhs"] = {"c": "str", "v": alts[pick(len(alts))]}
        return n
    return _apply(ast, pred, fn, pick)


def mut_path(ast, pick, fresh):
    def fn(n):
        entries = [e for e in PATHS_BY_TYPE.get(n["path"]["t"], []) if e[1] != n["path"]["steps"]]
        if entries:
            n["path"] = {"t": n["path"]["t"], "steps": entries[pick(len(entries))][1]}
        return n
    return _apply(ast, lambda n: n["k"] in ("cmp", "exists"), fn, pick)


def mut_path_length(ast, pick, fresh):
    """The same path with its last step dropped, or with one more step (key or index) appended: a:z[0] / a:z,
    a:n.k / a:n, a:x / a:x.q -- in the universe the shorter / longer path addresses a container or nothing."""
    def fn(n):
        steps = list(n["path"]["steps"])
        r = pick(3)
        if r == 0 and len(steps) > 1:
            steps = steps[:-1]
        elif r == 1:
            steps = steps + [{"s": "idx", "i": (0, 1, "*")[pick(3)]}]
        else:
            steps = steps + [{"s": "key", "n": ("q", "k", "name")[pick(3)], "q": False}]
        n["path"] = {"t": n["path"]["t"], "steps": steps}
        return n
    return _apply(ast, lambda n: n["k"] == "cmp", fn, pick)


def mut_star_key(ast, pick, fresh):
    """A [*] (or [0]) index step against a property literally named '*' (or '0'): a:z[*] / a:z.'*' -- different paths."""
    def pred(n):
        return n["k"] == "cmp" and any(s_["s"] == "idx" for s_ in n["path"]["steps"])

    def fn(n):
        steps = []
        done = False
        for s_ in n["path"]["steps"]:
            if s_["s"] == "idx" and not done:
                steps.append({"s": "key", "n": str(s_["i"]), "q": True})
                done = True
            else:
                steps.append(s_)
        n["path"] = {"t": n["path"]["t"], "steps": steps}
        return n
    return _apply(ast, pred, fn, pick)


def mut_index_value(ast, pick, fresh):
    """One index step replaced by another index: [0] / [1] / [*] / [-1] / [-2] (the grammar admits negative indices; in the universe
    they address nothing) -- different paths."""
    def pred(n):
        return n["k"] == "cmp" and any(s_["s"] == "idx" for s_ in n["path"]["steps"])

    def fn(n):
        steps = []
        done = False
        for s_ in n["path"]["steps"]:
            if s_["s"] == "idx" and not done:
                others = [i for i in (0, 1, "*", -1, -1, -2) if i != s_["i"]]
                steps.append({"s": "idx", "i": others[pick(len(others))]})
                done = True
            else:
                steps.append(s_)
        n["path"] = {"t": n["path"]["t"], "steps": steps}
        return n
    return _apply(ast, pred, fn, pick)


def mut_qualifier(ast, pick, fresh):
    def fn(n):
        q = dict(n["q"])
        if q["q"] == "repeats":
            q["n"] = {"c": "int", "v": q["n"]["v"] % 3 + 1}
        elif q["q"] == "within":
            others = [s for s in patsem.WITHIN_SECONDS if s != q["n"]["v"]]
            q["n"] = {"c": "int", "v": others[pick(len(others))]}
        else:
            key = "a" if pick(2) else "b"
            others = [s for s in patsem.START_STOP_INSTANTS if P.ts_instant(s) != P.ts_instant(q[key]["v"])]
            q[key] = {"c": "ts", "v": others[pick(len(others))]}
        n["q"] = q
        return n
    return _apply(ast, lambda n: n["k"] == "qual", fn, pick)


def mut_swap_followedby(ast, pick, fresh):
    def fn(n):
        i = pick(len(n["args"]) - 1)
        n["args"][i], n["args"][i + 1] = n["args"][i + 1], n["args"][i]
        return n
    return _apply(ast, lambda n: n["k"] == "ofb", fn, pick)


def mut_duplicate_and_operand(ast, pick, fresh):
    def fn(n):
        if n["k"] in ("oand", "ofb"):
            n["args"] = n["args"] + [copy.deepcopy(n["args"][pick(len(n["args"]))])]
            return n
        return {"k": "oand" if pick(2) else "ofb", "args": [n, copy.deepcopy(n)]}
    return _apply(ast, lambda n: n["k"] in ("oand", "ofb", "obs", "qual", "oor"), fn, pick)


def mut_and_or(ast, pick, fresh):
    swap = {"and": "or", "or": "and", "oand": "oor", "oor": "oand", "ofb": "oand"}

    def fn(n):
        n["k"] = swap[n["k"]]
        return n
    return _apply(ast, lambda n: n["k"] in swap, fn, pick)


def mut_absorb_wrong(ast, pick, fresh):
    """X -> X AND (X OR Y) at observation level: NOT a law under distinct bindings."""
    def fn(n):
        return {"k": "oand", "args": [n, {"k": "oor", "args": [copy.deepcopy(n), fresh("obs", None)]}]}
    return _apply(ast, lambda n: n["k"] in ("obs", "oand", "oor", "ofb", "qual"), fn, pick)


def mut_qualify(ast, pick, fresh):
    def fn(n):
        qs = [{"q": "repeats", "n": {"c": "int", "v": 2}}, {"q": "within", "n": {"c": "int", "v": patsem.WITHIN_SECONDS[pick(4)]}},
              {"q": "startstop", "a": {"c": "ts", "v": patsem.START_STOP_INSTANTS[0]}, "b": {"c": "ts", "v": patsem.START_STOP_INSTANTS[1 + pick(2)]}}]
        return {"k": "qual", "e": n, "q": qs[pick(3)]}
    return _apply(ast, lambda n: n["k"] in ("obs", "oand", "oor", "ofb", "qual"), fn, pick)


MUTATIONS = {
    "constant": mut_constant, "operator": mut_operator, "not": mut_not, "path": mut_path, "qualifier": mut_qualifier,
    "swap-followedby": mut_swap_followedby, "duplicate-and-operand": mut_duplicate_and_operand, "and-or": mut_and_or,
    "absorb-wrong": mut_absorb_wrong, "qualify": mut_qualify, "special-respell": mut_special_respell, "set-item": mut_set_item,
    "path-length": mut_path_length, "star-key": mut_star_key, "index-value": mut_index_value,
}
MUTATION_NAMES = ["index-value", "index-value", "index-value", "index-value", "star-key", "star-key", "path-length", "path-length", "constant", "constant", "operator", "not", "not", "not", "path", "qualifier", "qualifier", "swap-followedby", "swap-followedby",
                  "duplicate-and-operand", "and-or", "absorb-wrong", "qualify", "special-respell", "special-respell", "special-respell", "set-item", "set-item", "set-item", "set-item"]


# ---------------------------------------------------------------------------
# cases

_S_LAW = st.sampled_from(LAW_NAMES)
_S_MUT = st.sampled_from(MUTATION_NAMES)
_S_NRW = st.sampled_from([1, 1, 1, 2, 2, 3])
_STYLE = st.one_of(st.just([]), st.just([]), st.lists(st.integers(0, 9), min_size=1, max_size=12))


def _derive(draw, ast, clean):
    """-> (derived ast, relation label).  Relation 'rewrite:<laws>' promises equivalence; 'mutation:<name>' and
    'random' promise nothing."""
    pick = lambda n: draw(_I64) % n if n > 1 else 0  # noqa: E731

    def fresh(level, otype):
        if level == "cmp":
            return g_comparison(draw, otype if otype in PATHS_BY_TYPE else "a", True)
        return {"k": "obs", "e": g_comparison(draw, draw(_S_TYPE), clean)}
    r = draw(_I10)
    if r < 5:
        names = [draw(_S_LAW) for _ in range(draw(_S_NRW))]
        names.sort(key=lambda x: x == "absorb")          # absorption last: its site context decides the expected outcome
        done = []
        cur = ast
        for name in names:
            nxt = LAWS[name](cur, pick, fresh)
            if nxt is None and name == "distribute":       # plant an OR operand first (idempotence), then distribute over it
                pre = rw_introduce_or(cur, pick, fresh)
                if pre is not None:
                    nxt = rw_distribute(pre, pick, fresh)
                    if nxt is not None:
                        done.append("introduce-or")
            if nxt is None:
                name = "idempotent" if name != "absorb" else name
                nxt = LAWS[name](cur, pick, fresh)
            tag = ""
            if isinstance(nxt, tuple):
                nxt, tag = nxt
            if nxt is not None and n_cmp(nxt) <= 24:
                cur = nxt
                done.append(name + tag)
                if name == "absorb":
                    break
        return cur, "rewrite:" + ("+".join(done) if done else "none")
    if r < 8:
        name = draw(_S_MUT)
        nxt = MUTATIONS[name](ast, pick, fresh)
        if nxt is None:
            name = "constant"
            nxt = mut_constant(ast, pick, fresh)
        if nxt is None:
            return ast, "rewrite:none"
        if draw(_I4) == 0:      # mutation followed by a law, so that the normaliser has work to do
            law = draw(_S_LAW)
            nx2 = LAWS[law](nxt, pick, fresh)
            if isinstance(nx2, tuple):
                nx2 = nx2[0]
            if nx2 is not None and n_cmp(nx2) <= 24:
                return nx2, "mutation:%s+%s" % (name, law)
        return nxt, "mutation:" + name
    return g_pattern(draw, clean), "random"


def _multiplicity_pair(draw):
    """Absorption must respect operand multiplicity: (X AND X AND Y) is NOT absorbed into
    (X AND X AND Y) OR (X AND Y AND Z) -- the second alternative holds fewer copies of X, and AND operands bind distinct
    observations.  Built with drawn operands / operator / context; the relation promises nothing (soundness decides)."""
    mk = lambda: {"k": "obs", "e": g_comparison(draw, draw(_S_TYPE), True)}  # noqa: E731
    x, y, z = mk(), mk(), mk()
    op = "oand" if draw(_I4) else "ofb"
    copies = 2 + (draw(_I4) == 0)
    small = {"k": op, "args": [copy.deepcopy(x) for _ in range(copies)] + [copy.deepcopy(y)]}
    big_args = [copy.deepcopy(x) for _ in range(copies - 1)] + [copy.deepcopy(y), copy.deepcopy(z)]
    if op == "oand" and draw(_I2):
        big_args.reverse()
    big = {"k": op, "args": big_args}
    alts = [copy.deepcopy(small), big]
    if draw(_I2):
        alts.reverse()
    p, q = small, {"k": "oor", "args": alts}
    if draw(_I4) == 0:      # inside a context
        w = mk()
        p = {"k": "ofb", "args": [copy.deepcopy(w), p]}
        q = {"k": "ofb", "args": [w, q]}
    if draw(_I2):
        p, q = q, p
    return p, q


def _confusable_constant_pair(draw):
    """Two comparisons that differ only in a constant which a careless comparison confuses: integers beyond 2**53 that
    collapse to one double.  Promises nothing (soundness decides)."""
    t, steps = [("b", _k("x")), ("a", _k("x")), ("a", _k("z", "*")), ("a", _k("n", "k-2"))][draw(_I4)]
    op = ["=", "!=", "<", ">=", "IN"][draw(st.integers(0, 4))]
    n1, n2 = (BIG, BIG + 1) if draw(_I2) else (BIG + 1, BIG)
    # ... or an integer next to the FLOAT spelling of 2**53: subtracting / converting mixed constants rounds the integer first
    as_float = draw(_I4) == 0

    def num(n):
        return {"c": "float", "sp": "%d.0" % n} if as_float and n == BIG else {"c": "int", "v": n}

    def cmp_(n):
        rhs = num(n) if op != "IN" else {"c": "set", "items": [num(n), {"c": "int", "v": 5}]}
        return {"k": "obs", "e": {"k": "cmp", "path": {"t": t, "steps": steps}, "op": op, "neg": bool(draw(_I4) == 0) and op not in P.ORDER_OPS, "rhs": rhs}}
    p = cmp_(n1)
    q = copy.deepcopy(p)
    if op == "IN":
        q["e"]["rhs"]["items"][0] = num(n2)
    else:
        q["e"]["rhs"] = num(n2)
    if draw(_I4) == 0:      # OR of both vs one of them (a careless de-duplication collapses the OR)
        p = {"k": "oor", "args": [copy.deepcopy(p), copy.deepcopy(q)]}
    return p, q


def _deep_distribution_pair(draw):
    """A op1 (B OR (C op2 (D OR E))) and its (one-step or fully) distributed form: three alternating levels, so the
    normaliser has to distribute again inside the operands it has just built.  A documented law: equivalence is promised."""
    mk = lambda: {"k": "obs", "e": g_comparison(draw, draw(_S_TYPE), True)}  # noqa: E731
    # five operands that are pairwise different in MEANING (equal or special-equal operands would bring idempotence /
    # absorption into play, whose recognition has its own known gaps and its own keys): x = <int> on types a / b
    cands = [(t, v) for t in ("a", "b") for v in (1, 2, 3, 5)]
    order = draw(st.permutations(cands))
    ops = [{"k": "obs", "e": {"k": "cmp", "path": {"t": t, "steps": [{"s": "key", "n": "x", "q": False}]}, "op": "=", "neg": False, "rhs": {"c": "int", "v": v}}} for t, v in order[:5]]
    a, b, c, d, e = ops
    op1 = "oand" if draw(_I2) else "ofb"
    op2 = "oand" if draw(_I2) else "ofb"
    cp = copy.deepcopy
    inner = {"k": op2, "args": [cp(c), {"k": "oor", "args": [cp(d), cp(e)]}]}
    p = {"k": op1, "args": [cp(a), {"k": "oor", "args": [cp(b), inner]}]}
    if draw(_I2):       # one step written out
        q = {"k": "oor", "args": [{"k": op1, "args": [cp(a), cp(b)]}, {"k": op1, "args": [cp(a), cp(inner)]}]}
    else:               # fully written out
        q = {"k": "oor", "args": [{"k": op1, "args": [cp(a), cp(b)]},
                                  {"k": op1, "args": [cp(a), {"k": op2, "args": [cp(c), cp(d)]}]},
                                  {"k": op1, "args": [cp(a), {"k": op2, "args": [cp(c), cp(e)]}]}]}
    if draw(_I2):
        p, q = q, p
    return p, q


@st.composite
def pair_case(draw):
    r0 = draw(st.integers(0, 31))
    if r0 == 0:
        pq = _deep_distribution_pair(draw)
        if pq is not None:
            return {"kind": "pair", "p": pq[0], "q": pq[1], "rel": "rewrite:distribute+distribute", "sp": draw(_STYLE), "sq": draw(_STYLE)}
    if r0 == 3:
        p, q = _confusable_constant_pair(draw)
        return {"kind": "pair", "p": p, "q": q, "rel": "mutation:confusable-constant", "sp": draw(_STYLE), "sq": draw(_STYLE)}
    if r0 in (1, 2):
        p, q = _multiplicity_pair(draw)
        return {"kind": "pair", "p": p, "q": q, "rel": "mutation:absorb-multiplicity", "sp": draw(_STYLE), "sq": draw(_STYLE)}
    clean = draw(_I10) < 6
    p = g_pattern(draw, clean)
    q, rel = _derive(draw, p, clean)
    return {"kind": "pair", "p": p, "q": q, "rel": rel, "sp": draw(_STYLE), "sq": draw(_STYLE)}


@st.composite
def triple_case(draw):
    clean = draw(_I10) < 7
    p = g_pattern(draw, clean, max_obs=4, max_cmp=7)
    q, rq = _derive(draw, p, clean)
    r, rr = _derive(draw, p if draw(_I2) else q, clean)
    return {"kind": "triple", "p": p, "q": q, "r": r, "rel": [rq, rr]}


@st.composite
def search_case(draw):
    clean = draw(_I10) < 7
    p = g_pattern(draw, clean, max_obs=4, max_cmp=7)
    n = draw(st.sampled_from([2, 3, 3, 4, 5, 6, 8]))
    items, rels = [], []
    for _ in range(n):
        q, rel = _derive(draw, p, clean)
        items.append(q)
        rels.append(rel)
    return {"kind": "search", "p": p, "L": items, "rel": rels}
