"""Model-driven generator of specification-valid STIX objects as JSON dicts
(DESIGN 1.2(3)).  Builds by construction from the frozen model, then repairs
co-constraints.  Does not import stix2.
"""
import re

from hypothesis import strategies as st

from gen import values as V
from oracle import model as M
from oracle import tsref
from oracle.validator import SOCKET_PREFIXES, required_in_spec

PATTERNS = {
    "2.0": ["[file:name = 'a']", "[ipv4-addr:value = '1.2.3.4']", "[a:b = 1 AND a:c = 'x']", "[a:b = 1] FOLLOWEDBY [c:d = 2] WITHIN 5 SECONDS"],
    "2.1": ["[file:name = 'a']", "[ipv4-addr:value = '1.2.3.4']", "[a:b = 1 AND a:c = 'x']", "[a:b = 1] FOLLOWEDBY [c:d = 2] WITHIN 5 SECONDS",
            "[file:hashes.'SHA-256' = 'aec070645fe53ee3b3763059376134f058cc337247c978add178b6ccdfb0019f'] REPEATS 2 TIMES"],
}
LANGS = ["en", "fr", "de-CH", "ja", "es-419"]
DICT_KEY = st.one_of(
    st.sampled_from(["key", "abc", "a_b", "A-B", "Key1", "x_y_z", "name", "UPPER", "MiXeD"]),
    st.text(st.sampled_from(list("abcxyzABC019_-")), min_size=3, max_size=8),
)
HEXCH = "0123456789abcdef"


def hex_str(n):
    return st.text(st.sampled_from(list(HEXCH)), min_size=n, max_size=n)


def uuid_text(ver, draw, upper_ok=True):
    if ver == "2.0":
        u = str(draw(st.uuids(version=4)))
    else:
        u = str(draw(st.one_of(st.uuids(version=4), st.uuids(version=4), st.uuids(version=1), st.uuids(version=5), st.uuids(version=3))))
    if upper_ok and draw(st.integers(0, 19)) == 0:
        u = u.upper()
    return u


# ---- timestamps ---------------------------------------------------------------------------------------
YEAR = st.one_of(st.integers(1970, 2030), st.integers(1970, 2030), st.integers(1000, 9998), st.integers(1, 999))


# microsecond values v for which int(float("0.vvvvvv") * 10**6) != v: any implementation that takes the fraction through binary
# floating point writes them one microsecond early (about 1.15 % of all values; a sample with 4-, 5- and 6-digit spellings)
FLOAT_HOSTILE_US = [1992, 7831, 16220, 31900, 62800, 125960, 128625, 128820, 129066, 129567, 129960, 250557, 250594, 251700, 251756, 252200, 252924, 252970,
                    253082, 253250, 253532, 253887, 254337, 255360, 257300, 258860, 259997, 261630, 261858, 261910, 500500, 502690, 503400, 508500, 509767,
                    510500, 511450, 512230, 512600, 513110, 514600, 514990, 516500, 516986, 517500, 520500, 520820, 522975, 523017, 523612, 249, 251, 489, 1001,
                    15700, 3970, 125100, 250200, 125014]


@st.composite
def instant(draw, min_year=1):
    y = max(min_year, draw(YEAR))
    mo = draw(st.integers(1, 12))
    d = draw(st.integers(1, tsref.days_in_month(y, mo)))
    secs = draw(st.one_of(st.just(0), st.integers(0, 86399)))
    us = draw(st.one_of(st.just(0), st.integers(0, 999999), st.integers(0, 999).map(lambda k: k * 1000), st.sampled_from([100000, 120000, 999999, 1, 500, 999000]),
                       st.sampled_from(FLOAT_HOSTILE_US)))
    return tsref.instant(y, mo, d) + secs * 10 ** 6 + us


def render_ts(t, digits, extra=""):
    """Text of instant t with `digits` fraction digits (truncating), plus extra sub-microsecond digits."""
    days, rem = divmod(t, tsref.US_PER_DAY)
    y, mo, d = tsref.civil_from_days(days)
    secs, us = divmod(rem, 10 ** 6)
    head = "%04d-%02d-%02dT%02d:%02d:%02d" % (y, mo, d, secs // 3600, secs % 3600 // 60, secs % 60)
    frac = ("%06d" % us)[:min(digits, 6)] + (extra if digits > 6 else "")
    return head + ("." + frac if frac else "") + "Z"


@st.composite
def timestamp(draw, ver, desc, opts):
    t = draw(instant(min_year=opts.get("min_year", 1)))
    if desc.get("precision") == "millisecond" and (ver == "2.0" or desc.get("constraint") == "exact"):
        return render_ts(t, 3)      # "MUST be precise to the millisecond" slots
    if desc.get("precision") == "second" and desc.get("constraint") == "exact":
        return render_ts(t, 0)      # "MUST be precise to the second" (PE time_date_stamp)
    maxd = opts.get("ts_max_digits", 6)
    digits = draw(st.integers(0, 6))
    if maxd > 6 and draw(st.integers(0, 39)) == 0:
        digits = draw(st.integers(7, maxd))
    extra = ""
    if digits > 6:
        extra = draw(st.text(st.sampled_from(list("0123456789")), min_size=digits - 6, max_size=digits - 6))
    return render_ts(t, digits, extra)


def ts_sort_key(text):
    t, n, extra = tsref.parse(text)
    return (t, int((extra + "0" * 12)[:12] or "0"))


# ---- leaf values ---------------------------------------------------------------------------------------
def string_value(opts):
    if opts.get("plain_strings"):
        return st.text(st.characters(min_codepoint=0x20, max_codepoint=0x7E), min_size=1, max_size=10)
    return st.one_of(V.mixed_text(2), st.sampled_from(["", "a", "x y", "0", "false", "null", "{}", "é", "\U0001f600", "a\nb", 'q"uote', "back\\slash"]),
                     st.text(st.characters(min_codepoint=0x20, max_codepoint=0x7E), min_size=1, max_size=10))


def integer_value(desc):
    lo, hi = desc.get("min"), desc.get("max")
    cands = [0, 1, 2, 7, 100, 65535, 2 ** 31, 2 ** 53 + 1, 2 ** 63, 10 ** 9 - 1]
    if lo is not None:
        cands += [lo, lo + 1]
    else:
        cands += [-1, -2 ** 31, -2 ** 63 - 1]
    if hi is not None:
        cands += [hi, hi - 1]
    cands = [c for c in cands if (lo is None or c >= lo) and (hi is None or c <= hi)]
    return st.one_of(st.sampled_from(cands), st.integers(lo if lo is not None else -10 ** 6, hi if hi is not None else 10 ** 12))


def float_value(desc):
    lo, hi = desc.get("min"), desc.get("max")
    cands = [0.0, 1.5, -1.5, 1e-7, 1e21, 0.1, 123456.789, 5e-324, 45.0, 1e-5, 89.999999, 2.5e-10]
    if lo is not None:
        cands.append(lo)
    if hi is not None:
        cands.append(hi)
    cands = [c for c in cands if (lo is None or c >= lo) and (hi is None or c <= hi)]
    return st.one_of(st.sampled_from(cands), st.floats(min_value=lo, max_value=hi, allow_nan=False, allow_infinity=False),
                     st.integers(int(lo) if lo is not None else -1000, int(hi) if hi is not None else 1000))


def b64_value():
    import base64
    return st.binary(min_size=1, max_size=12).map(lambda b: base64.b64encode(b).decode())


def hash_value(m, name):
    shape = m.hash_shapes.get(name)
    if m.hash_gen_only.get(name) == "hex32":
        return st.one_of(hex_str(32), hex_str(32).map(str.upper), hex_str(128))    # MD6: generated at two of the lengths everybody accepts
    if shape:
        n = int(re.search(r"\{(\d+)\}", shape).group(1))
        return st.one_of(hex_str(n), hex_str(n), hex_str(n).map(str.upper))
    if m.hash_gen_only.get(name) == "ssdeep":
        return st.sampled_from(["3:AXGBicFlgVNhBGcL6wCrFQEv:AXGHsNhxLsr2C", "96:abc+def/ghi:jkl", "3:a:b"])
    return hex_str(32)


@st.composite
def hashes_value(draw, m, desc):
    names = draw(st.lists(st.sampled_from(desc["hash_names"]), min_size=1, max_size=3, unique=True))
    return {n: draw(hash_value(m, n)) for n in names}


@st.composite
def dictionary_value(draw, ver, opts):
    keys = draw(st.lists(DICT_KEY, min_size=1, max_size=3, unique=True))
    if draw(st.integers(0, 11)) == 0:
        # keys at the length limits: 3..256 characters in 2.0, 1..250 in 2.1
        keys.append(draw(st.sampled_from(["k" * 250, "K" * 256, "kk-" * 85] if ver == "2.0" else ["k" * 250, "K" * 249, "k", "Z9"])))
    leaf = st.one_of(string_value(opts), st.integers(-5, 10 ** 6), st.booleans(), st.lists(st.text(max_size=3, alphabet="abc"), min_size=1, max_size=2),
                     st.dictionaries(DICT_KEY, st.text(max_size=3, alphabet="xyz"), min_size=1, max_size=2), st.sampled_from([0, "", False, 1.5]))
    return {k: draw(leaf) for k in keys}


def ref_id(draw, ver, target_type):
    return "%s--%s" % (target_type, uuid_text(ver, draw))


# ---- classes ---------------------------------------------------------------------------------------------
class Ctx(object):
    def __init__(self, ver, opts=None, container=None, self_key=None):
        self.ver = ver
        self.m = M.get(ver)
        self.opts = opts or {}
        self.container = container     # 2.0 observed-data: {key: type}
        self.self_key = self_key
        self.depth = 0


def value_for(draw, ctx, desc, clsname, pname):
    """Returns a value or _SKIP when no valid value can be built in this context."""
    k = desc["kind"]
    m, ver, opts = ctx.m, ctx.ver, ctx.opts
    if "fixed" in desc:
        return desc["fixed"]
    if k == "string":
        if pname == "lang":
            return draw(st.sampled_from(LANGS))
        return draw(string_value(opts))
    if k == "pattern":
        return draw(st.sampled_from(PATTERNS[ver]))
    if k == "open-vocab":
        if pname == "pattern_type":
            return draw(st.sampled_from(["stix", "stix", "snort", "yara", "x-other"]))
        return draw(st.one_of(st.sampled_from(desc["allowed"]), st.sampled_from(desc["allowed"]), st.sampled_from(["something-else", "x-custom-value", "Mixed Case"])))
    if k == "enum":
        return draw(st.sampled_from(desc["allowed"]))
    if k == "integer":
        return draw(integer_value(desc))
    if k == "float":
        return draw(float_value(desc))
    if k == "boolean":
        return draw(st.booleans())
    if k == "timestamp":
        return draw(timestamp(ver, desc, opts))
    if k == "id":
        return "%s%s" % (desc["prefix"], uuid_text(ver, draw))
    if k == "reference":
        targets = m.ref_targets(desc)
        if not targets:
            return _SKIP
        return ref_id(draw, ver, draw(st.sampled_from(targets)))
    if k == "object-ref":
        if ctx.container is None:
            return _SKIP
        cands = [key for key, t in ctx.container.items() if key != ctx.self_key and (not desc.get("valid_types") or t in desc["valid_types"])]
        if not cands:
            return _SKIP
        return draw(st.sampled_from(sorted(cands)))
    if k == "list":
        n = draw(st.integers(1, 3))
        out = []
        for _ in range(n):
            v = value_for(draw, ctx, desc["of"], clsname, pname)
            if v is _SKIP:
                break
            out.append(v)
        if not out:
            return _SKIP
        if desc["of"]["kind"] in ("string", "open-vocab") and len(out) > 1 and draw(st.integers(0, 4)) == 0:
            out[-1] = out[0]     # repeated element
        return out
    if k == "dictionary":
        if clsname == "SocketExt" and pname == "options":
            keys = draw(st.lists(st.sampled_from(["SO_RCVBUF", "TCP_NODELAY", "IP_TTL", "SO_X", "ICMP6_FILTER"]), min_size=1, max_size=2, unique=True))
            return {kk: draw(st.integers(0, 65536)) for kk in keys}
        if clsname == "LanguageContent" and pname == "contents":
            langs = draw(st.lists(st.sampled_from(["fr", "de", "es", "ja"]), min_size=1, max_size=2, unique=True))
            return {l: {"name": draw(string_value(opts)) or "n"} for l in langs}
        return draw(dictionary_value(ver, opts))
    if k == "hashes":
        return draw(hashes_value(m, desc))
    if k == "hex":
        return draw(st.one_of(hex_str(2), hex_str(8), st.sampled_from(["00", "FF", "aB01"])))
    if k == "binary":
        return draw(b64_value())
    if k == "embedded":
        if ctx.depth > 4:
            return _SKIP
        return gen_class(draw, ctx, desc["cls"])
    if k == "selector":
        return _SKIP  # granular markings are added after the object is complete
    if k in ("extensions", "observable-container", "stix-object", "marking-definition-body"):
        return _SKIP  # handled by the type-specific code
    raise AssertionError("gen: unknown kind %r" % k)


class _Skip(object):
    def __repr__(self):
        return "_SKIP"


_SKIP = _Skip()
NEVER_GENERIC = {"granular_markings", "extensions", "objects", "definition", "definition_type"}


def gen_class(draw, ctx, clsname, force=()):
    m, ver = ctx.m, ctx.ver
    cls = m.cls(clsname)
    props = cls["properties"]
    ctx.depth += 1
    try:
        required = [n for n, d in props.items() if required_in_spec(n, d, cls, ver)]
        optional = [n for n in props if n not in required and n not in NEVER_GENERIC]
        if ctx.opts.get("minimal"):
            chosen = set()
        elif ctx.opts.get("maximal"):
            chosen = set(optional)
        else:
            chosen = set(draw(st.lists(st.sampled_from(optional), max_size=min(len(optional), ctx.opts.get("max_optional", 6)), unique=True))) if optional else set()
        chosen.update(force)
        doc = {}
        for name, d in props.items():
            if name in NEVER_GENERIC and name not in force:
                continue
            if name in required or name in chosen:
                v = value_for(draw, ctx, d, clsname, name)
                if v is not _SKIP:
                    doc[name] = v
        repair(draw, ctx, clsname, doc)
        return doc
    finally:
        ctx.depth -= 1


def _add(draw, ctx, clsname, doc, name):
    d = ctx.m.props(clsname)[name]
    v = value_for(draw, ctx, d, clsname, name)
    if v is not _SKIP:
        doc[name] = v
        return True
    return False


def repair(draw, ctx, clsname, doc):
    m, ver = ctx.m, ctx.ver
    for c in m.cls(clsname).get("constraints", []):
        k = c["k"]
        if k == "at_least_one":
            if not any(p in doc for p in c["props"]):
                order = draw(st.permutations(c["props"]))
                for p in order:
                    if _add(draw, ctx, clsname, doc, p):
                        break
        elif k == "xor":
            present = [p for p in c["props"] if p in doc]
            if len(present) > 1:
                keep = draw(st.sampled_from(present))
                for p in present:
                    if p != keep:
                        del doc[p]
            elif not present:
                cands = [p for p in c["props"] if p not in ("objects",)] or c["props"]
                for p in draw(st.permutations(cands)):
                    if _add(draw, ctx, clsname, doc, p):
                        break
        elif k == "at_most_one":
            present = [p for p in c["props"] if p in doc]
            for p in present[1:]:
                del doc[p]
        elif k == "requires":
            if c["if"] in doc:
                for p in c["then"]:
                    if p not in doc and not _add(draw, ctx, clsname, doc, p):
                        del doc[c["if"]]
                        break
        elif k == "order":
            a, b = doc.get(c["a"]), doc.get(c["b"])
            if a is not None and b is not None:
                ka, kb = ts_sort_key(a), ts_sort_key(b)
                if kb < ka:
                    doc[c["a"]], doc[c["b"]] = b, a
                    ka, kb = kb, ka
                if c["strict"] and ka == kb:
                    if required_in_spec(c["b"], m.props(clsname)[c["b"]], m.cls(clsname), ver):
                        pass
                    else:
                        del doc[c["b"]]
        elif k == "special":
            globals()["fix_" + c["name"].replace("-", "_")](draw, ctx, clsname, doc)
    # constraints that removed things can break an earlier "requires"; re-check the cheap ones once
    for c in m.cls(clsname).get("constraints", []):
        if c["k"] == "requires" and c["if"] in doc and any(p not in doc for p in c["then"]):
            del doc[c["if"]]
        if c["k"] == "xor":
            present = [p for p in c["props"] if p in doc]
            for p in present[1:]:
                del doc[p]


def fix_email_multipart(draw, ctx, cls, doc):
    if doc.get("is_multipart") is True:
        doc.pop("body", None)
    else:
        doc.pop("body_multipart", None)


def fix_non_empty(draw, ctx, cls, doc):
    if not doc:
        props = ctx.m.props(cls)
        for p in draw(st.permutations(sorted(props))):
            if _add(draw, ctx, cls, doc, p):
                break


def fix_process_non_empty(draw, ctx, cls, doc):
    own = [k for k in doc if k not in ("type", "id", "spec_version", "defanged", "object_marking_refs", "granular_markings")]
    if not own:
        _add(draw, ctx, cls, doc, draw(st.sampled_from(["pid", "cwd", "command_line", "is_hidden"])))


def fix_socket_options(draw, ctx, cls, doc):
    pass  # value_for builds legal options


def fix_marking_definition(draw, ctx, cls, doc):
    pass  # built by marking_definition()


def fix_stix_pattern(draw, ctx, cls, doc):
    pass  # patterns are drawn valid


def fix_observed_data_container(draw, ctx, cls, doc):
    pass


def fix_nt_is_active(draw, ctx, cls, doc):
    if "end" in doc:
        doc["is_active"] = False     # AUDIT: absent is_active together with end is a grey zone, not generated


def fix_location(draw, ctx, cls, doc):
    if ("latitude" in doc) != ("longitude" in doc):
        if draw(st.booleans()):
            _add(draw, ctx, cls, doc, "latitude" if "latitude" not in doc else "longitude")
        else:
            doc.pop("latitude", None)
            doc.pop("longitude", None)
    if "precision" in doc and "latitude" not in doc:
        del doc["precision"]
    if not ("region" in doc or "country" in doc or "latitude" in doc):
        mode = draw(st.sampled_from(["region", "country", "latlong"]))
        if mode == "latlong":
            _add(draw, ctx, cls, doc, "latitude")
            _add(draw, ctx, cls, doc, "longitude")
        elif mode == "country":
            doc["country"] = draw(st.sampled_from(["us", "de", "jp"]))
        else:
            _add(draw, ctx, cls, doc, "region")


def fix_malware_family_name(draw, ctx, cls, doc):
    if doc.get("is_family") is True and "name" not in doc:
        _add(draw, ctx, cls, doc, "name")


def fix_file20_is_encrypted(draw, ctx, cls, doc):
    if "encryption_algorithm" in doc or "decryption_key" in doc:
        doc["is_encrypted"] = True


# ---- whole objects -------------------------------------------------------------------------------------
def all_paths(doc, prefix=""):
    """Every selector path into a JSON document (properties, list elements, nested keys)."""
    out = []
    if isinstance(doc, dict):
        for k, v in doc.items():
            p = prefix + "." + k if prefix else k
            out.append(p)
            out.extend(all_paths(v, p))
    elif isinstance(doc, list):
        for i, v in enumerate(doc):
            p = "%s.[%d]" % (prefix, i)
            out.append(p)
            out.extend(all_paths(v, p))
    return out


def get_path(doc, sel):
    cur = doc
    for comp in sel.split("."):
        m = re.match(r"^\[(\d+)\]$", comp)
        cur = cur[int(m.group(1))] if m else cur[comp]
    return cur


def selector_features(doc, sel):
    """Named features of a selector (used to classify known selector defects)."""
    f = set()
    comps = sel.split(".")
    if len(comps) > 1:
        f.add("nested")
    val = get_path(doc, sel)
    if val in (False, 0, "", 0.0) or val == [] or val == {}:
        f.add("falsy-value")
    if any(re.search(r"[A-Z]", c) for c in comps):
        f.add("uppercase")
    if any(len(c) < 3 and not c.startswith("[") for c in comps[:1]):
        f.add("short-first")
    # element equal to an earlier element of the same list
    cur = doc
    for i, comp in enumerate(comps):
        m = re.match(r"^\[(\d+)\]$", comp)
        if m:
            idx = int(m.group(1))
            if any(cur[j] == cur[idx] for j in range(idx)):
                f.add("dup-element")
            cur = cur[idx]
        else:
            cur = cur[comp]
            if isinstance(cur, dict) and i < len(comps) - 1 and i >= 0:
                f.add("through-object")
    return f


def add_granular_markings(draw, ctx, clsname, doc):
    m, ver = ctx.m, ctx.ver
    if "granular_markings" not in m.props(clsname):
        return
    mode = ctx.opts.get("selectors", "safe")
    if mode == "none" or not draw(st.booleans()):
        return
    # a path step is a property name or a dictionary key: at most 250 characters in 2.1, 256 for 2.0 dictionary keys
    step = 256 if ver == "2.0" else 250
    paths = [p for p in all_paths(doc) if re.match(r"^[a-z0-9_-]{3,250}(\.(\[\d+\]|[a-zA-Z0-9_-]{1,%d}))*\Z" % step, p) or p == "id"]
    if mode == "safe":
        paths = [p for p in paths if "." not in p and get_path(doc, p) not in (False, 0, "", 0.0)]
    if not paths:
        return
    gms = []
    for _ in range(draw(st.integers(1, 2))):
        sels = draw(st.lists(st.sampled_from(sorted(paths)), min_size=1, max_size=3, unique=True))
        longest = max(paths, key=lambda p: (max(len(c) for c in p.split(".")), p))
        if mode != "safe" and len(longest) > 240 and longest not in sels and draw(st.booleans()):
            sels.append(longest)     # a step at the length limit is rare among the paths: preferred when there is one
        gm = {"selectors": sels}
        if ver == "2.1" and draw(st.integers(0, 3)) == 0:
            gm["lang"] = draw(st.sampled_from(LANGS))
        else:
            gm["marking_ref"] = ref_id(draw, ver, "marking-definition")
        gms.append(gm)
    doc["granular_markings"] = gms


def add_extensions(draw, ctx, clsname, doc, host_type):
    m, ver = ctx.m, ctx.ver
    if "extensions" not in m.props(clsname) or ctx.opts.get("no_extensions"):
        return
    exts = {}
    cands = m.exts_for_host(host_type)
    if cands and draw(st.booleans()):
        for e in draw(st.lists(st.sampled_from(cands), min_size=1, max_size=2, unique=True)):
            ev = gen_class(draw, ctx, m.extensions[e])
            cls = m.cls(m.extensions[e])
            if all(n in ev for n, d in cls["properties"].items() if d["required"]) and ev:
                exts[e] = ev
    if ver == "2.1" and draw(st.integers(0, 3)) == 0:
        key = "extension-definition--" + uuid_text(ver, draw, upper_ok=False)
        exts[key] = {"extension_type": "property-extension", "some_prop": draw(string_value(ctx.opts)) or "v", "count": draw(st.integers(0, 9))}
    if ver == "2.1" and ctx.opts.get("toplevel_ext") and draw(st.integers(0, 5)) == 0:
        # an (unregistered) toplevel-property-extension legitimises additional top-level properties; its position among the
        # other extension members is semantically irrelevant and therefore drawn
        key = "extension-definition--" + uuid_text(ver, draw, upper_ok=False)
        entry = {"extension_type": "toplevel-property-extension"}
        exts = dict([(key, entry)] + list(exts.items())) if draw(st.booleans()) else dict(list(exts.items()) + [(key, entry)])
        doc["toplevel_rank"] = draw(st.integers(0, 9))
        if draw(st.booleans()):
            doc["toplevel_note"] = draw(string_value(ctx.opts))
    if exts:
        doc["extensions"] = exts


@st.composite
def sco_container(draw, ver, opts):
    """2.0-style observable container {"0": {...}, ...} with consistent references."""
    m = M.get(ver)
    n = draw(st.integers(1, 4))
    types = [draw(st.sampled_from(m.sco_types)) for _ in range(n)]
    if opts.get("ref_rich"):
        # members chosen so that single- and list-valued object references have right-typed AND wrong-typed targets
        groups = [["email-addr", "user-account", "file"], ["file", "directory", "ipv4-addr"], ["network-traffic", "ipv4-addr", "artifact", "file"],
                  ["process", "file", "user-account", "network-traffic", "domain-name"], ["email-message", "email-addr", "artifact", "mutex"],
                  ["domain-name", "ipv4-addr", "mac-addr"], ["ipv4-addr", "mac-addr", "autonomous-system", "url"], ["windows-registry-key", "user-account", "mutex"]]
        types = list(draw(st.sampled_from(groups)))
        n = len(types)
    if opts.get("member_types"):
        # caller-chosen member types (first one is the member of interest), plus partners so that its references have targets
        types = list(opts["member_types"])
        n = len(types)
    if ver == "2.0" and "network-traffic" in types and not any(t in types for t in ("ipv4-addr", "ipv6-addr", "mac-addr", "domain-name")):
        types.append(draw(st.sampled_from(["ipv4-addr", "ipv6-addr", "mac-addr", "domain-name"])))   # src_ref/dst_ref need a target
        n += 1
    keys = [str(i) for i in range(n)]
    cont_types = dict(zip(keys, types))
    out = {}
    for key, t in zip(keys, types):
        ctx = Ctx(ver, opts, container=cont_types if ver == "2.0" else None, self_key=key)
        o = gen_class(draw, ctx, m.observables[t])
        add_extensions(draw, ctx, m.observables[t], o, t)
        out[key] = o
    return out


@st.composite
def marking_definition(draw, ver, opts):
    m = M.get(ver)
    ctx = Ctx(ver, opts)
    form = draw(st.sampled_from(["tlp", "statement", "statement"] + (["extension"] if ver == "2.1" else [])))
    doc = {"type": "marking-definition"}
    if ver == "2.1":
        doc["spec_version"] = "2.1"
    if form == "tlp":
        color = draw(st.sampled_from(sorted(m.tlp)))
        doc.update({"id": m.tlp[color], "created": m.tlp_created, "definition_type": "tlp", "definition": {"tlp": color}})
        if ver == "2.1":
            doc["name"] = "TLP:" + color.upper()
        return doc
    doc["id"] = "marking-definition--" + uuid_text(ver, draw)
    # AUDIT: whether the 2.0 "exactly three digits" rule covers marking-definition.created is a grey zone;
    # three digits are valid under either reading, so that is what is generated for 2.0
    doc["created"] = draw(timestamp(ver, dict(m.props("MarkingDefinition")["created"], precision="millisecond"), opts))
    if form == "statement":
        doc["definition_type"] = "statement"
        doc["definition"] = {"statement": draw(string_value(opts))}
    else:
        key = "extension-definition--" + uuid_text(ver, draw, upper_ok=False)
        doc["extensions"] = {key: {"extension_type": "property-extension", "level": draw(st.integers(0, 5))}}
    if ver == "2.1" and draw(st.booleans()):
        doc["name"] = draw(string_value(opts))
    if draw(st.booleans()):
        doc["created_by_ref"] = ref_id(draw, ver, "identity")
    if draw(st.integers(0, 3)) == 0:
        doc["object_marking_refs"] = [ref_id(draw, ver, "marking-definition")]
    if draw(st.integers(0, 3)) == 0:
        doc["external_references"] = [gen_class(draw, ctx, "ExternalReference")]
    return doc


def top_types(ver, include_bundle=False):
    m = M.get(ver)
    ts = list(m.sdo_types) + list(m.sro_types) + list(m.meta_types)
    if ver == "2.1":
        ts += list(m.sco_types)
    if include_bundle:
        ts.append("bundle")
    return ts


@st.composite
def valid_object(draw, ver, type_=None, opts=None):
    """A specification-valid top-level object of `ver` (not a bundle)."""
    opts = dict(opts or {})
    m = M.get(ver)
    t = type_ or draw(st.sampled_from(top_types(ver)))
    if t == "marking-definition":
        return draw(marking_definition(ver, opts))
    clsname = m.class_for_type(t)
    ctx = Ctx(ver, opts)
    force = []
    if t == "observed-data":
        if ver == "2.0" or draw(st.integers(0, 4)) == 0:
            force = []
        doc = gen_class(draw, ctx, clsname)
        if ver == "2.0" or ("object_refs" not in doc):
            doc.pop("object_refs", None)
            doc["objects"] = draw(sco_container(ver, opts))
        # key order as the model lists it
        doc = {k: doc[k] for k in m.props(clsname) if k in doc}
    else:
        doc = gen_class(draw, ctx, clsname, force=force)
    add_extensions(draw, ctx, clsname, doc, t)
    if t == "extension-definition" and "extension_properties" in doc and "toplevel-property-extension" not in doc.get("extension_types", []):
        del doc["extension_properties"]
    add_granular_markings(draw, ctx, clsname, doc)
    return doc


@st.composite
def bundle(draw, ver, opts=None, min_members=0, max_members=4, mixed=False):
    opts = dict(opts or {})
    doc = {"type": "bundle", "id": "bundle--" + uuid_text(ver, draw)}
    if ver == "2.0":
        doc["spec_version"] = "2.0"
    n = draw(st.integers(min_members, max_members))
    members = []
    for _ in range(n):
        mv = ver
        if mixed and ver == "2.1" and draw(st.integers(0, 3)) == 0:
            mv = "2.0"
        members.append(draw(valid_object(mv, opts=opts)))
    if members or ver == "2.0":
        if members:
            doc["objects"] = members
    return doc


def features(doc, acc=None):
    """Value-class features of a document, for non-triviality rules and the class table."""
    acc = acc if acc is not None else set()
    if isinstance(doc, dict):
        for k, v in doc.items():
            if k == "extensions":
                acc.add("has:extensions")
            if k == "granular_markings":
                acc.add("has:granular_markings")
            if k == "objects":
                acc.add("has:objects")
            features(v, acc)
        if len(doc) > 1 and any(isinstance(v, (dict, list)) for v in doc.values()):
            acc.add("nested")
    elif isinstance(doc, list):
        for v in doc:
            features(v, acc)
    elif isinstance(doc, bool):
        if doc is False:
            acc.add("val:false")
    elif isinstance(doc, float):
        acc.add("val:" + V.float_class(doc))
    elif isinstance(doc, int):
        if doc == 0:
            acc.add("val:zero")
        if abs(doc) > 2 ** 53:
            acc.add("val:int>2^53")
    elif isinstance(doc, str):
        if doc == "":
            acc.add("val:empty-string")
        elif tsref.CANON_RE.match(doc):
            frac = doc.split(".")[1][:-1] if "." in doc else ""
            if len(frac) > 3:
                acc.add("ts:>3-digits")
            if frac.endswith("0") and frac:
                acc.add("ts:trailing-zero")
            if doc < "1000":
                acc.add("ts:year<1000")
        else:
            for c in V.text_class(doc):
                if c != "str:plain-ascii":
                    acc.add(c)
    return acc
