"""Corruption engine (DESIGN 1.2(4)): enumerates every (path, corruption kind)
single-point edit of a valid document, guided by the frozen model.
A corruption is a JSON dict {"path": [...], "op": "set"|"del"|"add", "kind": str, "value": ...}.
"""
import copy

from oracle import model as M

WRONG_KINDS = [("null", None), ("true", True), ("zero", 0), ("neg", -1), ("float", 1.5), ("empty-str", ""), ("str", "x"),
               ("empty-list", []), ("list-null", [None]), ("list-str", ["x"]), ("nested-list", [[1]]), ("empty-obj", {}),
               ("obj", {"a": 1}), ("obj-null", {"a": None}), ("numeric-str", "5"), ("bool-str", "true")]

BAD_UUIDS = [
    ("braces", "{3f2504e0-4f89-41d3-9a0c-0305e82c3301}"), ("urn", "urn:uuid:3f2504e0-4f89-41d3-9a0c-0305e82c3301"),
    ("no-hyphens", "3f2504e04f8941d39a0c0305e82c3301"), ("short", "3f2504e0-4f89-41d3-9a0c-0305e82c33"),
    ("trailing-newline", "3f2504e0-4f89-41d3-9a0c-0305e82c3301\n"), ("nil", "00000000-0000-0000-0000-000000000000"),
    ("max", "ffffffff-ffff-ffff-ffff-ffffffffffff"), ("ncs-variant", "3f2504e0-4f89-41d3-1a0c-0305e82c3301"),
    ("not-hex", "3f2504e0-4f89-41d3-9a0c-0305e82c33zz"), ("empty", ""), ("spaces", " 3f2504e0-4f89-41d3-9a0c-0305e82c3301 "),
    # a well-formed UUID followed / preceded by characters that lenient UUID readers (uuid.UUID) silently drop
    ("trailing-brace", "3f2504e0-4f89-41d3-9a0c-0305e82c3301}"), ("trailing-hyphen", "3f2504e0-4f89-41d3-9a0c-0305e82c3301-"),
    ("trailing-urn", "3f2504e0-4f89-41d3-9a0c-0305e82c3301urn:"), ("leading-brace", "{3f2504e0-4f89-41d3-9a0c-0305e82c3301"),
    ("trailing-braces", "3f2504e0-4f89-41d3-9a0c-0305e82c3301}}"), ("trailing-uuid-word", "3f2504e0-4f89-41d3-9a0c-0305e82c3301uuid:"),
    ("trailing-text", "3f2504e0-4f89-41d3-9a0c-0305e82c3301x"),
]
V1_UUID = "e4b1c2d0-7e2c-11ea-bc55-0242ac130003"

BAD_TS = [("no-z", "2020-01-01T00:00:00"), ("lower-z", "2020-01-01T00:00:00z"), ("space", "2020-01-01 00:00:00Z"),
          ("offset", "2020-01-01T00:00:00+00:00"), ("month-13", "2020-13-01T00:00:00Z"), ("feb-30", "2020-02-30T00:00:00Z"),
          ("hour-24", "2020-01-01T24:00:00Z"), ("two-digit-year", "20-01-01T00:00:00Z"), ("empty", ""), ("date-only", "2020-01-01"),
          ("no-t", "2020-01-0100:00:00Z"), ("dot-no-digits", "2020-01-01T00:00:00.Z"), ("epoch-int", 1577836800),
          ("trailing-newline", "2020-01-01T00:00:00Z\n"), ("lower-t", "2020-01-01t00:00:00Z"), ("sec-60", "2020-01-01T00:00:60Z")]


def walk(doc, clsname, ver, path=(), container=False):
    """Yields (path, value, descriptor, owner_class) for every model-known slot, recursively."""
    m = M.get(ver)
    props = m.props(clsname)
    for name, val in doc.items():
        d = props.get(name)
        if d is None:
            continue
        p = path + (name,)
        yield p, val, d, clsname
        yield from walk_value(val, d, ver, p)


def walk_value(val, d, ver, p):
    m = M.get(ver)
    k = d["kind"]
    if k == "list" and isinstance(val, list):
        for i, x in enumerate(val):
            yield p + (i,), x, d["of"], None
            yield from walk_value(x, d["of"], ver, p + (i,))
    elif k == "embedded" and isinstance(val, dict):
        yield from walk(val, d["cls"], ver, p)
    elif k == "extensions" and isinstance(val, dict):
        for key, ev in val.items():
            if key in m.extensions and isinstance(ev, dict):
                yield from walk(ev, m.extensions[key], ver, p + (key,))
    elif k == "observable-container" and isinstance(val, dict):
        for key, o in val.items():
            if isinstance(o, dict) and o.get("type") in m.observables:
                yield from walk(o, m.observables[o["type"]], ver, p + (key,), container=True)
    elif k == "marking-definition-body" and isinstance(val, dict):
        pass


def _set(path, kind, value):
    return {"path": list(path), "op": "set", "kind": kind, "value": value}


def corruptions(doc, ver, clsname=None, dictionary=None):
    """All single-point corruptions of `doc` (a valid top-level object of `ver`)."""
    m = M.get(ver)
    clsname = clsname or m.class_for_type(doc["type"]) or m.observables[doc["type"]]
    out = []
    all_types = sorted(set(M.get("2.0").all_known_types()) | set(M.get("2.1").all_known_types()) | {"x-custom", "bundle", "", "Identity", "foo"})
    for p, val, d, owner in walk(doc, clsname, ver):
        k = d["kind"]
        leaf = p[-1]
        if not isinstance(leaf, int):
            out.append({"path": list(p), "op": "del", "kind": "remove", "value": None})
        for name, wv in WRONG_KINDS:
            if wv == val and type(wv) is type(val):
                continue
            out.append(_set(p, "kind:" + name, wv))
        if "fixed" in d:
            out.append(_set(p, "fixed:other", "other-value"))
            if leaf == "spec_version":
                out.extend([_set(p, "fixed:2.0", "2.0"), _set(p, "fixed:2.2", "2.2")])
            continue
        if k in ("integer", "float"):
            if d.get("min") is not None:
                out.append(_set(p, "bound:min-1", d["min"] - 1))
            if d.get("max") is not None:
                out.append(_set(p, "bound:max+1", d["max"] + 1))
            out.append(_set(p, "num:huge", 10 ** 30))
            out.append(_set(p, "num:neg-huge", -10 ** 30))
            if k == "integer":
                out.extend([_set(p, "num:fraction", 1.5), _set(p, "num:integral-float", 3.0), _set(p, "num:string", "7")])
            for txt in ("nan", "NaN", "inf", "-inf", "Infinity", "1e999", " 5 ", "0x10", "1_0"):
                out.append(_set(p, "num:text:" + txt.strip(), txt))     # text that float()/int() may coerce
        elif k in ("enum", "open-vocab"):
            out.append(_set(p, "vocab:out", "zzz-not-in-vocabulary"))
            if d["allowed"]:
                out.append(_set(p, "vocab:case", d["allowed"][0].upper() if d["allowed"][0].upper() != d["allowed"][0] else d["allowed"][0].lower()))
                out.append(_set(p, "vocab:suffix", d["allowed"][0] + "x"))
                out.append(_set(p, "vocab:trailing-newline", d["allowed"][0] + "\n"))
        elif k == "id":
            prefix = d["prefix"]
            for name, u in BAD_UUIDS:
                out.append(_set(p, "id:" + name, prefix + u))
            out.append(_set(p, "id:wrong-prefix", "foo--3f2504e0-4f89-41d3-9a0c-0305e82c3301"))
            out.append(_set(p, "id:no-separator", prefix[:-2] + "-3f2504e0-4f89-41d3-9a0c-0305e82c3301"))
            out.append(_set(p, "id:only-separator", "--"))
            out.append(_set(p, "id:upper-type", prefix.upper() + "3f2504e0-4f89-41d3-9a0c-0305e82c3301"))
            out.append(_set(p, "id:uuid-v1", prefix + V1_UUID))
            out.append(_set(p, "id:other-valid-uuid", prefix + "7e4ba2c2-6b3e-4a0f-9a6e-0e2f5f5d0a11"))
            out.append(_set(p, "id:double-separator", prefix + "evil--3f2504e0-4f89-41d3-9a0c-0305e82c3301"))
        elif k == "reference":
            cur_t = val.split("--")[0] if isinstance(val, str) else ""
            for t in all_types:
                if t != cur_t:
                    out.append(_set(p, "ref:type=" + (t or "empty"), t + "--3f2504e0-4f89-41d3-9a0c-0305e82c3301"))
            for name, u in BAD_UUIDS:
                out.append(_set(p, "ref:" + name, cur_t + "--" + u))
            out.append(_set(p, "ref:uuid-v1", cur_t + "--" + V1_UUID))
            out.append(_set(p, "ref:double-separator", cur_t + "--evil--3f2504e0-4f89-41d3-9a0c-0305e82c3301"))
            out.append(_set(p, "ref:double-separator-only", cur_t + "----3f2504e0-4f89-41d3-9a0c-0305e82c3301"))
        elif k == "timestamp":
            for name, t in BAD_TS:
                out.append(_set(p, "ts:" + name, t))
            out.append(_set(p, "ts-other-valid", "2001-02-03T04:05:06.000Z"))
        elif k == "dictionary":
            out.append(_set(p, "dict:short-key", {"ab": 1}))
            out.append(_set(p, "dict:one-char-key", {"a": 1}))
            out.append(_set(p, "dict:bad-char-key", {"a b": 1}))
            out.append(_set(p, "dict:dot-key", {"a.b": 1}))
            out.append(_set(p, "dict:long-key-251", {"k" * 251: 1}))
            out.append(_set(p, "dict:long-key-257", {"k" * 257: 1}))
            out.append(_set(p, "dict:null-value", {"key": None}))
            out.append(_set(p, "dict:empty-list-value", {"key": []}))
            out.append(_set(p, "dict:empty-key", {"": 1}))
            out.append(_set(p, "dict:trailing-newline-key", {"abc\n": 1}))
            # nulls and empty lists below the first level of the value (lists in lists, dictionaries in lists ...)
            out.append(_set(p, "dict:null-in-list", {"key": ["a", None]}))
            out.append(_set(p, "dict:null-in-list-last-of-many", {"key": ["a", "b", "c", "d", "e", "f", "g", "h", "i", "j", None]}))
            out.append(_set(p, "dict:null-in-nested-dict", {"key": {"inner": None}}))
            out.append(_set(p, "dict:null-deep", {"key": [{"inner": ["a", None]}]}))
            out.append(_set(p, "dict:empty-list-in-list", {"key": [["a"], []]}))
            out.append(_set(p, "dict:empty-list-in-nested-dict", {"key": {"inner": []}}))
            out.append(_set(p, "dict:empty-list-deep", {"key": [{"inner": [[]]}]}))
            out.append(_set(p, "dict:null-second-key", {"good": "v", "key": None}))
        elif k == "hashes":
            out.append(_set(p, "hash:unknown-alg", {"FOO-99": "abcd"}))
            out.append(_set(p, "hash:custom-alg", {"x_custom": "abcd"}))
            out.append(_set(p, "hash:bad-md5", {"MD5": "zz"}))
            out.append(_set(p, "hash:short-sha256", {"SHA-256": "abcd"}))
            out.append(_set(p, "hash:nonstring", {"MD5": 5}))
            out.append(_set(p, "hash:other-version-alg", {"SHA-224" if ver == "2.1" else "TLSH": "a" * (56 if ver == "2.1" else 70)}))
            out.append(_set(p, "hash:respelled", {"md5": "d41d8cd98f00b204e9800998ecf8427e"}))
            out.append(_set(p, "hash:md5-trailing-newline", {"MD5": "d41d8cd98f00b204e9800998ecf8427e\n"}))
            out.append(_set(p, "hash:sha256-trailing-newline", {"SHA-256": "ab" * 32 + "\n"}))
            out.append(_set(p, "hash:md6-not-hex", {"MD6": "a" * 32 + "zzz"}))
        elif k == "hex":
            out.extend([_set(p, "hex:odd", "abc"), _set(p, "hex:non-hex", "zz"), _set(p, "hex:0x", "0x1f"), _set(p, "hex:trailing-newline", "ab\n")])
        elif k == "binary":
            out.extend([_set(p, "b64:garbage", "!!!"), _set(p, "b64:bad-padding", "abc"), _set(p, "b64:inner-space", "ab cd"), _set(p, "b64:urlsafe", "ab-_"), _set(p, "b64:trailing-newline", "AAAA\n")])
        elif k == "selector":
            out.extend([_set(p, "selector:absent", "no_such_property"), _set(p, "selector:index-past-end", "labels.[99]"),
                        _set(p, "selector:syntax", "a..b"), _set(p, "selector:upper-first", "Name"), _set(p, "selector:trailing-newline", "type\n"),
                        _set(p, "selector:index-into-string", "type.[0]"), _set(p, "selector:index-into-string:id", "id.[2]"), _set(p, "selector:key-under-string", "type.abc")])
        elif k == "extensions":
            out.append(_set(p, "ext:unknown", {"x-unknown-ext": {"a": 1}}))
            out.append(_set(p, "ext:nondict-value", {"archive-ext": 5}))
            out.append(_set(p, "ext:bad-extdef-id", {"extension-definition--nope": {"extension_type": "property-extension", "a": 1}}))
            if ver == "2.1":
                E = "extension-definition--3f2504e0-4f89-41d3-9a0c-0305e82c3301"
                out.append(_set(p, "ext:null-in-unregistered-body", {E: {"extension_type": "property-extension", "a": None}}))
                out.append(_set(p, "ext:empty-list-in-unregistered-body", {E: {"extension_type": "property-extension", "a": []}}))
                out.append(_set(p, "ext:null-deep-in-unregistered-body", {E: {"extension_type": "property-extension", "a": {"b": ["x", None]}}}))
                if len(p) == 1:
                    # the properties an unregistered top-level extension adds to the object itself
                    T = {E: {"extension_type": "toplevel-property-extension"}}
                    out.append(dict(_set(p, "ext:null-in-toplevel-extension-property", T), also_set_top={"toplevel_extra": {"a": None}}))
                    out.append(dict(_set(p, "ext:empty-list-in-toplevel-extension-property", T), also_set_top={"toplevel_extra": {"a": {"b": []}}}))
                    out.append(dict(_set(p, "ext:null-in-list-toplevel-extension-property", T), also_set_top={"toplevel_extra": ["x", None]}))
                    out.append(dict(_set(p, "ext:plain-toplevel-extension-property", T), also_set_top={"toplevel_extra": {"a": ["x"]}}))
        elif k == "pattern":
            out.extend([_set(p, "pattern:syntax", "[file:name = ]"), _set(p, "pattern:unbalanced", "[file:name = 'a'"), _set(p, "pattern:text", "not a pattern")])
        elif k == "string":
            pass
        elif k == "list":
            pass
    # 2.0 observed-data: object references must name an existing container member of a permitted type
    cont = doc.get("objects") if isinstance(doc.get("objects"), dict) else None
    if cont is not None and ver == "2.0":
        for p, val, d, owner in walk(doc, clsname, ver):
            if d["kind"] != "object-ref" or not isinstance(val, str):
                continue
            allowed = d.get("valid_types")
            out.append(_set(p, "objref:dangling", "99"))
            out.append(_set(p, "objref:dangling-name", "no-such-key"))
            for key2, o2 in cont.items():
                if key2 != val and isinstance(o2, dict) and allowed and o2.get("type") not in allowed:
                    out.append(_set(p, "objref:wrong-type=" + str(o2.get("type")), key2))
        # a member of a type no reference slot of the document permits makes wrong-type targets available
        out.append({"path": ["objects", "98"], "op": "add", "kind": "objref:extra-member", "value": {"type": "mutex", "name": "m"}})

    # unknown / case-duplicate properties at top level and in every embedded object
    out.append({"path": ["foo_unknown"], "op": "add", "kind": "unknown-property", "value": 1})
    out.append({"path": ["x_custom"], "op": "add", "kind": "unknown-x-property", "value": "v"})
    for key in list(doc)[:4]:
        if key.lower() == key and key.upper() != key:
            out.append({"path": [key.capitalize()], "op": "add", "kind": "case-duplicate-key", "value": copy.deepcopy(doc[key])})
    for p, val, d, owner in walk(doc, clsname, ver):
        if d["kind"] == "embedded" and isinstance(val, dict):
            out.append({"path": list(p) + ["foo_unknown"], "op": "add", "kind": "unknown-property-nested", "value": 1})
            out.extend(constraint_breaks(val, ver, d["cls"], p))
        if d["kind"] == "extensions" and isinstance(val, dict):
            for key, ev in val.items():
                if key in m.extensions:
                    out.append({"path": list(p) + [key, "foo_unknown"], "op": "add", "kind": "unknown-property-in-extension", "value": 1})
                    if isinstance(ev, dict):
                        out.extend(constraint_breaks(ev, ver, m.extensions[key], p + (key,)))
        if d["kind"] == "observable-container" and isinstance(val, dict):
            for key, o in val.items():
                if isinstance(o, dict) and o.get("type") in m.observables:
                    out.extend(constraint_breaks(o, ver, m.observables[o["type"]], p + (key,)))
                    out.append({"path": list(p) + [key, "foo_unknown"], "op": "add", "kind": "unknown-property-in-container-member", "value": 1})
    # optional properties not present: add with a wrong-kind value, and present co-constraint partners
    for c in constraint_breaks(doc, ver, clsname):
        out.append(c)
    # the fixed TLP instances: colour, identifier (and 2.1 name) belong together -- pair each with another instance's
    if doc.get("type") == "marking-definition" and doc.get("definition_type") == "tlp" and isinstance(doc.get("definition"), dict):
        cur = doc["definition"].get("tlp")
        for color in sorted(m.tlp):
            if color == cur:
                continue
            out.append(_set(("definition", "tlp"), "tlp:other-colour=" + color, color))
            out.append(_set(("id",), "tlp:other-instance-id=" + color, m.tlp[color]))
            if "name" in doc:
                out.append({"path": ["definition", "tlp"], "op": "set", "kind": "tlp:other-colour-and-name=" + color, "value": color, "also_set_top": {"name": "TLP:" + color.upper()}})
                out.append(_set(("name",), "tlp:other-instance-name=" + color, "TLP:" + color.upper()))
        if "name" in doc:
            out.append(_set(("name",), "tlp:other-name", "foo"))
    out.append(_set(("type",), "type:other", "identity" if doc.get("type") != "identity" else "malware"))
    out.append(_set(("type",), "type:unknown", "no-such-type"))
    return out


def constraint_breaks(doc, ver, clsname, path=()):
    """Edits that break one co-constraint each (where expressible as a single set/del)."""
    m = M.get(ver)
    out = []
    for c in m.cls(clsname).get("constraints", []):
        k = c["k"]
        if k == "order":
            a, b = doc.get(c["a"]), doc.get(c["b"])
            if isinstance(a, str):
                out.append({"path": list(path) + [c["b"]], "op": "set", "kind": "constraint:order:%s<%s" % (c["b"], c["a"]), "value": "0001-01-01T00:00:00.000Z", "needs_after": a})
                if c["strict"]:
                    out.append({"path": list(path) + [c["b"]], "op": "set", "kind": "constraint:order:%s=%s" % (c["b"], c["a"]), "value": a})
            elif isinstance(b, str):
                out.append({"path": list(path) + [c["a"]], "op": "set", "kind": "constraint:order:%s>%s" % (c["a"], c["b"]), "value": "9999-12-31T23:59:59.999Z"})
        elif k == "at_least_one":
            present = [p for p in c["props"] if p in doc]
            if present:
                out.append({"path": list(path) + [present[0]], "op": "del", "kind": "constraint:at-least-one:none-left", "value": None, "also_del": present[1:]})
        elif k in ("xor", "at_most_one"):
            present = [p for p in c["props"] if p in doc]
            absent = [p for p in c["props"] if p not in doc]
            samples = {"payload_bin": "AAAA", "url": "http://x", "objects": {"0": {"type": "mutex", "name": "m"}},
                       "object_refs": ["file--3f2504e0-4f89-41d3-9a0c-0305e82c3301"], "lang": "en",
                       "marking_ref": "marking-definition--3f2504e0-4f89-41d3-9a0c-0305e82c3301"}
            for p in absent:
                if present and p in samples:
                    out.append({"path": list(path) + [p], "op": "add", "kind": "constraint:xor:both", "value": samples[p]})
                    if isinstance(samples[p], str):
                        # present is present: the second member with a *falsy* value, and the first one falsy next to a truthy second
                        out.append({"path": list(path) + [p], "op": "add", "kind": "constraint:xor:both:second-empty", "value": ""})
                        if isinstance(doc.get(present[0]), str):
                            out.append({"path": list(path) + [p], "op": "add", "kind": "constraint:xor:both:first-empty", "value": samples[p], "also_set": {present[0]: ""}})
        elif k == "requires":
            if c["if"] in doc:
                for p in c["then"]:
                    if p in doc:
                        out.append({"path": list(path) + [p], "op": "del", "kind": "constraint:requires:%s-without-%s" % (c["if"], p), "value": None})
            # the dependent property alone, with an ordinary and with a *falsy* value (truthiness guards are a classic slip)
            for label, val in dependent_samples(m.props(clsname).get(c["if"])):
                out.append({"path": list(path) + [c["if"]], "op": "set", "kind": "constraint:requires:%s-alone:%s" % (c["if"], label), "value": val,
                            "also_del": list(c["then"])})
        elif k == "special":
            n = c["name"]
            if n == "malware-family-name" and "name" in doc:
                out.append({"path": list(path) + ["name"], "op": "del", "kind": "constraint:malware-family-without-name", "value": None, "also_set": {"is_family": True}})
            if n == "nt-is-active" and "end" in doc:
                out.append({"path": list(path) + ["is_active"], "op": "set", "kind": "constraint:end-while-active", "value": True})
            if n == "email-multipart":
                if doc.get("is_multipart") is False and "body" in doc:
                    out.append({"path": list(path) + ["is_multipart"], "op": "set", "kind": "constraint:body-with-multipart", "value": True})
            if n == "location":
                if "latitude" in doc:
                    out.append({"path": list(path) + ["longitude"], "op": "del", "kind": "constraint:latitude-without-longitude", "value": None})
                for label, val in (("value", 5.0), ("zero", 0.0), ("int-zero", 0)):
                    out.append({"path": list(path) + ["precision"], "op": "set", "kind": "constraint:precision-without-coordinates:" + label, "value": val,
                                "also_del": ["latitude", "longitude"], "also_set": {"region": "africa"}})
                for label, val in (("zero", 0.0), ("value", 10.5)):
                    out.append({"path": list(path) + ["latitude"], "op": "set", "kind": "constraint:latitude-alone:" + label, "value": val,
                                "also_del": ["longitude"], "also_set": {"region": "africa"}})
                    out.append({"path": list(path) + ["longitude"], "op": "set", "kind": "constraint:longitude-alone:" + label, "value": val,
                                "also_del": ["latitude"], "also_set": {"region": "africa"}})
                out.append({"path": list(path) + ["region"], "op": "del", "kind": "constraint:location-nowhere", "value": None, "also_del": ["country", "latitude", "longitude", "precision"]})
            if n == "malware-family-name":
                out.append({"path": list(path) + ["is_family"], "op": "set", "kind": "constraint:malware-family-without-name:2", "value": True, "also_del": ["name"]})
            if n == "file20-is-encrypted":
                for label, val in (("value", "k"), ("empty", "")):
                    out.append({"path": list(path) + ["decryption_key"], "op": "set", "kind": "constraint:decryption_key-on-unencrypted:" + label, "value": val, "also_set": {"is_encrypted": False}})
            if n == "socket-options" and "options" in doc:
                out.append({"path": list(path) + ["options"], "op": "set", "kind": "constraint:socket-option-key", "value": {"FOO_BAR": 1}})
                out.append({"path": list(path) + ["options"], "op": "set", "kind": "constraint:socket-option-value", "value": {"SO_RCVBUF": "big"}})
                out.append({"path": list(path) + ["options"], "op": "set", "kind": "constraint:socket-option-value:boolean", "value": {"SO_RCVBUF": True}})
                out.append({"path": list(path) + ["options"], "op": "set", "kind": "constraint:socket-option-value:second-of-two", "value": {"SO_RCVBUF": 1, "SO_SNDBUF": "big"}})
    return out


def dependent_samples(desc):
    if desc is None:
        return []
    k = desc["kind"]
    if k in ("string", "open-vocab"):
        return [("value", "k"), ("empty", "")]
    if k == "enum":
        return [("value", desc["allowed"][0])]
    if k == "float":
        return [("value", 1.5), ("zero", 0.0), ("int-zero", 0)]
    if k == "integer":
        return [("value", 3), ("zero", 0)]
    if k == "boolean":
        return [("true", True), ("false", False)]
    if k == "binary":
        return [("value", "AAAA")]
    return []


def apply(doc, c):
    """Returns the corrupted deep copy."""
    out = copy.deepcopy(doc)
    cur = out
    path = c["path"]
    for comp in path[:-1]:
        cur = cur[comp]
    leaf = path[-1]
    if c["op"] == "del":
        if isinstance(cur, dict):
            cur.pop(leaf, None)
    else:
        if isinstance(cur, list):
            cur[leaf] = copy.deepcopy(c["value"])
        else:
            cur[leaf] = copy.deepcopy(c["value"])
            if c.get("first"):
                # the new member is listed before the members that were there (JSON objects are unordered: the answer may not depend on it)
                items = [(leaf, cur[leaf])] + [(k, v) for k, v in cur.items() if k != leaf]
                cur.clear()
                cur.update(items)
    for k, v in (c.get("also_set_top") or {}).items():
        out[k] = v
    if c.get("also_set") or c.get("also_del"):
        parent = out
        for comp in path[:-1]:
            parent = parent[comp]
        for k, v in (c.get("also_set") or {}).items():
            if k != leaf:
                parent[k] = v
        for k in c.get("also_del") or []:
            if k != leaf and isinstance(parent, dict):
                parent.pop(k, None)
    return out
