#!/usr/bin/env python3
"""Helper used while repairing /repo: exact single substitutions + suite run + commit.

usage (from python): import applyfix; applyfix.sub(path, old, new); applyfix.commit(msg)
"""
import subprocess


def sub(path, old, new, count=1):
    path = "/repo/" + path
    s = open(path).read()
    assert s.count(old) == count, (path, old, s.count(old))
    open(path, "w").write(s.replace(old, new))


def commit(msg):
    out = subprocess.run("/verif/tools/repotests.sh | tail -1", shell=True, capture_output=True, text=True).stdout.strip()
    print(out)
    assert "2433 passed" in out and "45 failed" in out, out
    subprocess.check_call(["git", "-C", "/repo", "commit", "-qam", msg])
    print(subprocess.run(["git", "-C", "/repo", "log", "--oneline", "-1"], capture_output=True, text=True).stdout.strip())
