#!/bin/sh
# Quiet-on-unchanged-tree sweep: every registered quick check at VERIF_SEED in $1 (default "2 3 4 5"), 4 at a time.
cd "$(dirname "$0")/.."
SEEDS="${1:-2 3 4 5}"
OUT=$(mktemp -d)
for s in $SEEDS; do
  python3 -c "import json; print(' '.join(c['property_id'] for c in json.load(open('MANIFEST.json'))['checks']))" | tr ' ' '\n' | \
    xargs -P 4 -I{} sh -c "VERIF_SEED=$s VERIF_OUT=$OUT ./check {} quick > $OUT/{}_$s.log 2>&1; echo \"seed=$s {} rc=\$? \$(grep -m2 -E 'VIOLATION|HARNESS' $OUT/{}_$s.log | cut -c1-200)\""
done
rm -rf "$OUT"
