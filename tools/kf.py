#!/usr/bin/env python3
"""Maintain known_findings.json (never called by checks).
  tools/kf.py add  <Cxx> <key> <open|fixed> <replay-file> "<what>" [commit]
"""
import json, os, sys
HERE = os.path.dirname(os.path.dirname(os.path.abspath(__file__)))
P = os.path.join(HERE, "known_findings.json")
def main():
    cmd, pid, key, status, rfile, what = sys.argv[1:7]
    commit = sys.argv[7] if len(sys.argv) > 7 else None
    d = json.load(open(P))
    rec = json.load(open(rfile))
    assert rec["property"] == pid, rec["property"]
    e = {"property": pid, "key": key, "status": status, "what": what, "witness": rec["case"]}
    if status == "fixed":
        e["commit"] = commit
        e["record"] = "fixed: property=%s %s %s" % (pid, commit, what)
    if any(x["property"] == pid and x["key"] == key for x in d["findings"]) and "--replace" not in sys.argv:
        sys.exit("an entry %s %s exists: use a 'key#n' name for another fix in the same bucket, or pass --replace" % (pid, key))
    d["findings"] = [x for x in d["findings"] if not (x["property"] == pid and x["key"] == key)] + [e]
    d["findings"].sort(key=lambda x: (x["property"], x["key"]))
    json.dump(d, open(P, "w"), indent=1, sort_keys=True); open(P, "a").write("\n")
    print("recorded", pid, key, status)
main()
