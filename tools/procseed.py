#!/usr/bin/env python3
"""Process one seeding agent's output directory:

  tools/procseed.py /tmp/seed2_C01_out C01 C,D [extra checks e.g. C15]

runs tools/seedcheck.py for sub-directories A and B (in parallel), prints a summary, and archives each confirmed change
under seeded/<pid>-<letter> (letters given as third argument, for A and B respectively).  A change missed by the
property's own check is still archived (meta.json records the miss) -- strengthen the check, then re-run with
  tools/procseed.py ... --recheck A      (re-runs only the checks, merges 'before strengthening' into meta.json)
"""
import json
import os
import subprocess
import sys

HERE = os.path.dirname(os.path.dirname(os.path.abspath(__file__)))


def summary(sc):
    out = ["clean=%s patched=%s suite_ok=%s" % (sc.get("demo_clean_rc"), sc.get("demo_patched_rc"), sc.get("suite_ok"))]
    for k, v in sc["checks"].items():
        out.append("   %s %s %s %s" % (k, "DETECTED" if v["detected"] else "MISSED", [r["failures"][:1] for r in v["runs"]][:2], [r["harness"] for r in v["runs"] if r["harness"]]))
    return "\n".join(out)


def main():
    src, pid, letters = sys.argv[1], sys.argv[2], sys.argv[3].split(",")
    rest = sys.argv[4:]
    recheck = None
    if "--recheck" in rest:
        i = rest.index("--recheck")
        recheck = rest[i + 1]
        rest = rest[:i] + rest[i + 2:]
    checks = ",".join([pid] + rest)
    subs = ["A", "B"]
    jobs = []
    for sub, letter in zip(subs, letters):
        if recheck and sub != recheck:
            continue
        d = os.path.join(src, sub)
        if not os.path.exists(os.path.join(d, "patch.diff")):
            print(sub, "no patch.diff")
            continue
        out = "/tmp/sc_%s_%s%s.json" % (os.path.basename(src.rstrip("/")), sub, ".re" if recheck else "")
        cmd = [sys.executable, os.path.join(HERE, "tools", "seedcheck.py"), d, checks] + (["--skip-tests"] if recheck else [])
        jobs.append((sub, letter, d, out, subprocess.Popen(cmd, stdout=open(out, "w"), stderr=subprocess.STDOUT)))
    for sub, letter, d, out, p in jobs:
        p.wait()
        try:
            sc = json.load(open(out))
        except ValueError:
            print(sub, "seedcheck output unreadable:", open(out).read()[-500:])
            continue
        sid = "%s-%s" % (pid, letter)
        if recheck:
            first = json.load(open(out.replace(".re.json", ".json")))
            merged = dict(first)
            merged["checks"] = {"%s (before strengthening)" % k: v for k, v in first["checks"].items() if not v["detected"]}
            merged["checks"].update({k: v for k, v in first["checks"].items() if v["detected"]})
            merged["checks"].update(sc["checks"])
            sc = merged
            json.dump(sc, open(out, "w"))
        print("== %s (%s)" % (sid, d))
        print(summary(sc))
        if sc.get("demo_clean_rc") == 0 and sc.get("demo_patched_rc") not in (0, None) and sc.get("suite_ok"):
            subprocess.call([sys.executable, os.path.join(HERE, "tools", "keepseed.py"), d, sid, out])
        else:
            print("   NOT CONFIRMED -- not archived")


if __name__ == "__main__":
    main()
