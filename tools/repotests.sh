#!/bin/sh
# Runs the repository's own suite (guard off) and prints the summary line.
cd "${1:-/repo}" && env -u OASIS_OPEN_CTI_PYTHON_STIX2_VERIF /venv/bin/python -m pytest -q -p no:cacheprovider --timeout=900 --continue-on-collection-errors 2>&1 | tail -3
