#!/bin/sh
# Runs every registered quick check (4 at a time) and prints one line per check.
cd "$(dirname "$0")/.."
python3 -c "import json; print(' '.join(c['property_id'] for c in json.load(open('MANIFEST.json'))['checks']))" | tr ' ' '\n' | \
  xargs -P 4 -I{} sh -c './check {} quick > /tmp/allquick_{}.log 2>&1; echo "{} rc=$? $(grep -c KNOWN-FINDING /tmp/allquick_{}.log) known | $(grep -E "^C[0-9]+ quick" /tmp/allquick_{}.log | cut -c1-110) $(grep -m2 -E "VIOLATION|HARNESS" /tmp/allquick_{}.log | cut -c1-160)"'
