#!/usr/bin/env python3
"""Sensitivity helper (DESIGN 1.6): run checks against a scratch copy of /repo
with one change applied, then delete the copy.

  tools/mut.py C20[,C15...] --patch FILE            [--tier quick] [--tests]
  tools/mut.py C20 --sub stix2/x.py 'old' 'new'     (exact, single replacement)

--tests additionally runs the repository's own suite on the scratch copy
(mutants must stay green there to be "realistic").
Exit 0 when every listed check reported a violation (exit 1) on the mutant.
"""
import os
import shutil
import subprocess
import sys
import tempfile


def main():
    a = sys.argv[1:]
    pids = a[0].split(",")
    tier = "quick"
    patch = None
    subs = []
    tests = False
    i = 1
    while i < len(a):
        if a[i] == "--patch":
            patch = os.path.abspath(a[i + 1]); i += 2
        elif a[i] == "--sub":
            subs.append((a[i + 1], a[i + 2], a[i + 3])); i += 4
        elif a[i] == "--tier":
            tier = a[i + 1]; i += 2
        elif a[i] == "--tests":
            tests = True; i += 1
        else:
            raise SystemExit("bad arg " + a[i])
    here = os.path.dirname(os.path.dirname(os.path.abspath(__file__)))
    tmp = tempfile.mkdtemp(prefix="mut-")
    scratch = os.path.join(tmp, "repo")
    ok = True
    try:
        subprocess.check_call(["git", "-C", "/repo", "worktree", "add", "--detach", "-q", scratch, "HEAD"])
        # carry uncommitted edits of /repo too (normally none)
        if patch:
            subprocess.check_call(["git", "-C", scratch, "apply", patch])
        for f, old, new in subs:
            p = os.path.join(scratch, f)
            s = open(p).read()
            if s.count(old) != 1:
                raise SystemExit("substitution target occurs %d times in %s" % (s.count(old), f))
            open(p, "w").write(s.replace(old, new))
        if tests:
            r = subprocess.run("cd %s && /venv/bin/python -m pytest -q -x -p no:cacheprovider --continue-on-collection-errors "
                               "--deselect stix2/test/v20/test_datastore_taxii.py --deselect stix2/test/v21/test_datastore_taxii.py "
                               "-q 2>&1 | tail -5" % scratch, shell=True, env=dict(os.environ, PYTHONPATH=scratch))
        env = dict(os.environ, VERIF_REPO=scratch, VERIF_OUT=tmp)
        for pid in pids:
            r = subprocess.run([os.path.join(here, "check"), pid, tier], env=env, stdout=subprocess.PIPE, stderr=subprocess.STDOUT)
            out = r.stdout.decode(errors="replace")
            lines = [ln for ln in out.splitlines() if ln.startswith(("VIOLATION", "  failure", "HARNESS", "C"))]
            print("[%s] rc=%d" % (pid, r.returncode))
            for ln in lines[:12]:
                print("   " + ln[:300])
            if r.returncode != 1:
                ok = False
    finally:
        subprocess.call(["git", "-C", "/repo", "worktree", "remove", "--force", scratch])
        shutil.rmtree(tmp, ignore_errors=True)
        # replay files written for mutants are not evidence of anything on the real tree
    print("DETECTED" if ok else "MISSED")
    return 0 if ok else 1


if __name__ == "__main__":
    sys.exit(main())
