#!/usr/bin/env python3
"""bootstrap_v2x.json (+) overlay.py -> specmodel/v2x.json (the frozen model the checks load)."""
import json, os, sys
HERE = os.path.dirname(os.path.dirname(os.path.abspath(__file__)))
sys.path.insert(0, os.path.join(HERE, "specmodel"))
import overlay as O

for ver in ("2.0", "2.1"):
    tag = ver.replace(".", "")
    m = json.load(open(os.path.join(HERE, "specmodel", "bootstrap_v%s.json" % tag)))
    for cname, cls in m["classes"].items():
        cls["constraints"] = O.C.get((ver, cname), [])
        for pname, p in cls["properties"].items():
            if pname == "confidence" and p["kind"] == "integer":
                p["min"], p["max"] = 0, 100          # spec: 0-100 (library table has no bounds)
            ov = O.REF_OVERRIDE.get((ver, cname, pname))
            if ov:
                p.update(ov)
            if (ver, cname, pname) in O.OPAQUE:
                p["kind"] = "marking-definition-body"
            p.update(O.PATCH.get((ver, cname, pname), {}))
    m["sdo_types"] = O.SDO_TYPES[ver]
    m["sro_types"] = O.SRO_TYPES
    m["sco_types"] = O.SCO_TYPES
    m["meta_types"] = O.META_TYPES[ver]
    m["ext_hosts"] = O.EXT_HOSTS
    m["tlp"] = O.TLP
    m["tlp_created"] = O.TLP_CREATED
    m["hash_shapes"] = O.HASH_SHAPES
    m["hash_gen_only"] = O.HASH_GEN_ONLY
    out = os.path.join(HERE, "specmodel", "v%s.json" % tag)
    json.dump(m, open(out, "w"), indent=1)
    print("wrote", out)
