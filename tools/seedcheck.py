#!/usr/bin/env python3
"""Confirm a seeded change and run checks against it.

  tools/seedcheck.py <dir with patch.diff + demo.py> <Cxx[,Cyy]> [--tier quick] [--seeds 1,2] [--skip-tests]

Steps (all in a scratch worktree of /repo HEAD, removed afterwards):
  1. demo.py on the clean tree      -> must exit 0
  2. git apply patch.diff
  3. repository suite               -> must still be "45 failed, 2433 passed"
  4. demo.py on the changed tree    -> must exit non-zero
  5. ./check Cxx <tier> with VERIF_REPO=<scratch>, VERIF_OUT=<tmp>  -> DETECTED if any seed exits 1
Prints a JSON summary line at the end.
"""
import json
import os
import shutil
import subprocess
import sys
import tempfile

HERE = os.path.dirname(os.path.dirname(os.path.abspath(__file__)))


def run(cmd, env=None, cwd=None, timeout=3600):
    r = subprocess.run(cmd, shell=isinstance(cmd, str), env=env, cwd=cwd, stdout=subprocess.PIPE, stderr=subprocess.STDOUT, timeout=timeout)
    return r.returncode, r.stdout.decode(errors="replace")


def main():
    d = os.path.abspath(sys.argv[1])
    pids = sys.argv[2].split(",")
    tier, seeds, skip_tests = "quick", ["1"], False
    a = sys.argv[3:]
    i = 0
    while i < len(a):
        if a[i] == "--tier":
            tier = a[i + 1]; i += 2
        elif a[i] == "--seeds":
            seeds = a[i + 1].split(","); i += 2
        elif a[i] == "--skip-tests":
            skip_tests = True; i += 1
        else:
            raise SystemExit("bad arg " + a[i])
    tmp = tempfile.mkdtemp(prefix="seedchk-")
    scratch = os.path.join(tmp, "repo")
    out = {"dir": d, "checks": {}}
    try:
        subprocess.check_call(["git", "-C", "/repo", "worktree", "add", "--detach", "-q", scratch, "HEAD"])
        env = dict(os.environ, PYTHONPATH=scratch, PYTHONDONTWRITEBYTECODE="1")
        rc, o = run(["/venv/bin/python", os.path.join(d, "demo.py")], env=env, cwd=tmp)
        out["demo_clean_rc"] = rc
        rc, o = run(["git", "-C", scratch, "apply", os.path.join(d, "patch.diff")])
        out["patch_applies"] = rc == 0
        if rc != 0:
            out["patch_error"] = o[-500:]
        else:
            if not skip_tests:
                rc, o = run("/venv/bin/python -m pytest -q -p no:cacheprovider --continue-on-collection-errors 2>&1 | tail -1", env=env, cwd=scratch)
                out["suite"] = o.strip()[-120:]
                out["suite_ok"] = "2433 passed" in o and "45 failed" in o
            rc, o = run(["/venv/bin/python", os.path.join(d, "demo.py")], env=env, cwd=tmp)
            out["demo_patched_rc"] = rc
            out["demo_patched_tail"] = o.strip()[-300:]
            for pid in pids:
                res = []
                for s in seeds:
                    e = dict(os.environ, VERIF_REPO=scratch, VERIF_OUT=os.path.join(tmp, "out"), VERIF_SEED=s)
                    rc, o = run([os.path.join(HERE, "check"), pid, tier], env=e)
                    fl = [ln.strip()[:260] for ln in o.splitlines() if ln.startswith("  failure")][:3]
                    res.append({"seed": s, "rc": rc, "failures": fl, "harness": [ln[:200] for ln in o.splitlines() if ln.startswith("HARNESS")][:2]})
                out["checks"][pid] = {"detected": any(r["rc"] == 1 for r in res), "runs": res}
    finally:
        subprocess.call(["git", "-C", "/repo", "worktree", "remove", "--force", scratch])
        shutil.rmtree(tmp, ignore_errors=True)
    print(json.dumps(out, indent=1))


if __name__ == "__main__":
    main()
