#!/venv/bin/python
"""One-time bootstrap of specmodel/v20.json and v21.json from the pinned tree's
property tables (to avoid typing errors).  The output is then audited by hand
(specmodel/AUDIT.md, specmodel/overlay.py) and FROZEN: checks load only the
JSON and never introspect the library to learn what is valid.

Run manually:  PYTHONPATH=/repo /venv/bin/python tools/bootstrap_specmodel.py
"""
import json
import os
import sys

sys.path.insert(0, "/repo")
import stix2  # noqa
import stix2.properties as P  # noqa
from stix2 import registry  # noqa
from stix2.utils import NOW, STIXTypeClass  # noqa

HERE = os.path.dirname(os.path.dirname(os.path.abspath(__file__)))
embedded = {}


def cls_key(cls):
    return cls.__name__


def describe(prop, ver):
    d = {"required": bool(prop.required)}
    if hasattr(prop, "_fixed_value"):
        d["fixed"] = prop._fixed_value
    elif hasattr(prop, "default") and not isinstance(prop, P.IDProperty):
        try:
            v = prop.default()
            d["default"] = "$NOW" if v is NOW else v
        except Exception as e:  # noqa
            d["default"] = "$ERR " + repr(e)
    t = type(prop)
    if t is P.ListProperty:
        d["kind"] = "list"
        c = prop.contained
        if isinstance(c, P.Property):
            d["of"] = describe(c, ver)
        else:
            d["of"] = {"kind": "embedded", "cls": cls_key(c), "required": False}
            walk_class(c, ver)
    elif t is P.StringProperty:
        d["kind"] = "string"
    elif t is P.TypeProperty:
        d["kind"] = "type"
    elif t is P.IDProperty:
        d["kind"] = "id"
        d["prefix"] = prop.required_prefix
    elif t is P.IntegerProperty:
        d["kind"] = "integer"
        d["min"], d["max"] = prop.min, prop.max
    elif t is P.FloatProperty:
        d["kind"] = "float"
        d["min"], d["max"] = prop.min, prop.max
    elif t is P.BooleanProperty:
        d["kind"] = "boolean"
    elif t is P.TimestampProperty:
        d["kind"] = "timestamp"
        d["precision"] = str(prop.precision).lower().replace("precision.", "")
        d["constraint"] = str(prop.precision_constraint).lower().replace("precisionconstraint.", "")
    elif t is P.DictionaryProperty:
        d["kind"] = "dictionary"
    elif t is P.HashesProperty:
        d["kind"] = "hashes"
        d["hash_names"] = list(prop._HashesProperty__spec_hash_names)
    elif t is P.BinaryProperty:
        d["kind"] = "binary"
    elif t is P.HexProperty:
        d["kind"] = "hex"
    elif t is P.ReferenceProperty:
        d["kind"] = "reference"
        d["auth"] = "whitelist" if prop.auth_type == prop._WHITELIST else "blacklist"
        d["generics"] = sorted(g.name for g in prop.generics)
        d["specifics"] = sorted(prop.specifics)
    elif t is P.SelectorProperty:
        d["kind"] = "selector"
    elif t is P.ObjectReferenceProperty:
        d["kind"] = "object-ref"
        d["valid_types"] = prop.valid_types
    elif t is P.EmbeddedObjectProperty:
        d["kind"] = "embedded"
        d["cls"] = cls_key(prop.type)
        walk_class(prop.type, ver)
    elif t is P.EnumProperty:
        d["kind"] = "enum"
        d["allowed"] = list(prop.allowed)
    elif t is P.OpenVocabProperty:
        d["kind"] = "open-vocab"
        d["allowed"] = list(prop.allowed)
    elif t is P.PatternProperty:
        d["kind"] = "pattern"
    elif t is P.ObservableProperty:
        d["kind"] = "observable-container"
    elif t is P.ExtensionsProperty:
        d["kind"] = "extensions"
    elif t is P.STIXObjectProperty:
        d["kind"] = "stix-object"
    elif t is P.Property:
        d["kind"] = "any"
    else:
        d["kind"] = "unknown:" + t.__name__
    return d


def walk_class(cls, ver):
    key = cls_key(cls)
    if key in embedded.setdefault(ver, {}):
        return
    entry = {"properties": {}}
    embedded[ver][key] = entry
    for name, prop in cls._properties.items():
        entry["properties"][name] = describe(prop, ver)
    if hasattr(cls, "_id_contributing_properties"):
        entry["id_contributing"] = list(cls._id_contributing_properties)
    if hasattr(cls, "_type"):
        entry["type"] = cls._type


def main():
    for ver in ("2.0", "2.1"):
        maps = registry.STIX2_OBJ_MAPS[ver]
        model = {"version": ver, "objects": {}, "observables": {}, "markings": {}, "extensions": {}, "classes": {}}
        for cat in ("objects", "observables", "markings", "extensions"):
            for tname, cls in sorted(maps[cat].items()):
                walk_class(cls, ver)
                model[cat][tname] = cls_key(cls)
        model["classes"] = embedded[ver]
        out = os.path.join(HERE, "specmodel", "bootstrap_v%s.json" % ver.replace(".", ""))
        with open(out, "w") as f:
            json.dump(model, f, indent=1, sort_keys=False, default=repr)
        print(out, len(model["classes"]), "classes")


main()
