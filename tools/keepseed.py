#!/usr/bin/env python3
"""Archive a confirmed seeded change:  tools/keepseed.py <src dir> <id e.g. C06-A> <seedcheck json>"""
import json, os, shutil, sys
HERE = os.path.dirname(os.path.dirname(os.path.abspath(__file__)))
src, sid, scj = sys.argv[1:4]
sc = json.load(open(scj))
assert sc.get("demo_clean_rc") == 0 and sc.get("demo_patched_rc") not in (0, None) and sc.get("suite_ok"), "not confirmed: %s" % {k: sc.get(k) for k in ("demo_clean_rc", "demo_patched_rc", "suite_ok", "suite")}
dst = os.path.join(HERE, "seeded", sid)
os.makedirs(dst, exist_ok=True)
for f in ("patch.diff", "demo.py"):
    shutil.copy(os.path.join(src, f), os.path.join(dst, f))
meta = json.load(open(os.path.join(src, "meta.json")))
meta["breaks_property"] = meta.get("property")
meta["confirmed"] = {
    "how": "tools/seedcheck.py: demo.py on a clean scratch worktree of /repo HEAD (exit 0), git apply patch.diff, repository suite (45 failed / 2433 passed as baseline), demo.py again (exit != 0), then the listed checks with VERIF_REPO=<scratch>",
    "demo_clean_rc": sc["demo_clean_rc"], "demo_patched_rc": sc["demo_patched_rc"], "suite": sc.get("suite"),
    "checks": {k: {"detected": v["detected"], "first_failures": [r["failures"][:1] for r in v["runs"]]} for k, v in sc["checks"].items()},
}
json.dump(meta, open(os.path.join(dst, "meta.json"), "w"), indent=1)
print("kept", dst, {k: v["detected"] for k, v in sc["checks"].items()})
