#!/bin/sh
# Re-run the own property's quick check against every archived seeded change of the given properties (default: all), 8 at a time.
# usage: tools/regress.sh [Cxx ...]   -> one line per change: DETECTED / MISSED / NOAPPLY (patch no longer applies to HEAD)
cd "$(dirname "$0")/.."
PIDS="$*"
[ -z "$PIDS" ] && PIDS=$(python3 -c "import json; print(' '.join(c['property_id'] for c in json.load(open('MANIFEST.json'))['checks']))")
OUT=$(mktemp -d)
for p in $PIDS; do ls -d seeded/$p-* ; done | xargs -P 8 -I{} sh -c '
  id=$(basename {}); pid=${id%%-*}
  python3 tools/seedcheck.py {} $pid --skip-tests > '"$OUT"'/$id.json 2>/dev/null
  python3 - '"$OUT"'/$id.json $id <<PY
import json, sys
try:
    d = json.load(open(sys.argv[1]))
except ValueError:
    print(sys.argv[2], "UNREADABLE"); raise SystemExit
if not d.get("patch_applies", True):
    print(sys.argv[2], "NOAPPLY")
else:
    c = list(d["checks"].values())[0]
    print(sys.argv[2], "DETECTED" if c["detected"] else "MISSED", [r["harness"] for r in c["runs"] if r["harness"]][:1] or "")
PY'
rm -rf "$OUT"
