#!/bin/sh
# Thorough tier of every registered check, one after the other (each forks $VERIF_WORKERS workers).
# usage: tools/allthorough.sh [seed] [checks...]   -- evidence/replays go to ./thorough_out (VERIF_OUT), logs to ./thorough_out/logs
cd "$(dirname "$0")/.."
SEED="${1:-1}"; shift 2>/dev/null
CHECKS="$*"
[ -z "$CHECKS" ] && CHECKS=$(python3 -c "import json; print(' '.join(c['property_id'] for c in json.load(open('MANIFEST.json'))['checks']))")
OUT="$(pwd)/thorough_out_$SEED"; mkdir -p "$OUT/logs"
for c in $CHECKS; do
  VERIF_SEED=$SEED VERIF_OUT=$OUT ./check $c thorough > "$OUT/logs/$c.log" 2>&1
  echo "$c seed=$SEED rc=$? $(grep -E "^$c thorough" "$OUT/logs/$c.log" | cut -c1-120) $(grep -m3 -E 'VIOLATION|HARNESS' "$OUT/logs/$c.log" | cut -c1-200)"
done
