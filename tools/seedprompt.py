#!/usr/bin/env python3
"""Prepare a seeding agent: scratch worktree of /repo HEAD + output dir, print the prompt (property text only).

  tools/seedprompt.py Cxx <round-tag> [emphasis text]

The agent gets nothing from /verif -- only the property's text from properties.jsonl.
"""
import json
import os
import subprocess
import sys

HERE = os.path.dirname(os.path.dirname(os.path.abspath(__file__)))

TEMPLATE = """You are helping evaluate a verification effort for the Python library oasis-open/cti-python-stix2 (STIX 2.0/2.1 object model). Your job is to play the role of a developer who introduces a subtle regression.

You have your own scratch git worktree of the library at {wt} (a detached checkout; work ONLY there; never touch /repo or /verif, do not read anything under /verif). Python: /venv/bin/python (run things with PYTHONPATH={wt} so that `import stix2` is your worktree; PYTHONDONTWRITEBYTECODE=1). The library's own test suite: `cd {wt} && PYTHONPATH={wt} /venv/bin/python -m pytest -q -p no:cacheprovider --continue-on-collection-errors 2>&1 | tail -3` -- on the unchanged tree it ends with exactly "45 failed, 2433 passed" (the 45 failures + 2 errors are missing optional dependencies, they are the baseline). No network.

Here is a semantic property that the library is supposed to satisfy (this is all the information you get about the verification effort):

{prop}

TASK: produce TWO different, independent changes (call them A and B) to the library source (under {wt}/stix2, not the tests) such that each change, applied alone to the unchanged tree:
  1. still imports/compiles and the existing test suite result is unchanged (still "45 failed, 2433 passed", same failures);
  2. breaks the property above (a real semantic violation of the statement as written, not merely a style change or a new exception message);
  3. is REALISTIC -- it should look like a plausible refactoring, optimisation, "cleanup", or bug-fix-gone-wrong a maintainer could commit, not sabotage with magic constants;
  4. needs something SPECIFIC to manifest: {emphasis} It must NOT be something that ordinary, everyday use of the library would expose at once.
  A and B should have different root causes in different functions (ideally different files / different clauses of the property).

For each change write into {out}/A/ and {out}/B/ respectively:
  - patch.diff : output of `git -C {wt} diff` for that change alone (must apply with `git apply` to the unchanged tree at HEAD);
  - demo.py    : a small self-contained program (only stdlib + stix2) that exits 0 on the unchanged tree and exits non-zero (assert failure / sys.exit(1)) with the change applied; it demonstrates the property violation. It will be run as `PYTHONPATH=<tree> /venv/bin/python demo.py` from another directory, must not depend on the current time, network, or random values, and must not write outside a tempfile directory it removes.
  - meta.json  : {{"breaks_property": "{pid}", "summary": "<what was changed, file/function, and why it breaks the property>", "needs_to_manifest": "<the specific input / sequence / configuration needed>", "files_touched": [...]}}

Procedure: read the relevant source in your worktree first (the property's anchors point to it). For each change: make it, run the full suite (must be unchanged), run demo.py (must fail), save `git diff` to patch.diff, then `git -C {wt} checkout -- .` and confirm demo.py passes on the clean tree, and that `git -C {wt} apply {out}/X/patch.diff` works; then revert again. Leave the worktree clean (no modifications) at the end. Do not commit anything. Do not create files elsewhere than {out} (and temporary files you delete).

Final answer: a short report for A and B (what changed, what is needed to trigger), plus anything you noticed in the unchanged library that already seems to contradict the property (with a concrete reproducer) -- that is valuable too.
"""

DEFAULT_EMPHASIS = ("for example a particular unusual-but-legal input, a multi-step sequence of operations, a specific combination of options, "
                    "or two cooperating code sites that each look fine alone.")


def main():
    pid, tag = sys.argv[1], sys.argv[2]
    emphasis = sys.argv[3] if len(sys.argv) > 3 else DEFAULT_EMPHASIS
    prop = None
    for line in open(os.path.join(HERE, "properties.jsonl")):
        p = json.loads(line)
        if p["id"] == pid:
            prop = p
    keep = {k: prop[k] for k in ("id", "title", "statement", "quantifier", "anchors")}
    wt = "/tmp/seed%s_%s_wt" % (tag, pid)
    out = "/tmp/seed%s_%s_out" % (tag, pid)
    if not os.path.exists(wt):
        subprocess.check_call(["git", "-C", "/repo", "worktree", "add", "--detach", "-q", wt, "HEAD"])
    os.makedirs(out + "/A", exist_ok=True)
    os.makedirs(out + "/B", exist_ok=True)
    print(TEMPLATE.format(wt=wt, out=out, pid=pid, prop=json.dumps(keep, indent=1), emphasis=emphasis))


if __name__ == "__main__":
    main()
