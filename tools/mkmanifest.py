#!/usr/bin/env python3
"""Regenerates MANIFEST.json from the table below (keeps it schema-valid)."""
import json
import os

HERE = os.path.dirname(os.path.dirname(os.path.abspath(__file__)))

BASELINE_CMD = ("cd /repo && env -u OASIS_OPEN_CTI_PYTHON_STIX2_VERIF /venv/bin/python -m pytest -ra -q -p no:cacheprovider "
                "--timeout=900 --continue-on-collection-errors")

# pid -> (category, technique, level text, level note, design ref)
CHECKS = {
    "C20": ("exploration", "exhaustive enumeration of the finite domain + Hypothesis draws, oracle = frozen spec table",
            "Every integer -1000..1000 and every label / near-miss label is evaluated for all ten functions and compared with a "
            "table transcribed from STIX 2.1 Appendix A (totality, ranges, monotonicity, label round trip, refusals); the 0-100 "
            "domain is enumerated completely, so for the stated domain this is a decision, not a sample.",
            "Trusts the hand transcription of the specification tables in props/c20.py (self-checked to partition 0..100).",
            "DESIGN.md section 2, C20"),
    "C16": ("exploration", "Hypothesis-generated JSON values vs independent RFC 8785 implementation (differential) + metamorphic laws",
            "Tens of thousands of generated JSON values (doubles from raw bit patterns across all exponent ranges, UTF-16/code-point "
            "conflicting key sets, control/astral strings) are canonicalized by the library and by an independent implementation "
            "(oracle/rfc8785.py, self-tested on the RFC's vectors) and compared byte for byte; insertion-order independence, parse-back, "
            "fixed point, whitespace and NaN/Infinity refusal are checked separately. Search, not proof.",
            "Trusts oracle/rfc8785.py (own implementation, RFC appendix vectors as self-test) and Python's float()/json.loads.",
            "DESIGN.md section 2, C16"),
    "C15": ("exploration", "Hypothesis-generated instants/precisions vs integer-arithmetic reference formatter (differential) + fixed-point and order laws",
            "Generated datetimes (naive, offsets -14h..+14h, pytz zones), dates, STIXdatetime and accepted strings across 3 precisions x 2 "
            "constraints, through utils and through 12 TimestampProperty slots of real types, compared with oracle/tsref.py; write-read-write "
            "fixed point and order preservation on pairs 1us..1y apart. Search, not proof.",
            "Trusts oracle/tsref.py (proleptic Gregorian integer arithmetic, self-tested) and pytz for zone offsets.",
            "DESIGN.md section 2, C15"),
    "C03": ("exploration", "model-driven generation of specification-valid objects, strict parse, model-guided content comparison",
            "Objects of every implemented type of STIX 2.0/2.1 are built by construction from a frozen, hand-audited specification model "
            "(optional subsets, co-constraints, vocabularies, reference targets, boundary/falsy values, selectors on any path), pre-checked by "
            "an independent validator, then parsed strictly alone / in a bundle / inside an observed-data container and compared property by "
            "property with the re-serialization. Search over the model's space, not proof; bounded by my reading of the specification.",
            "Trusts specmodel/v20.json, v21.json (transcription audited from memory; specmodel/AUDIT.md) and oracle/validator.py.",
            "DESIGN.md section 2, C03"),
    "C01": ("exploration", "generated objects x drawn option sets; round-trip, byte-identity and cross-option metamorphic relations",
            "Objects of every type (parsed from dict/text or built through constructors with datetime values and clock-supplied defaults, "
            "with custom properties / unregistered top-level extensions, bundles incl. empty and mixed-version) are serialized under the 4 "
            "corner option sets plus 3-6 drawn from the full 128-combination product; parse-back class and equality, byte-for-byte "
            "re-serialization, fp_serialize agreement, JSON equality across options up to spec-default omissions, and pretty key order "
            "against the frozen model are asserted. Search, not proof.",
            "Equality is the library's Mapping equality plus byte identity; specification order/defaults from the frozen model.",
            "DESIGN.md section 2, C01"),
    "C02": ("fault_enumeration", "systematic single-point corruption of generated valid objects (fault enumeration) + independent spec validator on whatever is accepted",
            "For every type of both versions, several generated base objects are subjected to every targeted single-point corruption the "
            "engine derives (bounds, vocabularies incl. dictionary-guided entries, reference target types, identifier/timestamp catalogues, "
            "co-constraints, unknown properties ...) and a stratified sample of the generic wrong-kind replacements (all of them in the "
            "thorough tier), through strict parse (named and auto-detected version) and the class constructor; the eight fixed TLP instances "
            "are enumerated completely; 2-4 point corruptions are drawn. Whatever is accepted must serialize to JSON that the independent "
            "validator (frozen spec model) accepts.",
            "Only specification rules held with high confidence are switched on (specmodel/AUDIT.md); stix2patterns validates patterns.",
            "DESIGN.md section 2, C02"),
}

NOT_YET = {}


def main():
    props = [json.loads(l) for l in open(os.path.join(HERE, "properties.jsonl"))]
    checks = []
    na = []
    for p in props:
        pid = p["id"]
        if pid in CHECKS:
            cat, tech, text, note, ref = CHECKS[pid]
            checks.append({
                "property_id": pid,
                "quick_cmd": "./check %s quick" % pid,
                "thorough_cmd": "./check %s thorough" % pid,
                "evidence_file": "evidence/%s.json" % pid,
                "replay_cmd_template": "./check %s --replay {path}" % pid,
                "engine": "hypothesis-pbt",
                "level_claimed": {"category": cat, "text": text, "design_ref": ref},
                "level_note": note,
                "technique": tech,
            })
        else:
            na.append({"property_id": pid, "reason": NOT_YET.get(pid, "check not built yet (work in progress; see DESIGN.md section 6 build order)")})
    man = {
        "version": 1,
        "setup_cmd": "./setup.sh",
        "hooks": {
            "guard": "OASIS_OPEN_CTI_PYTHON_STIX2_VERIF",
            "enable": "no source hooks are needed: checks import /repo's working tree directly (PYTHONPATH) and substitute the clock / "
                      "snapshot registries from outside; the variable is exported by run.py for uniformity only",
            "baseline_off_cmd": BASELINE_CMD,
            "source_commits": [],
            "add_only": True,
        },
        "engines": [{
            "name": "hypothesis-pbt", "path": "run.py",
            "serves_properties": [c["property_id"] for c in checks],
            "kind_free_text": "Hypothesis 6.168 strategies / operation-sequence machines and exhaustive enumeration of finite domains, "
                              "each against an independent oracle under oracle/; failures are bucketed by root-cause key, shrunk, and "
                              "written as replay files",
        }],
        "checks": checks,
        "notes": "Exit 0 = held (KNOWN-FINDING lines allowed), 1 = VIOLATION line(s), 2 = harness error. known_findings.json lists "
                 "recorded defects and fixed: entries. VERIF_SEED selects the Hypothesis seed; thorough tier forks 14 workers.",
        "not_applicable": na,
    }
    with open(os.path.join(HERE, "MANIFEST.json"), "w") as f:
        json.dump(man, f, indent=1)
        f.write("\n")
    print("MANIFEST: %d checks, %d not_applicable" % (len(checks), len(na)))


if __name__ == "__main__":
    main()
