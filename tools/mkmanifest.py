#!/usr/bin/env python3
"""Regenerates MANIFEST.json from the table below (keeps it schema-valid)."""
import json
import os

HERE = os.path.dirname(os.path.dirname(os.path.abspath(__file__)))

BASELINE_CMD = ("cd /repo && env -u OASIS_OPEN_CTI_PYTHON_STIX2_VERIF /venv/bin/python -m pytest -ra -q -p no:cacheprovider "
                "--timeout=900 --continue-on-collection-errors")

# pid -> (category, technique, level text, level note, design ref)
CHECKS = {
    "C20": ("exploration", "exhaustive enumeration of the finite domain + Hypothesis draws, oracle = frozen spec table",
            "Every integer -1000..1000 and every label / near-miss label is evaluated for all ten functions and compared with a "
            "table transcribed from STIX 2.1 Appendix A (totality, ranges, monotonicity, label round trip, refusals); the 0-100 "
            "domain is enumerated completely, so for the stated domain this is a decision, not a sample.",
            "Trusts the hand transcription of the specification tables in props/c20.py (self-checked to partition 0..100).",
            "DESIGN.md section 2, C20"),
    "C16": ("exploration", "Hypothesis-generated JSON values vs independent RFC 8785 implementation (differential) + metamorphic laws",
            "Tens of thousands of generated JSON values (doubles from raw bit patterns across all exponent ranges, UTF-16/code-point "
            "conflicting key sets, control/astral strings) are canonicalized by the library and by an independent implementation "
            "(oracle/rfc8785.py, self-tested on the RFC's vectors) and compared byte for byte; insertion-order independence, parse-back, "
            "fixed point, whitespace and NaN/Infinity refusal are checked separately. Search, not proof.",
            "Trusts oracle/rfc8785.py (own implementation, RFC appendix vectors as self-test) and Python's float()/json.loads.",
            "DESIGN.md section 2, C16"),
    "C15": ("exploration", "Hypothesis-generated instants/precisions vs integer-arithmetic reference formatter (differential) + fixed-point and order laws",
            "Generated datetimes (naive, offsets -14h..+14h, pytz zones), dates, STIXdatetime and accepted strings across 3 precisions x 2 "
            "constraints, through utils and through 12 TimestampProperty slots of real types, compared with oracle/tsref.py; write-read-write "
            "fixed point and order preservation on pairs 1us..1y apart. Search, not proof.",
            "Trusts oracle/tsref.py (proleptic Gregorian integer arithmetic, self-tested) and pytz for zone offsets.",
            "DESIGN.md section 2, C15"),
    "C03": ("exploration", "model-driven generation of specification-valid objects, strict parse, model-guided content comparison; kept cases re-run in fresh processes in four orders (history oracle for state carried across calls)",
            "Objects of every implemented type of STIX 2.0/2.1 are built by construction from a frozen, hand-audited specification model "
            "(optional subsets, co-constraints, vocabularies, reference targets, boundary/falsy values, selectors on any path), pre-checked by "
            "an independent validator, then parsed strictly alone / in a bundle / inside an observed-data container and compared property by "
            "property with the re-serialization. Search over the model's space, not proof; bounded by my reading of the specification.",
            "Trusts specmodel/v20.json, v21.json (transcription audited from memory; specmodel/AUDIT.md) and oracle/validator.py.",
            "DESIGN.md section 2, C03"),
    "C01": ("exploration", "generated objects x drawn option sets; round-trip, byte-identity and cross-option metamorphic relations; kept cases re-run in fresh processes in four orders after content of not-yet-registered types was parsed (history oracle)",
            "Objects of every type (parsed from dict/text or built through constructors with datetime values and clock-supplied defaults, "
            "with custom properties / unregistered top-level extensions, bundles incl. empty and mixed-version) are serialized under the 4 "
            "corner option sets plus 3-6 drawn from the full 128-combination product; parse-back class and equality, byte-for-byte "
            "re-serialization, fp_serialize agreement, JSON equality across options up to spec-default omissions, and pretty key order "
            "against the frozen model are asserted. Search, not proof.",
            "Equality is the library's Mapping equality plus byte identity; specification order/defaults from the frozen model.",
            "DESIGN.md section 2, C01"),
    "C02": ("fault_enumeration", "systematic single-point corruption of generated valid objects (fault enumeration) + independent spec validator on whatever is accepted; kept cases re-run in fresh processes in four orders (history oracle)",
            "For every type of both versions, several generated base objects are subjected to every targeted single-point corruption the "
            "engine derives (bounds, vocabularies incl. dictionary-guided entries, reference target types, identifier/timestamp catalogues, "
            "co-constraints, unknown properties ...) and a stratified sample of the generic wrong-kind replacements (all of them in the "
            "thorough tier), through strict parse (named and auto-detected version) and the class constructor; the eight fixed TLP instances "
            "are enumerated completely; 2-4 point corruptions are drawn. Whatever is accepted must serialize to JSON that the independent "
            "validator (frozen spec model) accepts.",
            "Only specification rules held with high confidence are switched on (specmodel/AUDIT.md); stix2patterns validates patterns.",
            "DESIGN.md section 2, C02"),
    "C04": ("fault_enumeration", "enumeration of custom-content injection sites on generated objects x switch x entry point (every store input form); oracle = refusal / has_custom vs strict re-parse; kept cases re-run in fresh processes in four orders (history oracle)",
            "For every type of both versions, generated base objects receive every injection the engine derives (custom properties at top "
            "level, in each embedded object, registered extension and container member; unregistered extensions; custom and foreign-version "
            "hash names; references to unregistered types; unregistered observable members and marking types; the custom_properties content "
            "key) with allow_custom False and True through parse, constructors, Bundle, bundle dicts, parse_observable and MemoryStore.add, "
            "plus controls. Strict calls must refuse; permissive results must have has_custom == (strict re-parse refuses).",
            "Pre-built objects handed to stores are outside the asserted routes (documented pass-through).",
            "DESIGN.md section 2, C04"),
    "C06": ("exploration", "generated observables; independent recomputation (own RFC 8785 + uuid5) and metamorphic relations over presentation/edits",
            "2.1 SCOs of every type and two harness-registered custom observables are created without id from generated content (escapes, "
            "astral keys, floats, big integers, timestamps at all precisions, nested extensions, several hashes); the id is recomputed "
            "independently from the serialization using the frozen model's contributing lists; invariance under routes, member-order "
            "permutations, round trips and non-contributing edits, and sensitivity to contributing edits are asserted.",
            "Trusts oracle/rfc8785.py, uuid.uuid5 and the contributing-property lists of the frozen model.",
            "DESIGN.md section 2, C06"),
    "C13": ("exploration", "generated operation sequences over shared inputs; before/after deep snapshots of every argument and every earlier object",
            "Sequences of 4-9 operations from a 22-entry catalogue (parse, constructors with the caller's own nested containers, Bundle, "
            "deepcopy, versioning, markings on objects and dicts, stores, save/load, ObjectFactory, canonicalize, direct mutation attempts) "
            "reuse 1-3 generated documents and the objects created along the way; all caller containers and the serialization of all existing "
            "objects are compared around every call, returning or raising.",
            "Value identity = canonical JSON of containers / include-defaults serialization of objects; aliasing is not asserted.",
            "DESIGN.md section 2, C13"),
    "C14": ("fault_enumeration", "finite product of entry points x versions x types x identifier kinds, differential against the direct keyword parse",
            "16 entry points with a version parameter (incl. FileSystemSource get/query after the same file was read under other versions) x version in {None,2.0,2.1} x every storable type of both versions (plus spec_version-less "
            "flavours) x identifier in {valid, nil, non-RFC-4122 variant, UUIDv1} x allow_custom, each compared with stix2.parse(doc, "
            "allow_custom=, version=) for class, serialization and refusal; library-produced content of every type is re-parsed with no "
            "version named. Quick tier rotates 9 of the 16 entry points per combination; thorough runs the full product.",
            "The direct keyword parse is the reference (differential); filesystem source routes read files the harness writes in the documented layout.",
            "DESIGN.md section 2, C14"),
    "C17": ("fault_enumeration", "systematic junk substitution in every slot of generated objects + arbitrary generated JSON + nesting catalogue; oracle = exception family, registries/stores unchanged, watchdog",
            "For every type of both versions, every property slot at every depth (incl. slots read before cleaning) of generated objects is "
            "replaced by ~30 junk values of every JSON kind (stratified in quick, denser in thorough), 1-5 at a time, through 8 entry "
            "points; arbitrary STIX-flavoured JSON is fed to parse/parse_observable/constructors; nesting 10..5000 is enumerated. Only "
            "STIXError/ValueError/TypeError may escape; registries and stores must be unchanged; each call runs under a 60 s watchdog.",
            "The exception family is the one the property statement names; store.add exceptions are not judged, only store contents.",
            "DESIGN.md section 2, C17"),
    "C19": ("exploration", "generated registration/parse histories interpreted next to a model registry with snapshot/restore",
            "Histories of 2-7 registrations (four kinds, both versions; fresh, reused, built-in, cross-category and rule-probing names; "
            "property-name and _ref typing probes; extension_name helpers) interleaved with parses in both versions; after each accepted "
            "registration a round-trip / required-property / versioning / deterministic-id pass; after every step built-in dispatch is "
            "re-checked and refused registrations must leave all eight registry maps unchanged.",
            "Naming oracle is one-directional (clearly illegal refused, clearly legal accepted, grey zone unasserted).",
            "DESIGN.md section 2, C19"),
    "C05": ("exploration", "generated versioning histories with a substituted clock, interpreted next to a version-chain model",
            "Histories of up to 30 operations (new_version with legal change sets, None removals, custom properties, caller-supplied "
            "modified, attempts on unmodifiable / id-contributing properties, revoke, marking calls, serialize->parse, in-place edits of "
            "results) on objects and dicts of both versions; the library clock is set before every step relative to the previous modified "
            "time (earlier, equal, +1..999 us, +1 ms, later); the chain model demands identity preservation, exact change sets, untouched "
            "originals and strictly increasing *serialized* modified times.",
            "Trusts oracle/tsref.py and oracle/markmodel.py chain helpers; years <= 9998.",
            "DESIGN.md section 2, C05"),
    "C07": ("exploration", "generated marking histories interpreted next to a set-of-(selector,kind,marking) model and a component-wise path tree",
            "Histories of up to 25 add/remove/set/clear/get/is_marked calls (functions and methods, ids / objects / language tags, all "
            "flag combinations) on SDO/SROs of both versions, plain dicts and marking-definitions, built so that sibling names are "
            "character prefixes of one another; after every step the pair set read back equals the model, queries agree with the path-tree "
            "answer and with one another, results are valid new versions with unchanged non-marking content, inputs are unchanged.",
            "Trusts oracle/markmodel.py (self-tested); outcomes the documentation leaves open are all accepted.",
            "DESIGN.md section 2, C07"),
    "C08": ("exploration", "every path and 12 kinds of near-miss path of generated subjects, at construction/parse and in the five marking functions",
            "For each generated subject (falsy values, repeated elements, embedded objects, extensions, hashes, mixed-case keys, 2.0 "
            "containers; as object and dict) every path of its JSON form must be accepted at construction, at parse and by "
            "add/remove/clear/get/is_marked, and every near-miss (absent property, index = length, wrong nesting, misspelling, character "
            "prefix ...) must be refused.",
            "Trusts oracle/markmodel.py path enumerator and independent resolver; paths existing only through defaulted properties are in neither set.",
            "DESIGN.md section 2, C08"),
    "C09": ("exploration", "grammar-generated pattern pairs/triples/collections: relation laws, documented rewrites (metamorphic), soundness against an independent bounded-universe evaluator",
            "Patterns over a bounded vocabulary (so meaning is decidable) are paired with documented rewrites, semantic mutations and "
            "independent patterns; totality, reflexivity, symmetry, transitivity, recognition of each documented law, "
            "find_equivalent_patterns consistency, and soundness (reported-equivalent patterns match the same observation sequences of a "
            "bounded universe under oracle/patsem.py) are asserted. Soundness is relative to the universe (<= 3 observations, pool constants).",
            "Trusts oracle/patsem.py's stated reading of the patterning semantics (every documented law is cross-checked to hold in it) and the third-party stix2-patterns validator.",
            "DESIGN.md section 2, C09"),
    "C10": ("exploration", "grammar-generated pattern ASTs printed with random legal layout; library parse/print compared structurally by an independent parser; model-built patterns round-tripped",
            "ASTs from the stix2-patterns 2.1 grammar (2.0 for 1 in 5) with unrestricted vocabulary are printed by an independent printer, "
            "approved by the third-party validator, parsed and re-printed by the library; the result must be valid, structurally equal to "
            "the generator's tree (every comparison, negation, operator, constant, path step, qualifier, grouping) per an independent "
            "recursive-descent parser, and a print fixed point; trees assembled through stix2.patterns classes must print to text that "
            "parses back to the same structure.",
            "Trusts gen/patterns.py parser/printer (self-tested, cross-checked with the validator on every case) and the stix2-patterns validator.",
            "DESIGN.md section 2, C10"),
    "C11": ("exploration", "generated add/save/load/reopen histories driving MemoryStore, FileSystemStore and a list model in lock-step",
            "Histories of up to 14 steps over 3-6 ids x 1-4 versions (all object classes incl. dict-kept custom types, several timestamp "
            "spellings, out-of-order versions) using all seven documented input forms, save_to_file/load_from_file, re-opened "
            "FileSystemSource, bundlify; after every step get / all_versions / query of both stores equal the list model keyed by "
            "(id, modified instant).",
            "Trusts oracle/storemodel.py and oracle/tsref.py; DataSourceError on re-adding an existing version to the filesystem sink is the documented refusal.",
            "DESIGN.md section 2, C11"),
    "C12": ("exploration", "generated populations x filter sets x delivery routes, differential against a naive reference evaluator + metamorphic laws",
            "Populations of up to 30 objects x 4-10 filter sets (every operator on every property kind with type-compatible values; "
            "type/id filters weighted, repeated, contradictory) delivered as query argument, attached to the source, attached to / passed "
            "down by composites, on MemorySource, FileSystemSource and a composite; results equal the naive evaluator; added filter => "
            "subset, conjunction = intersection, route independence, filesystem = memory.",
            "Trusts oracle/storemodel.py's reading of the documented operator semantics; type-incompatible comparisons are outside the domain.",
            "DESIGN.md section 2, C12"),
    "C18": ("exploration", "generated partitions of a population over member sources x attachment orders x navigation probes, against a list model of the union",
            "Populations with relationship graphs (self-loops, parallel edges, dangling ends, several versions) are placed with overlap in "
            "2-4 memory/filesystem members, attached in all/4 orders, optionally nested; get, all_versions, query with filters on "
            "composite/member/argument, relationships, related_to, creator_of through composite, store and Environment equal a scan of "
            "the union.",
            "Trusts oracle/storemodel.py; multiplicity through plain sources is compared as sets (not fixed by the statement).",
            "DESIGN.md section 2, C18"),
}

NOT_YET = {}


def main():
    props = [json.loads(l) for l in open(os.path.join(HERE, "properties.jsonl"))]
    checks = []
    na = []
    for p in props:
        pid = p["id"]
        if pid in CHECKS:
            cat, tech, text, note, ref = CHECKS[pid]
            checks.append({
                "property_id": pid,
                "quick_cmd": "./check %s quick" % pid,
                "thorough_cmd": "./check %s thorough" % pid,
                "evidence_file": "evidence/%s.json" % pid,
                "replay_cmd_template": "./check %s --replay {path}" % pid,
                "engine": "hypothesis-pbt",
                "level_claimed": {"category": cat, "text": text, "design_ref": ref},
                "level_note": note,
                "technique": tech,
            })
        else:
            na.append({"property_id": pid, "reason": NOT_YET.get(pid, "check not built yet (work in progress; see DESIGN.md section 6 build order)")})
    man = {
        "version": 1,
        "setup_cmd": "./setup.sh",
        "hooks": {
            "guard": "OASIS_OPEN_CTI_PYTHON_STIX2_VERIF",
            "enable": "no source hooks are needed: checks import /repo's working tree directly (PYTHONPATH) and substitute the clock / "
                      "snapshot registries from outside; the variable is exported by run.py for uniformity only",
            "baseline_off_cmd": BASELINE_CMD,
            "source_commits": [],
            "add_only": True,
        },
        "engines": [{
            "name": "hypothesis-pbt", "path": "run.py",
            "serves_properties": [c["property_id"] for c in checks],
            "kind_free_text": "Hypothesis 6.168 strategies / operation-sequence machines and exhaustive enumeration of finite domains, "
                              "each against an independent oracle under oracle/; failures are bucketed by root-cause key, shrunk, and "
                              "written as replay files",
        }, {
            "name": "atheris-libfuzzer", "path": "harness/fuzz_c17.py",
            "serves_properties": ["C17"],
            "kind_free_text": "coverage-guided supplement of C17's thorough tier: libFuzzer mutates the byte stream behind the same "
                              "Hypothesis strategies (fuzz_one_input), oracle inside the target; best effort, decides nothing on its own",
        }],
        "checks": checks,
        "notes": "Exit 0 = held (KNOWN-FINDING lines allowed), 1 = VIOLATION line(s), 2 = harness error. known_findings.json lists "
                 "recorded defects and fixed: entries. VERIF_SEED selects the Hypothesis seed; thorough tier forks 14 workers.",
        "not_applicable": na,
    }
    with open(os.path.join(HERE, "MANIFEST.json"), "w") as f:
        json.dump(man, f, indent=1)
        f.write("\n")
    print("MANIFEST: %d checks, %d not_applicable" % (len(checks), len(na)))


if __name__ == "__main__":
    main()
