#!/usr/bin/env python3
"""Regenerates MANIFEST.json from the table below (keeps it schema-valid)."""
import json
import os

HERE = os.path.dirname(os.path.dirname(os.path.abspath(__file__)))

BASELINE_CMD = ("cd /repo && env -u OASIS_OPEN_CTI_PYTHON_STIX2_VERIF /venv/bin/python -m pytest -ra -q -p no:cacheprovider "
                "--timeout=900 --continue-on-collection-errors")

# pid -> (category, technique, level text, level note, design ref)
CHECKS = {
    "C20": ("exploration", "exhaustive enumeration of the finite domain + Hypothesis draws, oracle = frozen spec table",
            "Every integer -1000..1000 and every label / near-miss label is evaluated for all ten functions and compared with a "
            "table transcribed from STIX 2.1 Appendix A (totality, ranges, monotonicity, label round trip, refusals); the 0-100 "
            "domain is enumerated completely, so for the stated domain this is a decision, not a sample.",
            "Trusts the hand transcription of the specification tables in props/c20.py (self-checked to partition 0..100).",
            "DESIGN.md section 2, C20"),
}

NOT_YET = {}


def main():
    props = [json.loads(l) for l in open(os.path.join(HERE, "properties.jsonl"))]
    checks = []
    na = []
    for p in props:
        pid = p["id"]
        if pid in CHECKS:
            cat, tech, text, note, ref = CHECKS[pid]
            checks.append({
                "property_id": pid,
                "quick_cmd": "./check %s quick" % pid,
                "thorough_cmd": "./check %s thorough" % pid,
                "evidence_file": "evidence/%s.json" % pid,
                "replay_cmd_template": "./check %s --replay {path}" % pid,
                "engine": "hypothesis-pbt",
                "level_claimed": {"category": cat, "text": text, "design_ref": ref},
                "level_note": note,
                "technique": tech,
            })
        else:
            na.append({"property_id": pid, "reason": NOT_YET.get(pid, "check not built yet (work in progress; see DESIGN.md section 6 build order)")})
    man = {
        "version": 1,
        "setup_cmd": "./setup.sh",
        "hooks": {
            "guard": "OASIS_OPEN_CTI_PYTHON_STIX2_VERIF",
            "enable": "no source hooks are needed: checks import /repo's working tree directly (PYTHONPATH) and substitute the clock / "
                      "snapshot registries from outside; the variable is exported by run.py for uniformity only",
            "baseline_off_cmd": BASELINE_CMD,
            "source_commits": [],
            "add_only": True,
        },
        "engines": [{
            "name": "hypothesis-pbt", "path": "run.py",
            "serves_properties": [c["property_id"] for c in checks],
            "kind_free_text": "Hypothesis 6.168 strategies / operation-sequence machines and exhaustive enumeration of finite domains, "
                              "each against an independent oracle under oracle/; failures are bucketed by root-cause key, shrunk, and "
                              "written as replay files",
        }],
        "checks": checks,
        "notes": "Exit 0 = held (KNOWN-FINDING lines allowed), 1 = VIOLATION line(s), 2 = harness error. known_findings.json lists "
                 "recorded defects and fixed: entries. VERIF_SEED selects the Hypothesis seed; thorough tier forks 14 workers.",
        "not_applicable": na,
    }
    with open(os.path.join(HERE, "MANIFEST.json"), "w") as f:
        json.dump(man, f, indent=1)
        f.write("\n")
    print("MANIFEST: %d checks, %d not_applicable" % (len(checks), len(na)))


if __name__ == "__main__":
    main()
