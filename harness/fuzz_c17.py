#!/venv/bin/python
"""Coverage-guided tier for C17 (thorough only, best effort): libFuzzer (atheris) mutates the byte stream that drives the
same Hypothesis strategies as props/c17.py's "arbitrary JSON" family, with coverage feedback from the instrumented
stix2 package.  The semantic oracle (exception family, registries unchanged) sits inside the target.

Run as a subprocess by props/c17.py:
    fuzz_c17.py <out-json> <runs> <seed> [corpus-dir]
Writes {"executions": n, "failures": [{key, detail, case}], "note": ...} to <out-json>.  Never raises into libFuzzer for a
known-finding key (the search continues behind it); an unlisted key is recorded (first case per key) and the run goes on.
"""
import json
import os
import sys

HERE = os.path.dirname(os.path.dirname(os.path.abspath(__file__)))
sys.path.insert(0, HERE)
sys.path.insert(0, os.path.join(HERE, ".deps"))
sys.path.insert(0, os.environ.get("VERIF_REPO", "/repo"))


def main():
    out, runs, seed = sys.argv[1], int(sys.argv[2]), int(sys.argv[3])
    corpus = sys.argv[4] if len(sys.argv) > 4 else None
    result = {"executions": 0, "failures": [], "note": ""}

    def flush():
        with open(out, "w") as f:
            json.dump(result, f, default=repr)

    try:
        import atheris
    except Exception as e:  # noqa
        result["note"] = "atheris not importable: %s" % e
        flush()
        return 0
    with atheris.instrument_imports(include=["stix2"]):
        import stix2  # noqa
    from hypothesis import HealthCheck, given, settings
    from hypothesis import strategies as st
    from harness import core
    from oracle import model as M
    from props import c17

    known = {e["key"] for e in core.load_known() if e["property"] == "C17" and e["status"] == "open"}
    seen = set()
    typed_junk = st.builds(lambda t, j: dict(j, type=t) if isinstance(j, dict) else {"type": t, "x": j},
                           st.sampled_from(M.get("2.1").all_known_types() + ["x-never-registered"]), c17.junk_json)
    strat = st.tuples(st.one_of(c17.junk_json, typed_junk, typed_junk), st.sampled_from(c17.ENTRIES + ["parse_observable"]), st.sampled_from(["2.0", "2.1"]))

    @settings(database=None, deadline=None, suppress_health_check=list(HealthCheck), max_examples=10 ** 9)
    @given(strat)
    def target(args):
        junk, entry, ver = args
        case = {"junk": junk, "entry": entry, "ver": ver}
        result["executions"] += 1
        for key, detail in c17.check_case(case) or []:
            if key in known or key in seen:
                continue
            seen.add(key)
            result["failures"].append({"key": key, "detail": detail[:1500], "case": case})
            flush()

    argv = [sys.argv[0], "-runs=%d" % runs, "-seed=%d" % max(1, seed), "-max_len=4096", "-len_control=0", "-print_final_stats=0", "-verbosity=0"]
    if corpus:
        # Hypothesis needs a few hundred bytes to finish a draw: bootstrap libFuzzer with deterministic pseudo-random blobs
        import hashlib
        os.makedirs(corpus, exist_ok=True)
        for i in range(8):
            blob = b"".join(hashlib.sha256(b"%d-%d-%d" % (seed, i, j)).digest() for j in range(16 * (i + 1)))
            with open(os.path.join(corpus, "boot%d" % i), "wb") as f:
                f.write(blob)
        argv.append(corpus)
    import atexit  # noqa  (does not run under libFuzzer's _exit; results are flushed explicitly)

    def one(data):
        target.hypothesis.fuzz_one_input(data)
        if result["executions"] % 2000 == 0:
            flush()

    atheris.Setup(argv, one)
    flush()
    try:
        atheris.Fuzz()
    finally:
        flush()
    return 0


if __name__ == "__main__":
    main()
