"""Shared runner machinery: context, evidence, known findings, replay files.

Exit protocol (see DESIGN.md 1.1): 0 held, 1 violation (VIOLATION line per
root-cause key), 2 harness error.
"""
import collections
import hashlib
import json
import os
import sys
import time
import traceback

VERIF = os.path.dirname(os.path.dirname(os.path.abspath(__file__)))
REPO = os.environ.get("VERIF_REPO", "/repo")
KNOWN_FILE = os.path.join(VERIF, "known_findings.json")
OUT = os.environ.get("VERIF_OUT", VERIF)   # evidence/ and replays/ go here (redirected for mutant runs)


class Violation(Exception):
    """Raised inside a Hypothesis test body for an unlisted failure."""

    def __init__(self, key, detail):
        super().__init__("%s: %s" % (key, detail))
        self.key = key
        self.detail = detail


class HarnessError(Exception):
    """The check itself is broken (oracle self-test, generator health...)."""


def canon(obj):
    return json.dumps(obj, sort_keys=True, ensure_ascii=True, default=repr, separators=(",", ":"))


def fingerprint(obj):
    return hashlib.sha1(canon(obj).encode("utf-8", "surrogatepass")).hexdigest()[:14]


def short(obj, n=600):
    s = obj if isinstance(obj, str) else canon(obj)
    return s if len(s) <= n else s[:n] + "...<%d chars>" % len(s)


def lib_frame(exc):
    """Innermost frame of exc's traceback that lies in the library under test
    (or None).  Used to tell a library crash from a harness bug."""
    tb = exc.__traceback__
    found = None
    root = os.path.join(REPO, "stix2") + os.sep
    while tb is not None:
        fn = tb.tb_frame.f_code.co_filename
        if fn.startswith(root) or "/stix2patterns/" in fn or "/antlr4/" in fn:
            if fn.startswith(root):
                found = "%s:%s" % (os.path.relpath(fn, REPO), tb.tb_frame.f_code.co_name)
            elif found is None:
                found = "thirdparty:%s" % tb.tb_frame.f_code.co_name
        tb = tb.tb_next
    return found


class Ctx(object):
    def __init__(self, pid, tier, seed, worker=None):
        self.pid = pid
        self.tier = tier
        self.seed = seed
        self.worker = worker
        self.t0 = time.time()
        self.evaluations = 0
        self.nontrivial = set()
        self.samples = []
        self._nsample_seen = 0
        self.classes = collections.Counter()
        self.known_counts = collections.Counter()
        self.excluded = collections.Counter()
        self.violations = {}        # key -> {case, detail}
        self.suppressed = set()     # keys already reported in this run
        self.notes = {}
        self.inconclusive = []
        self.exhaustive = False
        self.rule = ""
        self.assumptions = []
        self.level = "exploration"
        kf = load_known()
        self.known_open = {e["key"]: e for e in kf if e["property"] == pid and e["status"] == "open"}
        self.known_fixed = [e for e in kf if e["property"] == pid and e["status"] == "fixed"]
        self.last_failure = None
        self.collect_only = False   # when True, handle() never raises

    # ---- sizing -------------------------------------------------------
    def n(self, quick, thorough):
        """Case budget for this tier (thorough value is per worker)."""
        scale = float(os.environ.get("VERIF_SCALE", "1"))
        return max(1, int((quick if self.tier == "quick" else thorough) * scale))

    @property
    def quick(self):
        return self.tier == "quick"

    # ---- accounting ---------------------------------------------------
    def note(self, case, nontrivial=False, classes=(), fp=None):
        self.evaluations += 1
        for c in classes:
            self.classes[c] += 1
        if nontrivial:
            self.nontrivial.add(fp or fingerprint(case))
        # reservoir: first 3 + deterministic thinning for up to 5 more
        self._nsample_seen += 1
        if len(self.samples) < 3:
            self.samples.append(_jsonable(case))
        elif nontrivial and len(self.samples) < 8 and self._nsample_seen % 97 == 0:
            self.samples.append(_jsonable(case))

    def cls(self, *names):
        for c in names:
            self.classes[c] += 1

    def exclude(self, why, n=1):
        self.excluded[why] += n

    def keep(self, case, group, per_group=2, limit=400):
        """Remember a few cases per group for the fresh-process order probe (see order_probe)."""
        b = self.__dict__.setdefault("_battery", collections.OrderedDict())
        if sum(len(v) for v in b.values()) >= limit:
            return
        g = b.setdefault(group, [])
        if len(g) < per_group:
            g.append(_jsonable(case))

    def battery(self):
        out = []
        groups = list(self.__dict__.get("_battery", {}).values())
        i = 0
        while any(len(g) > i for g in groups):   # interleave the groups
            out.extend(g[i] for g in groups if len(g) > i)
            i += 1
        return out

    # ---- failures -----------------------------------------------------
    def handle(self, case, fails):
        """fails: iterable of (key, detail).  Known keys are counted; others
        raise Violation (so Hypothesis shrinks) unless collect_only."""
        for key, detail in fails:
            if key in self.known_open:
                self.known_counts[key] += 1
                continue
            if key in self.suppressed:
                continue
            self.last_failure = (key, detail, _jsonable(case))
            if self.collect_only:
                self.record_violation(key, detail, case)
                continue
            raise Violation(key, detail)

    def record_violation(self, key, detail, case):
        if key in self.violations:
            return
        self.violations[key] = {"detail": short(detail, 2000), "case": _jsonable(case)}
        self.suppressed.add(key)

    def elapsed(self):
        return time.time() - self.t0

    # ---- result -------------------------------------------------------
    def result(self):
        return {
            "evaluations": self.evaluations,
            "nontrivial": sorted(self.nontrivial),
            "samples": self.samples,
            "classes": dict(self.classes),
            "known_counts": dict(self.known_counts),
            "excluded": dict(self.excluded),
            "violations": self.violations,
            "notes": self.notes,
            "inconclusive": self.inconclusive,
            "exhaustive": self.exhaustive,
            "rule": self.rule,
            "assumptions": self.assumptions,
            "level": self.level,
        }


def _jsonable(x):
    try:
        json.dumps(x)
        return x
    except (TypeError, ValueError):
        return json.loads(json.dumps(x, default=repr))


def load_known():
    out = []
    if os.path.exists(KNOWN_FILE):
        with open(KNOWN_FILE) as f:
            out.extend(json.load(f)["findings"])
    pend = os.path.join(VERIF, "kf_pending")   # development only; merged into known_findings.json before registration
    if os.path.isdir(pend):
        for fn in sorted(os.listdir(pend)):
            if fn.endswith(".json"):
                with open(os.path.join(pend, fn)) as f:
                    out.extend(json.load(f)["findings"])
    return out


# ----------------------------------------------------------------------
# Hypothesis driver: collect -> classify -> shrink -> replay

def run_given(ctx, strategy, body, max_examples, label="main", shrink=None, rounds=6):
    """Run body(case) over `strategy`.  body must call ctx.note and
    ctx.handle.  Each unlisted failure key is shrunk, recorded and then
    suppressed so the search continues behind it (up to `rounds`)."""
    import hypothesis
    from hypothesis import HealthCheck, Phase, given, settings

    if shrink is None:
        shrink = True
    phases = [Phase.explicit, Phase.generate] + ([Phase.shrink] if shrink else [])
    remaining = max_examples
    for rnd in range(rounds):
        if remaining <= 0:
            break
        calls = [0]
        st_settings = settings(
            max_examples=remaining, database=None, deadline=None, derandomize=False,
            report_multiple_bugs=False, phases=phases, print_blob=False,
            suppress_health_check=list(HealthCheck),
        )
        seed = (ctx.seed * 7919 + rnd * 104729 + _label_salt(label)) % (2 ** 63)

        @hypothesis.seed(seed)
        @st_settings
        @given(strategy)
        def test(case):
            calls[0] += 1
            body(case)

        try:
            test()
            break
        except Violation as v:
            key, detail, case = ctx.last_failure if ctx.last_failure and ctx.last_failure[0] == v.key else (v.key, v.detail, None)
            ctx.record_violation(key, detail, case)
        except hypothesis.errors.Flaky as e:   # nondeterminism is a harness problem
            raise HarnessError("flaky test body in %s/%s: %s" % (ctx.pid, label, e))
        remaining -= max(1, calls[0])
    return


# ----------------------------------------------------------------------
# Fresh-process order probe: the verdict on a case must not depend on what the process did before

def replay_any(mod, case):
    """mod.replay(case), or -- for {"sequence": [c1, ..., cn]} -- replay every element in order (one process) and return the
    failures of the last one.  Order-dependent failures are saved in that form; a replay is a fresh process by construction."""
    if isinstance(case, dict) and "sequence" in case and isinstance(case["sequence"], list):
        fails = []
        for c in case["sequence"]:
            fails = list(mod.replay(c) or [])
        return fails
    return list(mod.replay(case) or [])


def run_sequence(pid, seq, timeout=1800):
    """Run the cases of `seq` in order in ONE fresh interpreter; -> list (per position) of [(key, detail), ...]."""
    import subprocess
    import sys
    import tempfile
    tmp = tempfile.mkdtemp(prefix="verif-seq-")
    try:
        fin, fout = os.path.join(tmp, "seq.json"), os.path.join(tmp, "out.json")
        with open(fin, "w") as f:
            json.dump({"cases": seq}, f)
        p = subprocess.run([sys.executable, os.path.join(VERIF, "run.py"), pid, "--sequence", fin, "--out", fout],
                           stdout=subprocess.PIPE, stderr=subprocess.STDOUT, timeout=timeout)
        if not os.path.exists(fout):
            raise HarnessError("sequence run produced no result (rc=%s): %s" % (p.returncode, p.stdout.decode(errors="replace")[-1500:]))
        with open(fout) as f:
            res = json.load(f)
        if res.get("error"):
            raise HarnessError("sequence run failed: %s" % res["error"])
        return [[tuple(x) for x in fl] for fl in res["fails"]]
    finally:
        import shutil
        shutil.rmtree(tmp, ignore_errors=True)


def isolated_batch(pid, cases, timeout=900):
    """Each case judged by the property's own oracle in a fresh interpreter that is NOT this one: an interpreter that dies (fatal
    error, signal) is a verdict about the case, not a harness error.  The cases first run together in one child; only if that child
    dies are they run one by one to find which case kills it.  -> list (per case) of [(key, detail), ...]."""
    import subprocess
    import sys
    import tempfile

    def child(batch):
        tmp = tempfile.mkdtemp(prefix="verif-iso-")
        try:
            fin, fout = os.path.join(tmp, "seq.json"), os.path.join(tmp, "out.json")
            with open(fin, "w") as f:
                json.dump({"cases": batch}, f)
            env = dict(os.environ, VERIF_ISOLATED_CHILD="1")
            p = subprocess.run([sys.executable, os.path.join(VERIF, "run.py"), pid, "--sequence", fin, "--out", fout],
                               stdout=subprocess.PIPE, stderr=subprocess.STDOUT, timeout=timeout, env=env)
            out = p.stdout.decode(errors="replace")
            if not os.path.exists(fout):
                if p.returncode < 0 or "Fatal Python error" in out:
                    fatal = [ln for ln in out.splitlines() if "Fatal Python error" in ln]
                    return None, "exit status %s%s" % (p.returncode, ": " + fatal[0].strip() if fatal else "")
                raise HarnessError("isolated run produced no result (rc=%s): %s" % (p.returncode, out[-1500:]))
            with open(fout) as f:
                res = json.load(f)
            if res.get("error"):
                raise HarnessError("isolated run failed: %s" % res["error"])
            return [[tuple(x) for x in fl] for fl in res["fails"]], None
        finally:
            import shutil
            shutil.rmtree(tmp, ignore_errors=True)

    res, died = child(list(cases))
    if res is not None:
        return res
    out = []
    for c in cases:
        r, died = child([c])
        out.append(r[0] if r is not None else [("interpreter-died", "the interpreter did not survive the call (%s)" % died)])
    return out


def _shrink_sequence(pid, prefix, target, key, budget=30):
    """ddmin over the predecessors: smallest found list P' (subsequence of prefix) such that P' + [target] still shows `key`
    in a fresh process."""
    def shows(pre):
        res = run_sequence(pid, list(pre) + [target])
        return any(k == key for k, _ in res[-1])
    cur = list(prefix)
    runs = 0
    if runs < budget and shows([]):
        return []
    n = 2
    while len(cur) >= 2 and runs < budget:
        size = max(1, len(cur) // n)
        chunks = [cur[i:i + size] for i in range(0, len(cur), size)]
        reduced = False
        for i in range(len(chunks)):
            comp = [x for j, ch in enumerate(chunks) if j != i for x in ch]
            runs += 1
            if shows(chunks[i]):
                cur, n, reduced = chunks[i], 2, True
                break
            runs += 1
            if shows(comp):
                cur, n, reduced = comp, max(n - 1, 2), True
                break
            if runs >= budget:
                break
        if not reduced:
            if n >= len(cur):
                break
            n = min(len(cur), n * 2)
    return cur


def order_probe(ctx, cases=None, version_of=None, first=None, max_cases=240):
    """The kept battery is executed in fresh processes in several orders (as generated, reversed, all STIX 2.0 cases first, all
    2.1 cases first); every case is judged by the property's own oracle (mod.replay).  A failure that only shows after certain
    predecessors is state carried across calls (caches, class-level tables, registries).  `first`: optional cases put in front
    of every order (e.g. a parse before the harness registers its custom types)."""
    cases = (cases if cases is not None else ctx.battery())[:max_cases]
    if len(cases) < 2:
        return
    version_of = version_of or (lambda c: c.get("ver") or c.get("version"))
    idx = list(range(len(cases)))
    orders = [("as-generated", idx), ("reversed", idx[::-1]),
              ("2.0-first", sorted(idx, key=lambda i: (version_of(cases[i]) != "2.0", i))),
              ("2.1-first", sorted(idx, key=lambda i: (version_of(cases[i]) != "2.1", -i)))]
    done = {}
    for name, perm in orders:
        seq = list(first or []) + [cases[i] for i in perm]
        res = run_sequence(ctx.pid, seq)
        ctx.evaluations += len(seq)
        ctx.classes["order-probe:" + name] += len(seq)
        for pos, fails in enumerate(res):
            for key, detail in fails:
                if key in ctx.known_open:
                    ctx.known_counts[key] += 1
                    continue
                if key in ctx.suppressed:
                    continue
                pre = _shrink_sequence(ctx.pid, seq[:pos], seq[pos], key)
                case = {"sequence": pre + [seq[pos]]} if pre else seq[pos]
                ctx.record_violation(key, "%s [fresh process, order %s, after %d predecessor(s)%s]" % (
                    detail, name, len(pre), "; does not fail when run alone" if pre else ""), case)
        done[name] = len(seq)
    ctx.notes["order_probe"] = {"cases": len(cases), "orders": done}


def _label_salt(label):
    return int(hashlib.sha1(label.encode()).hexdigest()[:8], 16)


def guarded(fn, *a, **kw):
    """Call library code; return (value, None) or (None, exc)."""
    try:
        return fn(*a, **kw), None
    except RecursionError as e:  # keep the traceback small
        return None, e
    except Exception as e:  # noqa
        return None, e


class NoAnswer(Exception):
    """Raised by `guarded_timed` when a library call did not return within the limit (twice)."""


def guarded_timed(limit_s, fn, *a, **kw):
    """guarded() under a SIGALRM watchdog.  A call that normally takes milliseconds and has not returned after
    `limit_s` seconds is interrupted and repeated once with twice the limit; only if that does not return either
    the result is (None, NoAnswer).  (No timing signal is used for anything else.)"""
    import signal

    class _Alarm(BaseException):
        pass

    def on_alarm(signum, frame):
        raise _Alarm()
    for attempt, lim in enumerate((limit_s, 2 * limit_s)):
        old = signal.signal(signal.SIGALRM, on_alarm)
        signal.alarm(int(lim))
        try:
            try:
                return guarded(fn, *a, **kw)
            finally:
                signal.alarm(0)
                signal.signal(signal.SIGALRM, old)
        except _Alarm:
            continue
    return None, NoAnswer("no answer within %d s (and within %d s when repeated)" % (limit_s, 2 * limit_s))


# ----------------------------------------------------------------------
# Evidence / replay files

def write_replay(pid, key, info):
    d = os.path.join(OUT, "replays", pid)
    os.makedirs(d, exist_ok=True)
    safe = "".join(ch if ch.isalnum() or ch in "-_." else "_" for ch in key)[:80]
    path = os.path.join(d, "%s-%s.json" % (safe, fingerprint(info.get("case"))[:8]))
    with open(path, "w") as f:
        json.dump({"property": pid, "key": key, "detail": info.get("detail"), "case": info.get("case")}, f, indent=1, sort_keys=True)
    return os.path.relpath(path, OUT) if OUT == VERIF else path


def write_evidence(pid, tier, seed, merged, wall, nviol, extra=None):
    cov = {
        "evaluations": merged["evaluations"],
        "distinct_nontrivial": len(merged["nontrivial"]),
        "rule": merged["rule"],
        "samples": merged["samples"][:10],
        "class_distribution": dict(sorted(merged["classes"].items(), key=lambda kv: (-kv[1], kv[0]))[:120]),
        "known_finding_hits": merged["known_counts"],
        "excluded_by_construction": merged["excluded"],
        "inconclusive": merged["inconclusive"][:20],
        "notes": merged["notes"],
    }
    if merged.get("exhaustive"):
        cov["exhaustive"] = True
    if extra:
        cov.update(extra)
    ev = {
        "property_id": pid, "tier": tier, "seed": seed, "level": merged["level"],
        "coverage": cov, "assumptions": merged["assumptions"],
        "wall_s": round(wall, 2), "violations": nviol,
    }
    os.makedirs(os.path.join(OUT, "evidence"), exist_ok=True)
    with open(os.path.join(OUT, "evidence", pid + ".json"), "w") as f:
        json.dump(ev, f, indent=1, sort_keys=True, default=repr)
        f.write("\n")


def merge_results(results):
    m = {
        "evaluations": 0, "nontrivial": set(), "samples": [], "classes": collections.Counter(),
        "known_counts": collections.Counter(), "excluded": collections.Counter(), "violations": {},
        "notes": {}, "inconclusive": [], "exhaustive": True, "rule": "", "assumptions": [], "level": "exploration",
    }
    for r in results:
        m["evaluations"] += r["evaluations"]
        m["nontrivial"].update(r["nontrivial"])
        for s in r["samples"]:
            if len(m["samples"]) < 10:
                m["samples"].append(s)
        m["classes"].update(r["classes"])
        m["known_counts"].update(r["known_counts"])
        m["excluded"].update(r["excluded"])
        for k, v in r["violations"].items():
            m["violations"].setdefault(k, v)
        for k, v in r["notes"].items():
            if isinstance(v, (int, float)) and isinstance(m["notes"].get(k), (int, float)):
                m["notes"][k] += v
            else:
                m["notes"].setdefault(k, v)
        m["inconclusive"].extend(r["inconclusive"])
        m["exhaustive"] = m["exhaustive"] and r["exhaustive"]
        m["rule"] = r["rule"] or m["rule"]
        m["assumptions"] = r["assumptions"] or m["assumptions"]
        m["level"] = r["level"]
    m["nontrivial"] = sorted(m["nontrivial"])
    m["classes"] = dict(m["classes"])
    m["known_counts"] = dict(m["known_counts"])
    m["excluded"] = dict(m["excluded"])
    return m


def health(ctx, required, share=0.01, total=None):
    """Generator health: classes the design calls interesting must actually occur.  A class below `share` of the
    evaluations is recorded in the evidence notes ("thin_classes"); only a class that is (nearly) absent -- fewer than
    share/8 of the evaluations, or never -- makes the check exit 2, and only when no violation cut the run short."""
    total = total or ctx.evaluations
    if total < 100:
        return
    thin = sorted(c for c in required if ctx.classes.get(c, 0) < share * total)
    absent = sorted(c for c in required if ctx.classes.get(c, 0) == 0 or ctx.classes.get(c, 0) < share * total / 8.0)
    if thin:
        ctx.notes["thin_classes"] = {c: ctx.classes.get(c, 0) for c in thin}
    ctx.notes["generator_health"] = "%d required classes, %d below %.1f%% of %d evaluations" % (len(required), len(thin), share * 100, total)
    if absent and not ctx.violations:
        raise HarnessError("generator unhealthy: required classes (nearly) absent in %d evaluations: %s" % (total, {c: ctx.classes.get(c, 0) for c in absent}))


def fmt_exc(e):
    return "%s: %s" % (type(e).__name__, short(str(e), 300))


def tb_text(e):
    return "".join(traceback.format_exception(type(e), e, e.__traceback__))[-3000:]
