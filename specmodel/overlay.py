"""Hand audit of the bootstrapped tables against the STIX 2.0 / 2.1 specification
text (from memory -- no copy of the specification exists in the sandbox).
tools/freeze_specmodel.py merges this with bootstrap_v2x.json into v2x.json;
checks load only the frozen JSON.  Every departure from the library's tables is
listed in AUDIT.md.  Only rules held with high confidence are present.
"""

SDO_TYPES = {
    "2.0": ["attack-pattern", "campaign", "course-of-action", "identity", "indicator", "intrusion-set", "malware",
            "observed-data", "report", "threat-actor", "tool", "vulnerability"],
    "2.1": ["attack-pattern", "campaign", "course-of-action", "grouping", "identity", "incident", "indicator", "infrastructure",
            "intrusion-set", "location", "malware", "malware-analysis", "note", "observed-data", "opinion", "report",
            "threat-actor", "tool", "vulnerability"],
}
SRO_TYPES = ["relationship", "sighting"]
SCO_TYPES = ["artifact", "autonomous-system", "directory", "domain-name", "email-addr", "email-message", "file", "ipv4-addr",
             "ipv6-addr", "mac-addr", "mutex", "network-traffic", "process", "software", "url", "user-account",
             "windows-registry-key", "x509-certificate"]
META_TYPES = {"2.0": ["marking-definition"], "2.1": ["marking-definition", "language-content", "extension-definition"]}

EXT_HOSTS = {
    "archive-ext": "file", "ntfs-ext": "file", "pdf-ext": "file", "raster-image-ext": "file", "windows-pebinary-ext": "file",
    "http-request-ext": "network-traffic", "icmp-ext": "network-traffic", "socket-ext": "network-traffic", "tcp-ext": "network-traffic",
    "windows-process-ext": "process", "windows-service-ext": "process", "unix-account-ext": "user-account",
}

TLP = {
    "white": "marking-definition--613f2e26-407d-48c7-9eca-b8e91df99dc9",
    "green": "marking-definition--34098fce-860f-48ae-8e50-ebd3cc5e41da",
    "amber": "marking-definition--f88d31f6-486f-44da-b317-01333bde0b82",
    "red": "marking-definition--5e57c739-391a-4eb3-b6be-7d15ca92d5ed",
}
TLP_CREATED = "2017-01-20T00:00:00.000Z"

# hash algorithm vocabulary per version and value shape (regex) for those whose shape I hold with confidence
HASH_SHAPES = {
    "MD5": "^[a-fA-F0-9]{32}$", "SHA-1": "^[a-fA-F0-9]{40}$", "SHA-256": "^[a-fA-F0-9]{64}$", "SHA-512": "^[a-fA-F0-9]{128}$",
    "SHA3-256": "^[a-fA-F0-9]{64}$", "SHA3-512": "^[a-fA-F0-9]{128}$", "SHA-224": "^[a-fA-F0-9]{56}$", "SHA-384": "^[a-fA-F0-9]{96}$",
    "SHA3-224": "^[a-fA-F0-9]{56}$", "SHA3-384": "^[a-fA-F0-9]{96}$", "RIPEMD-160": "^[a-fA-F0-9]{40}$", "WHIRLPOOL": "^[a-fA-F0-9]{128}$",
    "TLSH": "^[a-fA-F0-9]{70}$",
    # MD6 digests have a chosen length (1-512 bits); whatever the length, the value is written in hexadecimal
    "MD6": "^(?:[a-fA-F0-9]{2})+$",
}
# shapes only *generated* (validator requires just a non-empty string for these)
HASH_GEN_ONLY = {"SSDEEP": "ssdeep", "ssdeep": "ssdeep", "MD6": "hex32"}

# ---- property patches: (version, class, property) -> dict merged into the descriptor --------------
PATCH = {
    # 2.1: "It MUST be an exact match for the modified time of the STIX Object being referenced" -- and a 2.1 `modified`
    # may carry any number of fraction digits; the library's table (millisecond, exact) was an unaudited carry-over
    ("2.1", "LanguageContent", "object_modified"): {"precision": "millisecond", "constraint": "min"},
}

# ---- co-constraints -----------------------------------------------------------------------------
# kinds: at_least_one, at_most_one, xor (exactly one), requires (if present -> all of then present),
#        order (b >= a, or b > a when strict), special:<name> (implemented in oracle/validator.py and gen/objects.py)
C = {}


def _c(ver, cls, *rules):
    C.setdefault((ver, cls), []).extend(rules)


for v in ("2.0", "2.1"):
    _c(v, "ExternalReference", {"k": "at_least_one", "props": ["description", "url", "external_id"]})
    _c(v, "Artifact", {"k": "xor", "props": ["payload_bin", "url"]}, {"k": "requires", "if": "url", "then": ["hashes"]})
    _c(v, "EmailMIMEComponent", {"k": "at_least_one", "props": ["body", "body_raw_ref"]})
    _c(v, "EmailMessage", {"k": "special", "name": "email-multipart"})
    _c(v, "WindowsPEOptionalHeaderType", {"k": "special", "name": "non-empty"})
    _c(v, "File", {"k": "at_least_one", "props": ["hashes", "name"]})
    _c(v, "NetworkTraffic", {"k": "at_least_one", "props": ["src_ref", "dst_ref"]})
    _c(v, "Process", {"k": "special", "name": "process-non-empty"})
    _c(v, "X509Certificate", {"k": "at_least_one", "props": [
        "is_self_signed", "hashes", "version", "serial_number", "signature_algorithm", "issuer", "validity_not_before",
        "validity_not_after", "subject", "subject_public_key_algorithm", "subject_public_key_modulus",
        "subject_public_key_exponent", "x509_v3_extensions"]})
    if v == "2.1":   # 2.0 words the option-name / integer-value rule as SHOULD: off there (AUDIT.md)
        _c(v, "SocketExt", {"k": "special", "name": "socket-options"})
    _c(v, "MarkingDefinition", {"k": "special", "name": "marking-definition"})
    for ext in ("ArchiveExt", "HTTPRequestExt", "ICMPExt", "NTFSExt", "PDFExt", "RasterImageExt", "SocketExt", "TCPExt",
                "UNIXAccountExt", "WindowsPEBinaryExt", "WindowsProcessExt", "WindowsServiceExt"):
        _c(v, ext, {"k": "special", "name": "non-empty"})
    # common: modified >= created (both versions state it for the common properties)
    for cls in ("AttackPattern", "Campaign", "CourseOfAction", "Identity", "Indicator", "IntrusionSet", "Malware", "ObservedData",
                "Report", "ThreatActor", "Tool", "Vulnerability", "Relationship", "Sighting"):
        _c(v, cls, {"k": "order", "a": "created", "b": "modified", "strict": False})
    _c(v, "Indicator", {"k": "special", "name": "stix-pattern"})
    _c(v, "ObservedData", {"k": "special", "name": "observed-data-container"})

_c("2.0", "File", {"k": "requires", "if": "encryption_algorithm", "then": ["is_encrypted"]},
   {"k": "requires", "if": "decryption_key", "then": ["is_encrypted"]}, {"k": "special", "name": "file20-is-encrypted"})

for cls in ("Grouping", "Incident", "Infrastructure", "Location", "MalwareAnalysis", "Note", "Opinion", "LanguageContent",
            "ExtensionDefinition"):
    _c("2.1", cls, {"k": "order", "a": "created", "b": "modified", "strict": False})
for cls in ("Campaign", "Infrastructure", "IntrusionSet", "Malware", "ThreatActor", "Sighting"):
    _c("2.1", cls, {"k": "order", "a": "first_seen", "b": "last_seen", "strict": False})
_c("2.1", "ObservedData", {"k": "order", "a": "first_observed", "b": "last_observed", "strict": False},
   {"k": "xor", "props": ["objects", "object_refs"]})
_c("2.1", "Indicator", {"k": "order", "a": "valid_from", "b": "valid_until", "strict": True})
_c("2.1", "Relationship", {"k": "order", "a": "start_time", "b": "stop_time", "strict": True})
_c("2.1", "NetworkTraffic", {"k": "order", "a": "start", "b": "end", "strict": False}, {"k": "special", "name": "nt-is-active"})
_c("2.1", "Location", {"k": "special", "name": "location"})
_c("2.1", "Malware", {"k": "special", "name": "malware-family-name"})
_c("2.1", "MalwareAnalysis", {"k": "at_least_one", "props": ["result", "analysis_sco_refs"]})
_c("2.1", "GranularMarking", {"k": "xor", "props": ["lang", "marking_ref"]})
_c("2.1", "Artifact", {"k": "requires", "if": "decryption_key", "then": ["encryption_algorithm"]})

# reference slots whose permitted target classes differ from the library's table
REF_OVERRIDE = {
    # relationship endpoints: SDO or SCO (the library uses a blacklist that lets extension-definition through)
    ("2.1", "Relationship", "source_ref"): {"auth": "whitelist", "generics": ["SCO", "SDO"], "specifics": []},
    ("2.1", "Relationship", "target_ref"): {"auth": "whitelist", "generics": ["SCO", "SDO"], "specifics": []},
    ("2.0", "Relationship", "source_ref"): {"auth": "whitelist", "generics": ["SDO"], "specifics": []},
    ("2.0", "Relationship", "target_ref"): {"auth": "whitelist", "generics": ["SDO"], "specifics": []},
}

# properties that the generator must not emit / validator must not descend into generically
OPAQUE = {("2.0", "MarkingDefinition", "definition"), ("2.1", "MarkingDefinition", "definition")}

# rules deliberately NOT checked (AUDIT.md): lang/country syntax, MIME syntax, relationship_type / kill-chain lowercase,
# user-account / windows-registry-key "at least one", extension-on-wrong-host, free-form dictionary values,
# 2.0 first_seen/last_seen, first_observed/last_observed, valid_from/valid_until ordering (unsure the 2.0 text has the MUST).
