#!/venv/bin/python
"""Entry point:  run.py Cxx [quick|thorough] [--replay FILE] [--worker K --out FILE]

Re-executes itself under /venv/bin/python with a pinned hash seed and with the
repository working tree ($VERIF_REPO, default /repo) first on sys.path.
"""
import importlib
import json
import os
import shutil
import subprocess
import sys
import tempfile
import time

HERE = os.path.dirname(os.path.abspath(__file__))
PY = "/venv/bin/python"


def _reexec():
    repo = os.environ.get("VERIF_REPO", "/repo")
    want = {
        "PYTHONHASHSEED": "0", "PYTHONDONTWRITEBYTECODE": "1", "VERIF_REPO": repo,
        "OASIS_OPEN_CTI_PYTHON_STIX2_VERIF": "1",
    }
    pp = os.pathsep.join([repo, HERE, os.path.join(HERE, ".deps")])
    if os.environ.get("_VERIF_REEXEC") == "1" and all(os.environ.get(k) == v for k, v in want.items()):
        return
    env = dict(os.environ)
    env.update(want)
    env["PYTHONPATH"] = pp
    env["_VERIF_REEXEC"] = "1"
    env.setdefault("VERIF_SEED", "1")
    os.execve(PY, [PY, os.path.abspath(__file__)] + sys.argv[1:], env)


def main():
    _reexec()
    sys.path.insert(0, HERE)
    from harness import core

    args = sys.argv[1:]
    if not args:
        print("usage: run.py Cxx [quick|thorough] [--replay FILE]")
        return 2
    pid = args[0].upper()
    tier = os.environ.get("VERIF_TIER", "quick")
    replay = None
    worker = None
    out = None
    sequence = None
    i = 1
    while i < len(args):
        a = args[i]
        if a in ("quick", "thorough"):
            tier = a
        elif a == "--tier":
            i += 1
            tier = args[i]
        elif a == "--replay":
            i += 1
            replay = args[i]
        elif a == "--worker":
            i += 1
            worker = int(args[i])
        elif a == "--out":
            i += 1
            out = args[i]
        elif a == "--sequence":
            i += 1
            sequence = args[i]
        i += 1
    if tier not in ("quick", "thorough"):
        tier = "quick"
    try:
        seed = int(os.environ.get("VERIF_SEED", "1"))
    except ValueError:
        seed = 1

    try:
        import stix2  # noqa
        assert os.path.realpath(stix2.__file__).startswith(os.path.realpath(core.REPO)), stix2.__file__
        mod = importlib.import_module("props." + pid.lower())
    except Exception as e:  # noqa
        print("HARNESS-ERROR: cannot import (%s)" % core.fmt_exc(e))
        print(core.tb_text(e))
        return 2

    if sequence:
        return do_sequence(core, mod, sequence, out)
    if replay:
        return do_replay(core, mod, pid, replay)
    if worker is not None:
        return do_worker(core, mod, pid, tier, seed, worker, out)
    return do_check(core, mod, pid, tier, seed)


def do_sequence(core, mod, path, out):
    """Run the cases of a sequence file in order in this (fresh) process; write the failures per position."""
    with open(path) as f:
        cases = json.load(f)["cases"]
    res = {"fails": [], "error": None}
    try:
        for c in cases:
            res["fails"].append([[k, core.short(d, 1500)] for k, d in core.replay_any(mod, c)])
    except Exception as e:  # noqa
        res["error"] = core.tb_text(e)
    with open(out, "w") as f:
        json.dump(res, f, default=repr)
    return 0


def do_replay(core, mod, pid, path):
    with open(path if os.path.isabs(path) or os.path.exists(path) else os.path.join(HERE, path)) as f:
        rec = json.load(f)
    try:
        fails = core.replay_any(mod, rec["case"])
    except Exception as e:  # noqa
        print("HARNESS-ERROR: replay raised %s" % core.fmt_exc(e))
        print(core.tb_text(e))
        return 2
    keys = [k for k, _ in fails]
    for k, d in fails:
        print("replay: %s -- %s" % (k, core.short(d, 400)))
    known = {e["key"] for e in core.load_known() if e["property"] == pid and e["status"] == "open"}
    bad = [k for k in keys if k not in known]
    if bad:
        print("VIOLATION property=%s replay=%s" % (pid, path))
        return 1
    print("replay: no unlisted failure reproduced")
    return 0


def do_worker(core, mod, pid, tier, seed, worker, out):
    ctx = core.Ctx(pid, tier, seed * 1000 + worker + 1, worker=worker)
    try:
        mod.run(ctx)
        res = ctx.result()
        res["error"] = None
    except core.HarnessError as e:
        res = ctx.result()
        res["error"] = "HarnessError: %s" % e
    except Exception as e:  # noqa
        res = ctx.result()
        res["error"] = core.tb_text(e)
    with open(out, "w") as f:
        json.dump(res, f, default=repr)
    return 0


def check_known(core, mod, pid):
    """Replay the witnesses of known_findings.json.  Returns (lines, violations)."""
    lines = []
    viols = {}
    for e in core.load_known():
        if e["property"] != pid:
            continue
        try:
            fails = core.replay_any(mod, e["witness"])
        except Exception as ex:  # noqa
            raise core.HarnessError("witness replay for %s raised %s\n%s" % (e["key"], core.fmt_exc(ex), core.tb_text(ex)))
        keys = [k for k, _ in fails]
        if e["status"] == "open":
            if e["key"] in keys:
                lines.append("KNOWN-FINDING: property=%s %s [%s]" % (pid, e["what"], e["key"]))
            # other keys on the witness are handled by the main search's classifier
        else:  # fixed: witness must pass completely w.r.t. its own key ("key#n" distinguishes several fixes in one bucket)
            mk = e["key"].split("#")[0]
            if mk in keys:
                d = [d for k, d in fails if k == mk][0]
                viols["regressed:" + e["key"]] = {"detail": "fixed finding is back: " + str(d), "case": e["witness"]}
    return lines, viols


def do_check(core, mod, pid, tier, seed):
    t0 = time.time()
    try:
        if hasattr(mod, "selftest"):
            mod.selftest()
        known_lines, known_viols = check_known(core, mod, pid)
    except core.HarnessError as e:
        print("HARNESS-ERROR: %s" % e)
        return 2
    except Exception as e:  # noqa
        print("HARNESS-ERROR: selftest/known replay raised %s" % core.fmt_exc(e))
        print(core.tb_text(e))
        return 2

    nworkers = 1
    if tier == "thorough":
        nworkers = int(os.environ.get("VERIF_WORKERS", getattr(mod, "WORKERS", 14)))
    results = []
    errors = []
    if nworkers == 1:
        ctx = core.Ctx(pid, tier, seed)
        try:
            mod.run(ctx)
        except core.HarnessError as e:
            errors.append("HarnessError: %s" % e)
        except Exception as e:  # noqa
            errors.append(core.tb_text(e))
        results.append(ctx.result())
    else:
        tmp = tempfile.mkdtemp(prefix="verif-%s-" % pid)
        try:
            procs = []
            for k in range(nworkers):
                out = os.path.join(tmp, "w%d.json" % k)
                p = subprocess.Popen([PY, os.path.abspath(__file__), pid, tier, "--worker", str(k), "--out", out],
                                     stdout=subprocess.PIPE, stderr=subprocess.STDOUT)
                procs.append((k, p, out))
            for k, p, out in procs:
                so, _ = p.communicate()
                if not os.path.exists(out):
                    errors.append("worker %d produced no result (rc=%s): %s" % (k, p.returncode, so.decode(errors="replace")[-2000:]))
                    continue
                with open(out) as f:
                    r = json.load(f)
                if r.get("error"):
                    errors.append("worker %d: %s" % (k, r["error"]))
                results.append(r)
        finally:
            shutil.rmtree(tmp, ignore_errors=True)

    merged = core.merge_results(results) if results else None
    viols = dict(known_viols)
    if merged:
        viols.update(merged["violations"])
    wall = time.time() - t0
    for ln in known_lines:
        print(ln)
    if merged:
        try:
            core.write_evidence(pid, tier, seed, merged, wall, len(viols))
        except Exception as e:  # noqa
            errors.append("evidence: " + core.tb_text(e))
        print("%s %s seed=%d: %d evaluations, %d distinct non-trivial, %d known-finding hits, %.1fs" % (
            pid, tier, seed, merged["evaluations"], len(merged["nontrivial"]),
            sum(merged["known_counts"].values()), wall))
    rc = 0
    if viols:
        for key, info in sorted(viols.items()):
            path = core.write_replay(pid, key, info)
            print("  failure %s: %s" % (key, core.short(info.get("detail"), 500)))
            print("VIOLATION property=%s replay=%s" % (pid, path))
        rc = 1
    if errors:
        for e in errors:
            print("HARNESS-ERROR: %s" % e)
        if rc == 0:
            rc = 2
    return rc


if __name__ == "__main__":
    sys.exit(main())
