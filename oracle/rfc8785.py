"""Independent RFC 8785 (JCS) canonical JSON.  Does not import stix2 and does
not use repr()/str() of floats: digits come from '%.{p}e' candidates that are
checked for round trip and exact closeness with fractions.
"""
import math
from fractions import Fraction


def utf16_units(s):
    out = []
    for ch in s:
        cp = ord(ch)
        if cp >= 0x10000:
            cp -= 0x10000
            out.append(0xD800 + (cp >> 10))
            out.append(0xDC00 + (cp & 0x3FF))
        else:
            out.append(cp)
    return out


_SHORT = {0x08: "\\b", 0x09: "\\t", 0x0A: "\\n", 0x0C: "\\f", 0x0D: "\\r", 0x22: '\\"', 0x5C: "\\\\"}


def quote(s):
    parts = ['"']
    for ch in s:
        cp = ord(ch)
        if cp in _SHORT:
            parts.append(_SHORT[cp])
        elif cp < 0x20:
            parts.append("\\u%04x" % cp)
        else:
            parts.append(ch)
    parts.append('"')
    return "".join(parts)


def shortest_digits(v):
    """v: finite positive float.  Returns (digits, n) with v ~= 0.digits * 10**n
    (ECMAScript's k digits / exponent n), digits without trailing zeros, the
    shortest that round-trips; ties broken by exact closeness to v."""
    exact = Fraction(v)
    for p in range(0, 18):
        txt = "%.*e" % (p, v)
        mant, exp = txt.split("e")
        e10 = int(exp)
        m = int(mant.replace(".", ""))
        cands = []
        for mm in (m - 1, m, m + 1):
            if mm <= 0:
                continue
            val = Fraction(mm) * (Fraction(10) ** (e10 - p))
            try:
                back = float(val)
            except OverflowError:
                continue
            if back == v:
                cands.append((abs(val - exact), mm))
        if cands:
            # closest to v; on an exact tie ECMAScript chooses the even digit string ("if there are two such
            # possible values of s, choose the one that is even")
            cands.sort(key=lambda c: (c[0], c[1] % 2))
            mm = cands[0][1]
            ds = str(mm)
            # position of the decimal point: value = mm * 10**(e10-p)
            n = len(ds) + (e10 - p)
            ds = ds.rstrip("0")
            return ds, n
    raise AssertionError("no round-tripping digit string for %r" % v)


def number(v):
    """ECMAScript Number::toString of the double nearest to v (int or float)."""
    if isinstance(v, bool):
        raise TypeError("bool is not a number")
    f = float(v)  # ints become the nearest double (I-JSON); OverflowError beyond range
    if f != f or f in (math.inf, -math.inf):
        raise ValueError("NaN/Infinity are not JSON")
    if f == 0:
        return "0"
    sign = "-" if f < 0 else ""
    ds, n = shortest_digits(abs(f))
    k = len(ds)
    if k <= n <= 21:
        body = ds + "0" * (n - k)
    elif 0 < n <= 21:
        body = ds[:n] + "." + ds[n:]
    elif -6 < n <= 0:
        body = "0." + "0" * (-n) + ds
    else:
        e = n - 1
        es = ("+" if e >= 0 else "-") + str(abs(e))
        if k == 1:
            body = ds + "e" + es
        else:
            body = ds[0] + "." + ds[1:] + "e" + es
    return sign + body


def canon(v):
    if v is None:
        return "null"
    if v is True:
        return "true"
    if v is False:
        return "false"
    if isinstance(v, (int, float)):
        return number(v)
    if isinstance(v, str):
        return quote(v)
    if isinstance(v, (list, tuple)):
        return "[" + ",".join(canon(x) for x in v) + "]"
    if isinstance(v, dict):
        items = sorted(v.items(), key=lambda kv: utf16_units(kv[0]))
        return "{" + ",".join(quote(k) + ":" + canon(x) for k, x in items) + "}"
    raise TypeError("not JSON: %r" % type(v))


def whitespace_outside_strings(text):
    """True if `text` (assumed JSON) has any whitespace outside string literals."""
    i, n = 0, len(text)
    in_str = False
    while i < n:
        c = text[i]
        if in_str:
            if c == "\\":
                i += 2
                continue
            if c == '"':
                in_str = False
        else:
            if c == '"':
                in_str = True
            elif c in " \t\r\n":
                return True
        i += 1
    return False


# Published vectors: RFC 8785 Appendix B (IEEE 754 sample values) and section 3.2.3 example.
VECTORS_HEX = [
    ("0000000000000000", "0"), ("8000000000000000", "0"), ("0000000000000001", "5e-324"),
    ("8000000000000001", "-5e-324"), ("7fefffffffffffff", "1.7976931348623157e+308"),
    ("ffefffffffffffff", "-1.7976931348623157e+308"), ("4340000000000000", "9007199254740992"),
    ("c340000000000000", "-9007199254740992"), ("4430000000000000", "295147905179352830000"),
    ("44b52d02c7e14af5", "9.999999999999997e+22"), ("44b52d02c7e14af6", "1e+23"),
    ("44b52d02c7e14af7", "1.0000000000000001e+23"), ("444b1ae4d6e2ef4e", "999999999999999700000"),
    ("444b1ae4d6e2ef4f", "999999999999999900000"), ("444b1ae4d6e2ef50", "1e+21"),
    ("3eb0c6f7a0b5ed8c", "9.999999999999997e-7"), ("3eb0c6f7a0b5ed8d", "0.000001"),
    ("41b3de4355555553", "333333333.3333332"), ("41b3de4355555554", "333333333.33333325"),
    ("41b3de4355555555", "333333333.3333333"), ("41b3de4355555556", "333333333.3333334"),
    ("41b3de4355555557", "333333333.33333343"), ("becbf647612f3696", "-0.0000033333333333333333"),
    ("43143ff3c1cb0959", "1424953923781206.2"),
    ("4300000000000006", "562949953421312.8"),   # exact tie between ...312.7 and ...312.8: the even digit string wins
]


def selftest():
    import struct
    for hx, exp in VECTORS_HEX:
        v = struct.unpack(">d", bytes.fromhex(hx))[0]
        got = number(v)
        if got != exp:
            raise AssertionError("rfc8785 oracle self-test: %s -> %r, expected %r" % (hx, got, exp))
    doc = {"numbers": [333333333.33333329, 1E30, 4.50, 2e-3, 0.000000000000000000000000001],
           "string": "\u20ac$\u000f\nA'B\"\\\\\"/", "literals": [None, True, False]}
    exp = ('{"literals":[null,true,false],"numbers":[333333333.3333333,1e+30,4.5,0.002,1e-27],'
           '"string":"€$\\u000f\\nA\'B\\"\\\\\\\\\\"/"}')
    if canon(doc) != exp:
        raise AssertionError("rfc8785 oracle self-test (3.2.2 example): %r" % canon(doc))
    keys = {"€": "Euro Sign", "\r": "Carriage Return", "דּ": "Hebrew Letter Dalet With Dagesh", "1": "One",
            "\U0001f600": "Emoji: Grinning Face", "\u0080": "Control", "ö": "Latin Small Letter O With Diaeresis"}
    order = [k for k, _ in sorted(keys.items(), key=lambda kv: utf16_units(kv[0]))]
    if order != ["\r", "1", "\u0080", "ö", "€", "\U0001f600", "דּ"]:
        raise AssertionError("rfc8785 oracle self-test (3.2.3 sort order): %r" % order)
