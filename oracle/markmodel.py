"""Reference models for data markings (C07, C08) and version chains (C05).

* selector paths as *component tuples* (never compared character-wise),
  ancestor/descendant relation on the path tree;
* enumerator of every selector path of a JSON document and near-miss builder;
* set-of-(selector | OBJECT, kind, marking) model of the marking state with
  add / remove / clear / set / query;
* version-chain helpers (expected document after a change set, spec-precision
  instants of serialized ``modified`` texts).

No stix2 import.  Only oracle/tsref.py (integer timestamp arithmetic).
"""
import copy
import re

from oracle import tsref

OBJECT = "$object"          # pseudo selector of object-level markings (object_marking_refs)
REF, LANG = "ref", "lang"


# ----------------------------------------------------------------------
# selector paths

def split(selector):
    """'a.[0].b' -> ('a', '[0]', 'b').  Components never contain '.' in the
    documents this model is used with (STIX property names / dictionary keys
    are [A-Za-z0-9_-])."""
    return tuple(selector.split("."))


def join(components):
    return ".".join(components)


def is_ancestor(a, b):
    """a is a proper ancestor of b on the path tree (component-wise prefix)."""
    a, b = split(a), split(b)
    return len(a) < len(b) and b[:len(a)] == a


def is_char_prefix(a, b):
    """What a *wrong* implementation would use: a is a proper character prefix of b."""
    return a != b and b.startswith(a)


def prefix_related_but_not_tree_related(a, b):
    """True when one selector is a character prefix of the other although neither
    is an ancestor of the other (created / created_by_ref, x_map.a / x_map.ab)."""
    if a == b:
        return False
    if is_char_prefix(a, b) and not is_ancestor(a, b):
        return True
    if is_char_prefix(b, a) and not is_ancestor(b, a):
        return True
    return False


def index_component(i):
    return "[%d]" % i


_INDEX_RE = re.compile(r"^\[(\d+)\]\Z")


def enum_paths(doc):
    """All selector paths of a JSON object: every property, every list index
    (``name.[i]``), every nested dictionary key, recursively (so embedded
    objects and extensions are covered).  Returns a list of (components, value)
    in document order; the root itself is not a path."""
    out = []

    def walk(value, comps):
        if isinstance(value, dict):
            for k, v in value.items():
                c = comps + (k,)
                out.append((c, v))
                walk(v, c)
        elif isinstance(value, list):
            for i, v in enumerate(value):
                c = comps + (index_component(i),)
                out.append((c, v))
                walk(v, c)

    walk(doc, ())
    return out


def resolve(doc, selector):
    """Independent resolver: (True, value) when `selector` addresses something in doc."""
    cur = doc
    for c in split(selector):
        m = _INDEX_RE.match(c)
        if isinstance(cur, list):
            if not m:
                return False, None
            i = int(m.group(1))
            if c != index_component(i) or i >= len(cur):   # '[01]' is not the spelling of an index
                return False, None
            cur = cur[i]
        elif isinstance(cur, dict):
            if c not in cur:
                return False, None
            cur = cur[c]
        else:
            return False, None
    return True, cur


# ---- features of a path that decide nothing in the oracle, only name the bucket of a failure ------------

# dictionaries which the library represents as its own object types (topmost ones only)
_EMBEDDED_LIST_PROPS = ("external_references", "kill_chain_phases", "granular_markings")
_EMBEDDED_DICT_VALUE_PROPS = ("extensions", "objects")
_EMBEDDED_DICT_PROPS = ("definition",)


def _below_embedded(doc, comps):
    """comps lies strictly below a dictionary that the library holds as an embedded
    object (external reference, kill-chain phase, extension, observed-data member)."""
    if len(comps) >= 3 and comps[0] in _EMBEDDED_LIST_PROPS and _INDEX_RE.match(comps[1]):
        return True
    if len(comps) >= 3 and comps[0] in _EMBEDDED_DICT_VALUE_PROPS:
        ok, v = resolve(doc, join(comps[:2]))
        return ok and isinstance(v, dict)
    if len(comps) >= 2 and comps[0] in _EMBEDDED_DICT_PROPS and doc.get("type") == "marking-definition":
        return True
    return False


def _py_equal_earlier(lst, i):
    """Element i is equal (Python ==, which is what list.index uses) to an earlier element."""
    return any(lst[j] == lst[i] for j in range(i))


def path_features(doc, comps, form="object"):
    """Named input features of a path (classifier predicates): 'falsy-value',
    'repeated-element', 'embedded-object' (object form only), 'uppercase-key',
    'list-in-list', 'depth>=2', 'list-index'."""
    f = set()
    ok, value = resolve(doc, join(comps))
    if not ok:
        raise ValueError("not a path of the document: %r" % (comps,))
    if isinstance(value, (bool, int, float, str, list, dict)) and not value:
        f.add("falsy-value")
    cur = doc
    prev_was_index = False
    for c in comps:
        m = _INDEX_RE.match(c)
        if isinstance(cur, list) and m:
            i = int(m.group(1))
            if _py_equal_earlier(cur, i):
                f.add("repeated-element")
            f.add("list-index")
            if prev_was_index:
                f.add("list-in-list")       # element of a list that is itself a list element
            prev_was_index = True
            cur = cur[i]
        else:
            prev_was_index = False
            cur = cur[c]
        if any("A" <= ch <= "Z" for ch in c):
            f.add("uppercase-key")
    if form == "object" and _below_embedded(doc, comps):
        f.add("embedded-object")
    if len(comps) >= 2:
        f.add("depth>=2")
    return f


QUESTIONED = ("uppercase-key", "embedded-object", "list-in-list", "repeated-element", "falsy-value")


def value_class(v):
    if isinstance(v, bool):
        return "bool-true" if v else "bool-false"
    if isinstance(v, (int, float)):
        return "number-zero" if v == 0 else "number"
    if isinstance(v, str):
        return "string" if v else "string-empty"
    if isinstance(v, list):
        return "list" if v else "list-empty"
    if isinstance(v, dict):
        return "dict" if v else "dict-empty"
    return "other"


def path_shape(comps):
    return "/".join("i" if _INDEX_RE.match(c) else "k" for c in comps)


# ---- near misses -------------------------------------------------------------------------------------------

ABSENT_NAMES = ("title", "foo_bar", "summary", "x_absent", "object_ref", "nam", "named", "labelz")
NEAR_KINDS = ("absent-property", "absent-nested-key", "index-at-length", "index-far", "key-under-scalar", "index-under-scalar",
              "index-on-dict", "key-on-list", "skipped-index", "misspelled-component", "char-prefix-of-last", "char-extension-of-last")


def near_miss(doc, kind, a=0, b=0):
    """Build a selector of the given near-miss kind from the a-th suitable base path of
    doc (indices modulo the number of candidates; b varies the spelling).  Returns
    (selector, base_selector) or None when the document offers no base for this kind
    or the constructed text happens to address something."""
    paths = enum_paths(doc)
    existing = {join(c) for c, _ in paths}

    def pick(cands):
        return cands[a % len(cands)] if cands else None

    sel = base = None
    if kind == "absent-property":
        sel = ABSENT_NAMES[(a + b) % len(ABSENT_NAMES)]
        base = ""
    elif kind == "absent-nested-key":
        p = pick([c for c, v in paths if isinstance(v, dict)])
        if p:
            base, sel = join(p), join(p + (("zz", "k9", "absent_key", "q")[b % 4],))
    elif kind in ("index-at-length", "index-far"):
        p = pick([(c, v) for c, v in paths if isinstance(v, list)])
        if p:
            n = len(p[1]) if kind == "index-at-length" else len(p[1]) + (1, 7, 1000, 10 ** 6)[b % 4]
            base, sel = join(p[0]), join(p[0] + (index_component(n),))
    elif kind in ("key-under-scalar", "index-under-scalar"):
        p = pick([c for c, v in paths if not isinstance(v, (list, dict))])
        if p:
            tail = ("value", "len", "a", "x_y")[b % 4] if kind == "key-under-scalar" else index_component((0, 1)[b % 2])
            base, sel = join(p), join(p + (tail,))
    elif kind == "index-on-dict":
        p = pick([c for c, v in paths if isinstance(v, dict)])
        if p:
            base, sel = join(p), join(p + (index_component((0, 1)[b % 2]),))
    elif kind == "key-on-list":
        p = pick([c for c, v in paths if isinstance(v, list)])
        if p:
            base, sel = join(p), join(p + (("first", "0", "a", "length")[b % 4],))
    elif kind == "skipped-index":
        # list of dictionaries addressed without the index: external_references.source_name
        p = pick([c for c, v in paths if len(c) >= 3 and _INDEX_RE.match(c[-2]) and not _INDEX_RE.match(c[-1])])
        if p:
            base, sel = join(p), join(p[:-2] + p[-1:])
    elif kind == "misspelled-component":
        p = pick([c for c, _ in paths if any(not _INDEX_RE.match(x) for x in c)])
        if p:
            named = [i for i, x in enumerate(p) if not _INDEX_RE.match(x)]
            i = named[b % len(named)]
            w = p[i]
            variants = [w + "s", w + "_", w[:-1] + ("x" if w[-1] != "x" else "y"), w[1:] + w[:1] if len(w) > 1 else w + w, w + "0"]
            w2 = variants[(a + b) % len(variants)]
            base, sel = join(p), join(p[:i] + (w2,) + p[i + 1:])
    elif kind == "char-prefix-of-last":
        p = pick([c for c, _ in paths if not _INDEX_RE.match(c[-1]) and len(c[-1]) >= 2])
        if p:
            w = p[-1]
            cut = 1 + (b % (len(w) - 1))
            if len(p) == 1:
                cut = max(cut, min(3, len(w) - 1))
            base, sel = join(p), join(p[:-1] + (w[:cut],))
    elif kind == "char-extension-of-last":
        p = pick([c for c, _ in paths if not _INDEX_RE.match(c[-1])])
        if p:
            base, sel = join(p), join(p[:-1] + (p[-1] + ("_ref", "s", "_x", "0")[b % 4],))
    else:
        raise ValueError(kind)
    if sel is None or sel in existing or resolve(doc, sel)[0]:
        return None
    return sel, base


# ----------------------------------------------------------------------
# marking state as a set of (selector | OBJECT, kind, marking)

def kind_of(marking):
    return REF if marking.startswith("marking-definition--") else LANG


def read_pairs(doc):
    """Pair *list* (with multiplicity) carried by a JSON document."""
    out = []
    for m in doc.get("object_marking_refs", []) or []:
        out.append((OBJECT, REF, m))
    for gm in doc.get("granular_markings", []) or []:
        for s in gm.get("selectors", []):
            if "marking_ref" in gm:
                out.append((s, REF, gm["marking_ref"]))
            if "lang" in gm:
                out.append((s, LANG, gm["lang"]))
    return out


class MarkState(object):
    def __init__(self, pairs=()):
        self.pairs = set(pairs)

    @classmethod
    def from_doc(cls, doc):
        return cls(read_pairs(doc))

    def copy(self):
        return MarkState(self.pairs)

    def _targets(self, selectors):
        return [OBJECT] if selectors is None else list(selectors)

    def _wanted(self, markings, selectors):
        return {(s, kind_of(m), m) for s in self._targets(selectors) for m in markings}

    # every mutator returns the new state and leaves self unchanged
    def add(self, markings, selectors=None):
        return MarkState(self.pairs | self._wanted(markings, selectors))

    def remove(self, markings, selectors=None):
        """-> (new state, present pairs, absent pairs)"""
        want = self._wanted(markings, selectors)
        return MarkState(self.pairs - want), want & self.pairs, want - self.pairs

    def clear(self, selectors=None, marking_ref=True, lang=True):
        """-> (new state, removed pairs, pairs sitting on the selectors whatever their kind)"""
        t = set(self._targets(selectors))
        kinds = set()
        if marking_ref:
            kinds.add(REF)
        if lang:
            kinds.add(LANG)
        on = {p for p in self.pairs if p[0] in t}
        gone = {p for p in on if p[1] in kinds}
        return MarkState(self.pairs - gone), gone, on

    def set(self, markings, selectors=None, marking_ref=True, lang=True):
        st, gone, on = self.clear(selectors, marking_ref, lang)
        return st.add(markings, selectors), gone, on

    def query(self, selectors, inherited=False, descendants=False, marking_ref=True, lang=True,
              relation="tree", object_level_when_inherited=True, object_level_filtered=True):
        """Markings reported for the selectors (None = object level only)."""
        kinds = set()
        if marking_ref:
            kinds.add(REF)
        if lang:
            kinds.add(LANG)
        if selectors is None:
            return {m for s, k, m in self.pairs if s == OBJECT}
        anc = is_ancestor if relation == "tree" else is_char_prefix
        out = set()
        for u in selectors:
            for s, k, m in self.pairs:
                if s == OBJECT or k not in kinds:
                    continue
                if s == u or (inherited and anc(s, u)) or (descendants and anc(u, s)):
                    out.add(m)
        if inherited and object_level_when_inherited:
            for s, k, m in self.pairs:
                if s == OBJECT and (k in kinds or not object_level_filtered):
                    out.add(m)
        return out


# ----------------------------------------------------------------------
# version chains (C05)

IDENTITY_PROPS = ("type", "id", "created", "created_by_ref")
MARKING_PROPS = ("object_marking_refs", "granular_markings")


def spec_precision(version):
    """(precision, constraint) of created/modified at serialization: STIX 2.0 writes exactly
    three fraction digits, 2.1 at least three (up to microseconds kept)."""
    return ("millisecond", "exact") if version == "2.0" else ("millisecond", "min")


def spec_instant(text, version):
    """Instant (us) of a serialized timestamp text as it reads at the spec version's precision."""
    t = tsref.parse(text)[0]
    p, c = spec_precision(version)
    return tsref.truncate(t, p, c)


def spec_truncate(t, version):
    p, c = spec_precision(version)
    return tsref.truncate(t, p, c)


def expected_after(prev_doc, changes):
    """Document expected after new_version(**changes), `modified` left out: every key of
    `changes` set (None = removed), everything else as before."""
    exp = copy.deepcopy(prev_doc)
    for k, v in changes.items():
        if v is None:
            exp.pop(k, None)
        else:
            exp[k] = copy.deepcopy(v)
    exp.pop("modified", None)
    return exp


def _norm(key, value):
    if key == "object_marking_refs" and isinstance(value, list):
        return ("$set", tuple(sorted(value)))        # order is not part of the statement (built from a set)
    if key == "granular_markings" and isinstance(value, list):
        return ("$pairs", tuple(sorted(read_pairs({"granular_markings": value}))))
    return value


def differing_keys(a, b, ignore=("modified",)):
    """Top-level keys on which two JSON documents differ."""
    keys = (set(a) | set(b)) - set(ignore)
    _missing = object()
    return sorted(k for k in keys if _norm(k, a.get(k, _missing)) != _norm(k, b.get(k, _missing)))


class Chain(object):
    """Serialized versions of one object, in order."""

    def __init__(self, version):
        self.version = version
        self.docs = []
        self.instants = []

    def append(self, doc):
        self.docs.append(copy.deepcopy(doc))
        self.instants.append(spec_instant(doc["modified"], self.version))

    def strictly_increasing(self):
        return all(a < b for a, b in zip(self.instants, self.instants[1:]))


def selftest():
    assert split("a.[0].b") == ("a", "[0]", "b")
    assert is_ancestor("created", "created.x") and not is_ancestor("created", "created_by_ref")
    assert is_char_prefix("created", "created_by_ref")
    assert prefix_related_but_not_tree_related("x_map.a", "x_map.ab")
    assert not prefix_related_but_not_tree_related("labels", "labels.[0]")
    doc = {"type": "identity", "name": "", "labels": ["a", "a", "b"], "x_map": {"K": 0, "n": {"m": [False]}},
           "external_references": [{"source_name": "s", "hashes": {"MD5": "0"}}]}
    sels = [join(c) for c, _ in enum_paths(doc)]
    assert sels == ["type", "name", "labels", "labels.[0]", "labels.[1]", "labels.[2]", "x_map", "x_map.K", "x_map.n", "x_map.n.m",
                    "x_map.n.m.[0]", "external_references", "external_references.[0]", "external_references.[0].source_name",
                    "external_references.[0].hashes", "external_references.[0].hashes.MD5"], sels
    for s in sels:
        assert resolve(doc, s)[0], s
    assert not resolve(doc, "labels.[3]")[0] and not resolve(doc, "name.x")[0] and not resolve(doc, "labels.[01]")[0]
    assert path_features(doc, ("name",)) == {"falsy-value"}
    assert path_features(doc, ("labels", "[1]")) == {"repeated-element", "list-index", "depth>=2"}
    assert path_features(doc, ("labels", "[2]")) == {"list-index", "depth>=2"}
    assert "uppercase-key" in path_features(doc, ("x_map", "K")) and "falsy-value" in path_features(doc, ("x_map", "K"))
    assert "embedded-object" in path_features(doc, ("external_references", "[0]", "source_name"))
    assert "embedded-object" not in path_features(doc, ("external_references", "[0]", "source_name"), form="dict")
    assert "embedded-object" not in path_features(doc, ("external_references", "[0]"))
    assert "list-in-list" in path_features({"x": [[1, 2]]}, ("x", "[0]", "[1]")) and "list-in-list" not in path_features({"x": [[1, 2]]}, ("x", "[0]"))
    assert "list-in-list" not in path_features({"x": [{"y": [1]}]}, ("x", "[0]", "y", "[0]"))
    for kind in NEAR_KINDS:
        for a in range(6):
            for b in range(4):
                r = near_miss(doc, kind, a, b)
                if r is not None:
                    assert not resolve(doc, r[0])[0], (kind, r)
    assert near_miss(doc, "index-at-length", 0, 0)[0] == "labels.[3]"
    assert near_miss(doc, "skipped-index", 0, 0)[0] == "external_references.source_name"
    m1, m2 = "marking-definition--1", "marking-definition--2"
    s = MarkState().add([m1], ["created"]).add([m2]).add(["en"], ["x_map"])
    assert s.query(["created_by_ref"], inherited=True) == {m2}
    assert s.query(["created_by_ref"], inherited=True, relation="chars") == {m1, m2}
    assert s.query(["x_map.a"], inherited=True, marking_ref=False) == {"en"}
    assert s.query(["x_map.a"], inherited=True, marking_ref=False, object_level_filtered=False) == {"en", m2}
    assert s.query(["x_map.a"]) == set() and s.query(None) == {m2}
    s2, present, absent = s.remove([m1, m2], ["created"])
    assert present == {("created", REF, m1)} and absent == {("created", REF, m2)} and ("created", REF, m1) not in s2.pairs
    s3, gone, on = s.clear(["x_map"], lang=False)
    assert not gone and on == {("x_map", LANG, "en")} and s3.pairs == s.pairs
    s4, _, _ = s.set([m1], ["x_map"])
    assert s4.query(["x_map"]) == {m1}
    assert read_pairs({"object_marking_refs": [m1], "granular_markings": [{"marking_ref": m2, "selectors": ["a", "b"]}, {"lang": "en", "selectors": ["a"]}]}) == \
        [(OBJECT, REF, m1), ("a", REF, m2), ("b", REF, m2), ("a", LANG, "en")]
    assert spec_instant("2020-01-01T00:00:00.0019Z", "2.0") + 900 == spec_instant("2020-01-01T00:00:00.0019Z", "2.1")
    assert expected_after({"a": 1, "b": 2, "modified": "x"}, {"a": None, "c": [1]}) == {"b": 2, "c": [1]}
    assert differing_keys({"a": 1, "object_marking_refs": [m1, m2]}, {"a": 1, "object_marking_refs": [m2, m1], "modified": "z"}) == []
    assert differing_keys({"a": 1}, {"a": 2, "b": 0}) == ["a", "b"]
