"""Reference timestamp arithmetic: proleptic Gregorian calendar in integers,
instants as microseconds since 0001-01-01T00:00:00Z.  No datetime, no stix2.
"""
import re

US_PER_DAY = 86400 * 10 ** 6


def is_leap(y):
    return y % 4 == 0 and (y % 100 != 0 or y % 400 == 0)


def days_in_month(y, m):
    if m == 2:
        return 29 if is_leap(y) else 28
    return 30 if m in (4, 6, 9, 11) else 31


def days_from_civil(y, m, d):
    """Days since 0001-01-01 (which is day 0)."""
    y -= 1
    days = y * 365 + y // 4 - y // 100 + y // 400
    for mm in range(1, m):
        days += days_in_month(y + 1, mm)
    return days + d - 1


def civil_from_days(n):
    # year by successive subtraction of 400/100/4/1-year cycles
    n400, r = divmod(n, 146097)
    n100, r = divmod(r, 36524)
    if n100 == 4:
        n100, r = 3, r + 36524
    n4, r = divmod(r, 1461)
    n1, r = divmod(r, 365)
    if n1 == 4:
        n1, r = 3, r + 365
    y = n400 * 400 + n100 * 100 + n4 * 4 + n1 + 1
    m = 1
    while r >= days_in_month(y, m):
        r -= days_in_month(y, m)
        m += 1
    return y, m, r + 1


def instant(y, mo, d, h=0, mi=0, s=0, us=0, offset_s=0):
    """UTC instant in microseconds of a local civil time with UTC offset (seconds)."""
    local = days_from_civil(y, mo, d) * US_PER_DAY + ((h * 60 + mi) * 60 + s) * 10 ** 6 + us
    return local - offset_s * 10 ** 6


MIN_INSTANT = 0
MAX_INSTANT = days_from_civil(9999, 12, 31) * US_PER_DAY + US_PER_DAY - 1


def in_range(t):
    return MIN_INSTANT <= t <= MAX_INSTANT


def truncate(t, precision, constraint):
    if precision == "second" and constraint == "exact":
        return t - t % 10 ** 6
    if precision == "millisecond" and constraint == "exact":
        return t - t % 1000
    return t


def fmt(t, precision="any", constraint="exact"):
    """Canonical text the specification/library documentation requires for UTC
    instant t under (precision, constraint).  Truncates, never rounds."""
    days, rem = divmod(t, US_PER_DAY)
    y, mo, d = civil_from_days(days)
    secs, us = divmod(rem, 10 ** 6)
    h, r = divmod(secs, 3600)
    mi, s = divmod(r, 60)
    head = "%04d-%02d-%02dT%02d:%02d:%02d" % (y, mo, d, h, mi, s)
    six = "%06d" % us
    if precision == "any":
        frac = six.rstrip("0")
    elif precision == "second":
        frac = "" if constraint == "exact" else six.rstrip("0")
    elif precision == "millisecond":
        if constraint == "exact":
            frac = six[:3]
        else:
            frac = six.rstrip("0")
            if len(frac) < 3:
                frac = frac + "0" * (3 - len(frac))
    else:
        raise ValueError(precision)
    return head + ("." + frac if frac else "") + "Z"


CANON_RE = re.compile(r"^(\d{4})-(\d{2})-(\d{2})T(\d{2}):(\d{2}):(\d{2})(?:\.(\d+))?Z\Z")


def parse(text):
    """Strict parser of the canonical form.  Returns (instant_us, n_fraction_digits,
    sub_microsecond_digits) or raises ValueError."""
    m = CANON_RE.match(text)
    if not m:
        raise ValueError("not canonical STIX timestamp form: %r" % text)
    y, mo, d, h, mi, s = (int(g) for g in m.groups()[:6])
    frac = m.group(7) or ""
    if not (1 <= y <= 9999 and 1 <= mo <= 12 and 1 <= d <= days_in_month(y, mo) and h <= 23 and mi <= 59 and s <= 59):
        raise ValueError("not a calendar date/time: %r" % text)
    us = int((frac + "000000")[:6]) if frac else 0
    return instant(y, mo, d, h, mi, s, us), len(frac), frac[6:]


def selftest():
    assert days_from_civil(1, 1, 1) == 0
    assert days_from_civil(1970, 1, 1) == 719162, days_from_civil(1970, 1, 1)
    assert civil_from_days(719162) == (1970, 1, 1)
    assert civil_from_days(days_from_civil(2000, 2, 29)) == (2000, 2, 29)
    assert civil_from_days(days_from_civil(9999, 12, 31)) == (9999, 12, 31)
    assert civil_from_days(days_from_civil(1900, 3, 1) - 1) == (1900, 2, 28)
    for n in (0, 1, 365, 366, 1460, 1461, 36523, 36524, 146096, 146097, 730119, 3652058):
        assert days_from_civil(*civil_from_days(n)) == n, n
    t = instant(2020, 1, 1, 0, 0, 0, 123456)
    assert fmt(t) == "2020-01-01T00:00:00.123456Z"
    assert fmt(t, "millisecond", "exact") == "2020-01-01T00:00:00.123Z"
    assert fmt(t, "second", "exact") == "2020-01-01T00:00:00Z"
    assert fmt(instant(2020, 1, 1, 0, 0, 0, 100000), "millisecond", "min") == "2020-01-01T00:00:00.100Z"
    assert fmt(instant(2020, 1, 1, 0, 0, 0, 0), "millisecond", "min") == "2020-01-01T00:00:00.000Z"
    assert fmt(instant(2020, 1, 1, 0, 0, 0, 0), "millisecond", "exact") == "2020-01-01T00:00:00.000Z"
    assert fmt(instant(2020, 1, 1, 0, 0, 0, 120000), "any") == "2020-01-01T00:00:00.12Z"
    assert fmt(instant(999, 1, 1)) == "0999-01-01T00:00:00Z"
    # 2020-01-01T05:30 at +05:30 is midnight UTC
    assert fmt(instant(2020, 1, 1, 5, 30, 0, 0, offset_s=19800)) == "2020-01-01T00:00:00Z"
    assert parse("2020-01-01T00:00:00.5Z")[0] == instant(2020, 1, 1, 0, 0, 0, 500000)
    for bad in ("999-01-01T00:00:00Z", "2020-02-30T00:00:00Z", "2020-01-01T00:00:00", "2020-01-01 00:00:00Z", "2020-01-01T00:00:00.Z"):
        try:
            parse(bad)
        except ValueError:
            continue
        raise AssertionError("accepted " + bad)
