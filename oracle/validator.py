"""Specification validator driven by the frozen model.  Independent of stix2.

validate(doc, ver) -> list of (rule, path, message).  Only rules held with high
confidence are implemented (DESIGN C02, Appendix A); everything else is
accepted.  Third-party `stix2patterns` (not part of stix2) validates patterns.
"""
import re

from oracle import model as M
from oracle import tsref

UUID_RE = re.compile(r"^[0-9a-fA-F]{8}-[0-9a-fA-F]{4}-([0-9a-fA-F])[0-9a-fA-F]{3}-([0-9a-fA-F])[0-9a-fA-F]{3}-[0-9a-fA-F]{12}\Z")
SELECTOR_SYNTAX = re.compile(r"^[A-Za-z0-9_-]+(\.(\[\d+\]|[A-Za-z0-9_-]+))*\Z")
B64_RE = re.compile(r"^(?:[A-Za-z0-9+/]{4})*(?:[A-Za-z0-9+/]{2}==|[A-Za-z0-9+/]{3}=)?\Z")
HEX_RE = re.compile(r"^([a-fA-F0-9]{2})+\Z")
DICT_KEY_RE = re.compile(r"^[a-zA-Z0-9_-]+\Z")
SOCKET_PREFIXES = ("SO_", "ICMP_", "ICMP6_", "IP_", "IPV6_", "MCAST_", "TCP_", "IRLMP_")


def id_problem(value, ver, prefix=None):
    """None if `value` is a well-formed identifier for `ver`, else a message."""
    if not isinstance(value, str):
        return "identifier is not a string"
    if "--" not in value:
        return "no '--' separator"
    t, u = value.split("--", 1)
    if prefix is not None and t != prefix:
        return "prefix %r is not %r" % (t, prefix)
    if not re.match(r"^[a-z0-9-]+\Z", t or "!"):
        return "bad type part %r" % t
    m = UUID_RE.match(u)
    if not m:
        return "UUID part %r is not in canonical 8-4-4-4-12 hex form" % u
    if m.group(2).lower() not in "89ab":
        return "UUID variant is not RFC 4122"
    if ver == "2.0" and m.group(1) != "4":
        return "STIX 2.0 requires UUIDv4"
    return None


def ts_key(text):
    if not isinstance(text, str):
        raise ValueError("timestamp is not a string")
    t, n, extra = tsref.parse(text)
    return (t, int((extra + "0" * 12)[:12] or "0"))


def resolve_selector(doc, sel):
    """True if selector addresses an existing property / element / key of doc."""
    cur = doc
    for comp in sel.split("."):
        m = re.match(r"^\[(\d+)\]\Z", comp)
        if m:
            i = int(m.group(1))
            if not isinstance(cur, list) or i >= len(cur):
                return False
            cur = cur[i]
        else:
            if not isinstance(cur, dict) or comp not in cur:
                return False
            cur = cur[comp]
    return True


class V(object):
    def __init__(self, ver):
        self.ver = ver
        self.m = M.get(ver)
        self.out = []

    def bad(self, rule, path, msg):
        self.out.append((rule, path, msg))

    # -- generic structure rules ------------------------------------------------
    def no_null_empty(self, val, path):
        """Inside free-form values (dictionary values, unregistered extension bodies)."""
        if val is None:
            self.bad("null-in-free-form-value", path, "null value")
        elif isinstance(val, list):
            if not val:
                self.bad("empty-list-in-free-form-value", path, "empty list")
            for i, x in enumerate(val):
                self.no_null_empty(x, "%s.[%d]" % (path, i))
        elif isinstance(val, dict):
            for k, x in val.items():
                self.no_null_empty(x, "%s.%s" % (path, k))

    # -- objects ------------------------------------------------------------------
    def obj(self, doc, clsname, path, root=None, container=None, toplevel=False):
        if not isinstance(doc, dict):
            self.bad("wrong-kind:object", path, "expected an object, got %s" % type(doc).__name__)
            return
        root = doc if root is None else root
        cls = self.m.cls(clsname)
        props = cls["properties"]
        has_toplevel_ext = False
        if "extensions" in props and isinstance(doc.get("extensions"), dict):
            for k, ev in doc["extensions"].items():
                if isinstance(ev, dict) and ev.get("extension_type") == "toplevel-property-extension":
                    has_toplevel_ext = True
        for name, d in props.items():
            if required_in_spec(name, d, cls, self.ver) and name not in doc:
                self.bad("required-missing", "%s.%s" % (path, name), "%s lacks required %r" % (clsname, name))
        for name, val in doc.items():
            p = "%s.%s" % (path, name) if path else name
            if name not in props:
                if has_toplevel_ext:
                    # a property some (unknown) top-level extension defines: its type is unknown, what holds for all STIX content is not
                    self.no_null_empty(val, p)
                    continue
                self.bad("unknown-property", p, "%s has no property %r" % (clsname, name))
                continue
            self.value(val, props[name], p, root, container, owner=(clsname, name))
        for c in cls.get("constraints", []):
            self.constraint(doc, c, clsname, path, root, container)

    def value(self, val, d, path, root, container, owner=None):
        k = d["kind"]
        ver = self.ver
        if val is None:
            self.bad("null", path, "null value")
            return
        if "fixed" in d:
            if val != d["fixed"]:
                self.bad("fixed-value", path, "must equal %r, is %r" % (d["fixed"], val))
            return
        if k in ("string", "open-vocab", "pattern", "type"):
            if not isinstance(val, str):
                self.bad("wrong-kind:string", path, "expected string, got %r" % (val,))
        elif k == "enum":
            if not isinstance(val, str):
                self.bad("wrong-kind:string", path, "expected string, got %r" % (val,))
            elif val not in d["allowed"]:
                self.bad("enum", path, "%r not in vocabulary" % val)
        elif k == "id":
            pr = id_problem(val, ver, d["prefix"][:-2])
            if pr:
                self.bad("id-syntax", path, "%r: %s" % (val, pr))
        elif k == "reference":
            pr = id_problem(val, ver)
            if pr:
                self.bad("ref-syntax", path, "%r: %s" % (val, pr))
            else:
                t = val.split("--", 1)[0]
                if d["auth"] == "whitelist":
                    if t not in self.m.ref_targets(d):
                        self.bad("ref-type", path, "reference to %r not permitted here (%s)" % (t, ",".join(d["generics"] + d["specifics"])))
                else:
                    if t in d["specifics"] or t not in self.m.all_known_types():
                        self.bad("ref-type", path, "reference to %r not permitted here" % t)
        elif k == "integer":
            if isinstance(val, bool) or not isinstance(val, int):
                self.bad("wrong-kind:integer", path, "expected integer, got %r" % (val,))
            else:
                if d.get("min") is not None and val < d["min"]:
                    self.bad("out-of-range", path, "%r < %r" % (val, d["min"]))
                if d.get("max") is not None and val > d["max"]:
                    self.bad("out-of-range", path, "%r > %r" % (val, d["max"]))
        elif k == "float":
            if isinstance(val, bool) or not isinstance(val, (int, float)):
                self.bad("wrong-kind:number", path, "expected number, got %r" % (val,))
            else:
                if val != val or val in (float("inf"), float("-inf")):
                    self.bad("not-finite", path, "%r" % val)
                if d.get("min") is not None and val < d["min"]:
                    self.bad("out-of-range", path, "%r < %r" % (val, d["min"]))
                if d.get("max") is not None and val > d["max"]:
                    self.bad("out-of-range", path, "%r > %r" % (val, d["max"]))
        elif k == "boolean":
            if not isinstance(val, bool):
                self.bad("wrong-kind:boolean", path, "expected boolean, got %r" % (val,))
        elif k == "timestamp":
            if not isinstance(val, str):
                self.bad("wrong-kind:timestamp", path, "expected timestamp string, got %r" % (val,))
            else:
                try:
                    _, nfrac, _ = tsref.parse(val)
                    if ver == "2.0" and d.get("precision") == "millisecond" and nfrac != 3:
                        self.bad("ts-precision-20", path, "2.0 created/modified need exactly 3 fraction digits: %r" % val)
                except ValueError as e:
                    self.bad("timestamp-syntax", path, str(e))
        elif k == "list":
            if not isinstance(val, list):
                self.bad("wrong-kind:list", path, "expected list, got %r" % (val,))
            elif not val:
                self.bad("empty-list", path, "empty list")
            else:
                for i, x in enumerate(val):
                    self.value(x, d["of"], "%s.[%d]" % (path, i), root, container, owner)
        elif k == "dictionary":
            if not isinstance(val, dict):
                self.bad("wrong-kind:dictionary", path, "expected object, got %r" % (val,))
            elif not val:
                self.bad("empty-dict", path, "empty dictionary")
            else:
                for key, x in val.items():
                    self.dict_key(key, path)
                    self.no_null_empty(x, "%s.%s" % (path, key))
        elif k == "hashes":
            if not isinstance(val, dict):
                self.bad("wrong-kind:dictionary", path, "expected object, got %r" % (val,))
            elif not val:
                self.bad("empty-dict", path, "empty hashes")
            else:
                for key, x in val.items():
                    if key not in d["hash_names"]:
                        self.bad("hash-key", path + "." + key, "%r is not in the %s hash vocabulary" % (key, ver))
                    if not isinstance(x, str) or not x:
                        self.bad("hash-value", path + "." + key, "hash value %r" % (x,))
                    elif key in self.m.hash_shapes and not (re.match(self.m.hash_shapes[key], x) and not x.endswith("\n")):
                        self.bad("hash-value", path + "." + key, "%r is not a %s value" % (x, key))
        elif k == "hex":
            if not isinstance(val, str) or not HEX_RE.match(val):
                self.bad("hex", path, "%r is not an even-length hex string" % (val,))
        elif k == "binary":
            if not isinstance(val, str) or not B64_RE.match(val):
                self.bad("base64", path, "%r is not base64" % (val,))
        elif k == "embedded":
            self.obj(val, d["cls"], path, root, container)
        elif k == "selector":
            if not isinstance(val, str) or not SELECTOR_SYNTAX.match(val):
                self.bad("selector-syntax", path, "%r" % (val,))
            elif not resolve_selector(root, val):
                self.bad("selector-unresolved", path, "selector %r addresses nothing" % val)
        elif k == "extensions":
            self.extensions(val, path, root, container)
        elif k == "observable-container":
            self.container(val, path)
        elif k == "object-ref":
            if not isinstance(val, str):
                self.bad("wrong-kind:string", path, "object reference %r" % (val,))
            elif container is not None:
                if val not in container:
                    self.bad("object-ref-unresolved", path, "%r is not a key of the container" % val)
                elif d.get("valid_types") and isinstance(container[val], dict) and container[val].get("type") not in d["valid_types"]:
                    self.bad("object-ref-type", path, "%r refers to a %r" % (val, container[val].get("type")))
        elif k == "stix-object":
            self.member(val, path)
        elif k == "marking-definition-body":
            pass  # checked by the marking-definition special (needs definition_type)
        elif k == "any":
            self.no_null_empty(val, path)
        else:
            raise AssertionError("validator: unknown kind %r" % k)

    def dict_key(self, key, path):
        if not DICT_KEY_RE.match(key):
            self.bad("dict-key", path, "key %r has characters outside [a-zA-Z0-9_-]" % key)
        if self.ver == "2.0" and not (3 <= len(key) <= 256):
            self.bad("dict-key", path, "key %r length outside 3..256" % key)
        if self.ver == "2.1" and not (1 <= len(key) <= 250):
            self.bad("dict-key", path, "key %r length outside 1..250" % key)

    def extensions(self, val, path, root, container):
        if not isinstance(val, dict):
            self.bad("wrong-kind:dictionary", path, "extensions must be an object")
            return
        if not val:
            self.bad("empty-dict", path, "empty extensions")
        for key, ev in val.items():
            p = "%s.%s" % (path, key)
            if key in self.m.extensions:
                self.obj(ev, self.m.extensions[key], p, root, container)
            elif key.startswith("extension-definition--") and self.ver == "2.1":
                pr = id_problem(key, self.ver, "extension-definition")
                if pr:
                    self.bad("id-syntax", p, "extension key %r: %s" % (key, pr))
                if not isinstance(ev, dict):
                    self.bad("wrong-kind:object", p, "extension value must be an object")
                else:
                    self.no_null_empty(ev, p)
            else:
                self.bad("unknown-extension", p, "extension %r is not defined by the specification" % key)

    def container(self, val, path):
        if not isinstance(val, dict):
            self.bad("wrong-kind:dictionary", path, "observable container must be an object")
            return
        if not val:
            self.bad("empty-dict", path, "empty observable container")
        for key, o in val.items():
            p = "%s.%s" % (path, key)
            if not isinstance(o, dict) or not isinstance(o.get("type"), str):
                self.bad("wrong-kind:object", p, "container member must be an object with a type")
                continue
            cname = self.m.class_for_type(o["type"], container=True) if o["type"] in self.m.observables else None
            if cname is None:
                self.bad("unknown-type", p, "unknown observable type %r" % o["type"])
                continue
            self.obj(o, cname, p, root=o, container=val)

    def member(self, o, path):
        if not isinstance(o, dict) or not isinstance(o.get("type"), str):
            self.bad("wrong-kind:object", path, "bundle member must be an object with a type")
            return
        if o["type"] == "bundle":
            self.bad("bundle-in-bundle", path, "bundle inside bundle")
            return
        ver = detect_version(o)
        sub = V(ver)
        sub.top(o, path)
        self.out.extend(sub.out)

    def top(self, doc, path=""):
        if not isinstance(doc, dict) or not isinstance(doc.get("type"), str):
            self.bad("wrong-kind:object", path, "not an object with a type")
            return
        cname = self.m.class_for_type(doc["type"])
        if cname is None:
            self.bad("unknown-type", path, "unknown type %r for STIX %s" % (doc["type"], self.ver))
            return
        self.obj(doc, cname, path, toplevel=True)

    # -- constraints -------------------------------------------------------------------
    def constraint(self, doc, c, clsname, path, root, container):
        k = c["k"]
        present = [p for p in c.get("props", []) if p in doc]
        tag = "constraint:%s:%s" % (clsname, k)
        if k == "at_least_one":
            if not present:
                self.bad(tag, path, "none of %s present" % c["props"])
        elif k == "at_most_one":
            if len(present) > 1:
                self.bad(tag, path, "%s are mutually exclusive" % present)
        elif k == "xor":
            if len(present) != 1:
                self.bad(tag, path, "exactly one of %s required, have %s" % (c["props"], present))
        elif k == "requires":
            if c["if"] in doc:
                miss = [p for p in c["then"] if p not in doc]
                if miss:
                    self.bad(tag + ":" + c["if"], path, "%r present without %s" % (c["if"], miss))
        elif k == "order":
            a, b = doc.get(c["a"]), doc.get(c["b"])
            if isinstance(a, str) and isinstance(b, str):
                try:
                    ka, kb = ts_key(a), ts_key(b)
                except ValueError:
                    return
                if kb < ka or (c["strict"] and kb == ka):
                    self.bad("%s:%s" % (tag, c["b"]), path, "%s=%s must be %s %s=%s" % (c["b"], b, "later than" if c["strict"] else "not earlier than", c["a"], a))
        elif k == "special":
            getattr(self, "sp_" + c["name"].replace("-", "_"))(doc, clsname, path, root, container)
        else:
            raise AssertionError(k)

    def sp_email_multipart(self, doc, cls, path, root, container):
        if doc.get("is_multipart") is True and "body" in doc:
            self.bad("constraint:EmailMessage:body-with-multipart", path, "body present while is_multipart is true")
        if doc.get("is_multipart") is False and "body_multipart" in doc:
            self.bad("constraint:EmailMessage:multipart-body-without-multipart", path, "body_multipart present while is_multipart is false")

    def sp_non_empty(self, doc, cls, path, root, container):
        if isinstance(doc, dict) and not doc:
            self.bad("constraint:%s:non-empty" % cls, path, "%s has no properties" % cls)

    def sp_process_non_empty(self, doc, cls, path, root, container):
        own = [k for k in doc if k not in ("type", "id", "spec_version")]
        if not own:
            self.bad("constraint:Process:non-empty", path, "process without any property")

    def sp_socket_options(self, doc, cls, path, root, container):
        opts = doc.get("options")
        if isinstance(opts, dict):
            for key, v in opts.items():
                if not key.startswith(SOCKET_PREFIXES):
                    self.bad("constraint:SocketExt:option-key", path, "socket option key %r" % key)
                if isinstance(v, bool) or not isinstance(v, int):
                    self.bad("constraint:SocketExt:option-value", path, "socket option value %r" % (v,))

    def sp_marking_definition(self, doc, cls, path, root, container):
        dt, df = doc.get("definition_type"), doc.get("definition")
        if self.ver == "2.1" and not (dt is not None and df is not None) and "extensions" not in doc:
            self.bad("constraint:MarkingDefinition:definition-or-extensions", path, "neither definition nor extensions")
        if (dt is None) != (df is None):
            self.bad("constraint:MarkingDefinition:definition-pair", path, "definition_type and definition must come together")
        if dt is None or df is None:
            return
        if not isinstance(dt, str) or dt not in self.m.markings:
            self.bad("marking-type", path, "definition_type %r is not defined by the specification" % (dt,))
            return
        self.obj(df, self.m.markings[dt], path + ".definition", root, container)
        if dt == "tlp" and isinstance(df, dict):
            color = df.get("tlp")
            if not isinstance(color, str) or color not in self.m.tlp:
                self.bad("tlp-instance", path, "unknown TLP colour %r" % (color,))
            else:
                if doc.get("id") != self.m.tlp[color]:
                    self.bad("tlp-instance", path, "TLP %s must have id %s" % (color, self.m.tlp[color]))
                if self.ver == "2.1" and "name" in doc and doc["name"] != "TLP:" + color.upper():
                    # the 2.1 instances are named TLP:WHITE ...; "other instances of tlp-marking MUST NOT be used or created"
                    # (a missing name is left alone: grey zone, specmodel/AUDIT.md)
                    self.bad("tlp-instance", path, "TLP %s is named TLP:%s, not %r" % (color, color.upper(), doc["name"]))
                try:
                    if ts_key(doc.get("created", "")) != ts_key(self.m.tlp_created):
                        self.bad("tlp-instance", path, "TLP %s must have created %s" % (color, self.m.tlp_created))
                except ValueError:
                    pass

    def sp_stix_pattern(self, doc, cls, path, root, container):
        pat = doc.get("pattern")
        if not isinstance(pat, str):
            return
        if self.ver == "2.1" and doc.get("pattern_type") != "stix":
            return
        from stix2patterns.validator import run_validator
        try:
            errs = run_validator(pat, self.ver)
        except Exception as e:  # third-party crash: cannot judge
            return
        if errs:
            self.bad("pattern", path + ".pattern", "invalid STIX pattern: %s" % (errs[0],))

    def sp_observed_data_container(self, doc, cls, path, root, container):
        pass  # the container kind validates members and references

    def sp_nt_is_active(self, doc, cls, path, root, container):
        if "end" in doc and doc.get("is_active") is True:
            self.bad("constraint:NetworkTraffic:end-while-active", path, "end present while is_active is true")

    def sp_location(self, doc, cls, path, root, container):
        lat, lon = "latitude" in doc, "longitude" in doc
        if lat != lon:
            self.bad("constraint:Location:lat-long-pair", path, "latitude and longitude must come together")
        if "precision" in doc and not (lat and lon):
            self.bad("constraint:Location:precision", path, "precision without latitude/longitude")
        if not ("region" in doc or "country" in doc or (lat and lon)):
            self.bad("constraint:Location:where", path, "none of region, country, latitude+longitude")

    def sp_malware_family_name(self, doc, cls, path, root, container):
        if doc.get("is_family") is True and "name" not in doc:
            self.bad("constraint:Malware:family-name", path, "malware family without name")

    def sp_file20_is_encrypted(self, doc, cls, path, root, container):
        if doc.get("is_encrypted") is False and ("encryption_algorithm" in doc or "decryption_key" in doc):
            self.bad("constraint:File:is_encrypted", path, "encryption details on an unencrypted file")


def required_in_spec(name, d, cls, ver):
    """Required by the specification: the library's `required`, plus properties it fills in itself because the
    specification requires them (type, id, spec_version of non-SCOs, created, modified, valid_from)."""
    if d["required"]:
        return True
    is_sco = "id_contributing" in cls or (ver == "2.0" and cls.get("type") in M.get("2.0").observables)
    if "fixed" in d:
        return not (name == "spec_version" and is_sco)
    if d.get("default") == "$NOW":
        return True
    if d["kind"] == "id":
        return not (ver == "2.0" and is_sco)
    return False


def detect_version(doc):
    """Version of a bare object as the specification implies it."""
    if "spec_version" in doc and doc.get("type") != "bundle":
        return doc["spec_version"] if doc["spec_version"] in ("2.0", "2.1") else "2.1"
    if doc.get("type") == "bundle":
        return "2.0" if "spec_version" in doc else "2.1"
    if doc.get("type") in M.get("2.1").observables and "id" in doc:
        return "2.1"
    return "2.0"


def validate(doc, ver=None, container=False):
    """Top-level object (or bundle).  Returns list of (rule, path, message)."""
    if ver is None:
        ver = detect_version(doc)
    v = V(ver)
    if not isinstance(doc, dict) or not isinstance(doc.get("type"), str):
        return [("wrong-kind:object", "", "not an object with a string type")]
    if container:
        cname = v.m.class_for_type(doc.get("type"), container=True)
        if cname is None:
            return [("unknown-type", "", repr(doc.get("type")))]
        v.obj(doc, cname, "", container={})
    else:
        v.top(doc)
    return v.out
