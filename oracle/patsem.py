"""Evaluator of STIX patterning semantics over a bounded universe (DESIGN C09, O(5)).

Works on the AST of gen/patterns.py; never imports stix2.  The reading implemented is the one the library's own
comments adopt ("order-independent but need distinct bindings"):

  comparison   type matches and SOME value on the path satisfies the operator; NOT negates the operator's verdict;
               values of incompatible kinds make every operator false (so `NOT =`/`!=` true)
  [ e ]        binds exactly one observation whose object satisfies e (AND/OR inside are plain boolean connectives)
  A AND B      bindings of A and B that are disjoint          A OR B   either
  A FOLLOWEDBY B   disjoint, and latest time of A's binding <= earliest time of B's
  REPEATS n    n pairwise disjoint bindings                   WITHIN s   latest - earliest <= s
  START a STOP b   every bound observation has a <= time < b

  special paths (the semantics the library documents for them), for `=`, `!=` and IN only:
    windows-registry-key:key and :values[i|*].name compare case-insensitively;
    ipv4-addr:value / ipv6-addr:value compare as canonical network (address masked to the prefix, /32 resp. /128 = host)
  all other operators on those paths use plain string semantics.  ISSUBSET / ISSUPERSET are CIDR containment everywhere.

Universe: POOL objects (each carries every property the vocabulary mentions) x TIMES, all multisets of <= 3
observations.  Objects that no comparison of the two patterns can tell apart are merged, so the enumeration stays small.
"""
import base64
import itertools
import re

from gen import patterns as P


class Unsupported(Exception):
    """The pattern uses something the evaluator cannot decide (e.g. a regex Python's re refuses)."""


# ---------------------------------------------------------------------------
# universe

BASE = "2020-01-01T00:00:0%dZ"
TIMES = [0, 2, 7]                                  # seconds after 2020-01-01T00:00:00Z
TIME_TEXT = ["2020-01-01T00:00:00Z", "2020-01-01T00:00:02Z", "2020-01-01T00:00:07Z"]
START_STOP_INSTANTS = ["2020-01-01T00:00:00Z", "2020-01-01T00:00:02Z", "2020-01-01T00:00:10Z"]
WITHIN_SECONDS = [1, 2, 5, 10]


def _a(x, y, z, k, k2, t, h, bn, f):
    return {"type": "a", "x": x, "y": y, "z": z, "n": {"k": k, "k-2": k2}, "t": ("ts", P.ts_instant(t)), "h": ("bytes", bytes.fromhex(h)),
            "bn": ("bytes", base64.b64decode(bn)), "f": f}


def _rk(key, names):
    return {"type": "windows-registry-key", "key": key, "values": [{"name": n, "data": d} for n, d in names]}


POOL = [
    ("A1", _a(1, "a", [1, 2, 3], "v", 1, "2020-01-01T00:00:00Z", "61", "YQ==", True)),
    ("A2", _a(2, "A", [2, 3, 4], "V", 2, "2021-01-01T00:00:00Z", "6162", "YWI=", False)),
    ("A3", _a(3, "b", [5, 5, 5], "w", 3, "2022-06-01T12:00:00.5Z", "ff", "/w==", True)),
    ("A4", _a(1, "ab", [3, 2, 1], "v", 2, "2020-01-01T00:00:00Z", "61", "YWI=", False)),
    ("A5", _a(1.5, "a%", [1, 1, 1], "", 1, "2021-01-01T00:00:00Z", "00", "AA==", True)),
    ("A6", _a(2 ** 53, "b", [2 ** 53, 2 ** 53 + 1, 1], "w", 2 ** 53 + 1, "2022-06-01T12:00:00.5Z", "ff", "/w==", False)),
    ("B1", {"type": "b", "x": 1}),
    ("B2", {"type": "b", "x": 2}),
    ("B3", {"type": "b", "x": 3}),
    ("B4", {"type": "b", "x": 2 ** 53}),
    ("B5", {"type": "b", "x": 2 ** 53 + 1}),
    ("I1", {"type": "ipv4-addr", "value": "1.2.3.4"}),
    ("I2", {"type": "ipv4-addr", "value": "1.2.3.5"}),
    ("I3", {"type": "ipv4-addr", "value": "1.2.3.4/32"}),
    ("I4", {"type": "ipv4-addr", "value": "1.2.3.0/24"}),
    ("I5", {"type": "ipv4-addr", "value": "10.0.0.1"}),
    ("J1", {"type": "ipv6-addr", "value": "1::1"}),
    ("J2", {"type": "ipv6-addr", "value": "1:0:0:0:0:0:0:1"}),
    ("J3", {"type": "ipv6-addr", "value": "1:2:3:4:5:6:7:8"}),
    ("J4", {"type": "ipv6-addr", "value": "1:2:3:4:5:6:7:0/112"}),
    ("K1", _rk("HKLM\\Foo", [("Run", "x"), ("A1", "y"), ("zz", "z")])),
    ("K2", _rk("hklm\\foo", [("run", "X"), ("a1", "y"), ("ZZ", "z")])),
    ("K3", _rk("HKLM\\Bar", [("Ax", "x"), ("ax", "x"), ("a-", "x")])),
    ("K4", _rk("ABd", [("ABd", "x"), ("abc", "x"), ("Abd", "x")])),
]
POOL_BY_NAME = dict(POOL)


# ---------------------------------------------------------------------------
# values and constants

def path_values(obj, path):
    if obj.get("type") != path["t"]:
        return []
    cur = [obj]
    for s in path["steps"]:
        nxt = []
        for v in cur:
            if s["s"] == "key":
                if isinstance(v, dict) and s["n"] in v and s["n"] != "type":
                    nxt.append(v[s["n"]])
            elif isinstance(v, list):
                if s["i"] == "*":
                    nxt.extend(v)
                elif isinstance(s["i"], int) and 0 <= s["i"] < len(v):
                    nxt.append(v[s["i"]])
        cur = nxt
    return [v for v in cur if not isinstance(v, (dict, list))]


def const_value(c):
    k = c["c"]
    if k == "int":
        return c["v"]
    if k == "float":
        return float(c["sp"])
    if k in ("str", "bool"):
        return c["v"]
    if k == "ts":
        return ("ts", P.ts_instant(c["v"]))
    if k == "hex":
        return ("bytes", bytes.fromhex(c["v"]))
    if k == "bin":
        return ("bytes", base64.b64decode(c["v"]))
    raise ValueError(k)


def kind(v):
    if isinstance(v, bool):
        return "bool"
    if isinstance(v, (int, float)):
        return "num"
    if isinstance(v, str):
        return "str"
    return v[0]


def special_of(path):
    """'regkey' | 'ipv4' | 'ipv6' | None for the paths the library documents special equality for."""
    t, steps = path["t"], path["steps"]
    names = [s["n"] if s["s"] == "key" else None for s in steps]
    if t == "windows-registry-key":
        if names == ["key"] or (len(steps) == 3 and names[0] == "values" and steps[1]["s"] == "idx" and names[2] == "name"):
            return "regkey"
    elif t == "ipv4-addr" and names == ["value"]:
        return "ipv4"
    elif t == "ipv6-addr" and names == ["value"]:
        return "ipv6"
    return None


def parse_ipv4(s):
    m = re.match(r"^([0-9]{1,3})\.([0-9]{1,3})\.([0-9]{1,3})\.([0-9]{1,3})(?:/([0-9]{1,2}))?\Z", s)
    if not m:
        return None
    parts = [int(x) for x in m.group(1, 2, 3, 4)]
    if any(p > 255 for p in parts) or any(len(x) > 1 and x[0] == "0" and any(ch in "89" for ch in x) for x in m.group(1, 2, 3, 4)):
        return None
    prefix = int(m.group(5)) if m.group(5) is not None else 32
    if prefix > 32:
        return None
    addr = (parts[0] << 24) | (parts[1] << 16) | (parts[2] << 8) | parts[3]
    mask = ((1 << prefix) - 1) << (32 - prefix)
    return (4, addr & mask, prefix)


def parse_ipv6(s):
    m = re.match(r"^([0-9A-Fa-f:]+)(?:/([0-9]{1,3}))?\Z", s)
    if not m:
        return None
    body = m.group(1)
    if body.count("::") > 1 or ":::" in body:
        return None
    if "::" in body:
        left, right = body.split("::")
        lp = [x for x in left.split(":") if x] if left else []
        rp = [x for x in right.split(":") if x] if right else []
        if len(lp) + len(rp) > 7:
            return None
        groups = lp + ["0"] * (8 - len(lp) - len(rp)) + rp
    else:
        groups = body.split(":")
        if len(groups) != 8:
            return None
    if any(not g or len(g) > 4 for g in groups):
        return None
    addr = 0
    for g in groups:
        addr = (addr << 16) | int(g, 16)
    prefix = int(m.group(2)) if m.group(2) is not None else 128
    if prefix > 128:
        return None
    mask = ((1 << prefix) - 1) << (128 - prefix)
    return (6, addr & mask, prefix)


def parse_net(s):
    return parse_ipv4(s) or parse_ipv6(s)


def net_contains(outer, inner):
    """inner is a subset of outer (both (family, masked address, prefix))."""
    if outer[0] != inner[0] or inner[2] < outer[2]:
        return False
    bits = 32 if outer[0] == 4 else 128
    mask = ((1 << outer[2]) - 1) << (bits - outer[2])
    return (inner[1] & mask) == outer[1]


def values_equal(v, c, special):
    kv, kc = kind(v), kind(c)
    if kv != kc:
        return False
    if kv == "str" and special == "regkey":
        return v.lower() == c.lower()
    if kv == "str" and special in ("ipv4", "ipv6"):
        parse = parse_ipv4 if special == "ipv4" else parse_ipv6
        nv, nc = parse(v), parse(c)
        if nv is not None and nc is not None:
            return nv == nc
        return v == c
    if kv in ("ts", "bytes"):
        return v[1] == c[1]
    return v == c


def _like_regex(pat):
    out = []
    for ch in pat:
        out.append(".*" if ch == "%" else "." if ch == "_" else re.escape(ch))
    return re.compile("".join(out), re.DOTALL)


_REGEX_CACHE = {}


def _regex(pat):
    if pat not in _REGEX_CACHE:
        try:
            _REGEX_CACHE[pat] = re.compile(pat)
        except re.error as e:
            _REGEX_CACHE[pat] = e
    r = _REGEX_CACHE[pat]
    if isinstance(r, Exception):
        raise Unsupported("regex %r: %s" % (pat, r))
    return r


def op_holds(op, v, c, special):
    """Verdict of the un-negated operator on one value."""
    if op in ("=", "!="):
        eq = values_equal(v, c, special)
        return eq if op == "=" else not eq
    if op in P.ORDER_OPS:
        kv, kc = kind(v), kind(c)
        if kv != kc or kv == "bool":
            return False
        a, b = (v[1], c[1]) if kv in ("ts", "bytes") else (v, c)
        return a < b if op == "<" else a <= b if op == "<=" else a > b if op == ">" else a >= b
    if op == "LIKE":
        return isinstance(v, str) and _like_regex(c).fullmatch(v) is not None
    if op == "MATCHES":
        return isinstance(v, str) and _regex(c).search(v) is not None
    if op in ("ISSUBSET", "ISSUPERSET"):
        if not isinstance(v, str):
            return False
        nv, nc = parse_net(v), parse_net(c)
        if nv is None or nc is None:
            return False
        return net_contains(nc, nv) if op == "ISSUBSET" else net_contains(nv, nc)
    raise ValueError(op)


def holds(e, obj):
    """Comparison-level expression on one object."""
    k = e["k"]
    if k == "and":
        return all(holds(a, obj) for a in e["args"])
    if k == "or":
        return any(holds(a, obj) for a in e["args"])
    vals = path_values(obj, e["path"])
    if k == "exists":
        return bool(vals) != bool(e["neg"]) if obj.get("type") == e["path"]["t"] else False
    if obj.get("type") != e["path"]["t"]:
        return False
    special = special_of(e["path"])
    op, neg, rhs = e["op"], bool(e["neg"]), e["rhs"]
    if op == "IN":
        items = [const_value(x) for x in rhs["items"]]
        return any(any(values_equal(v, c, special) for c in items) != neg for v in vals)
    c = const_value(rhs)
    return any(op_holds(op, v, c, special) != neg for v in vals)


# ---------------------------------------------------------------------------
# observation level: sets of bindings as 8-bit sets over the 3-bit masks of a sequence of <= 3 observations

_MASK_BITS = [[i for i in range(3) if m >> i & 1] for m in range(8)]
_AND_MEMO = {}
_FB_MEMO = {}


def _and(a, b):
    key = (a, b)
    r = _AND_MEMO.get(key)
    if r is None:
        r = 0
        for ma in range(1, 8):
            if a >> ma & 1:
                for mb in range(1, 8):
                    if b >> mb & 1 and not ma & mb:
                        r |= 1 << (ma | mb)
        _AND_MEMO[key] = r
    return r


def _fb(a, b, times):
    key = (a, b, times)
    r = _FB_MEMO.get(key)
    if r is None:
        r = 0
        for ma in range(1, 8):
            if a >> ma & 1:
                hi = max(times[i] for i in _MASK_BITS[ma] if i < len(times))
                for mb in range(1, 8):
                    if b >> mb & 1 and not ma & mb and hi <= min(times[i] for i in _MASK_BITS[mb] if i < len(times)):
                        r |= 1 << (ma | mb)
        _FB_MEMO[key] = r
    return r


def _filter(a, pred, times):
    r = 0
    for m in range(1, 8):
        if a >> m & 1 and pred([times[i] for i in _MASK_BITS[m]]):
            r |= 1 << m
    return r


def _instant_seconds(v):
    """Seconds (float) relative to 2020-01-01T00:00:00Z for instants of that day; others map far away, order kept."""
    inst = P.ts_instant(v)
    m = re.match(r"^(\d{4})-(\d\d)-(\d\d)T(\d\d):(\d\d):(\d\d)(?:\.(\d+))?Z$", inst)
    y, mo, d, h, mi, s = (int(x) for x in m.group(1, 2, 3, 4, 5, 6))
    frac = float("0." + m.group(7)) if m.group(7) else 0.0
    days = (y - 2020) * 372 + (mo - 1) * 31 + (d - 1)          # monotone in (y, mo, d); exact inside January 2020
    return days * 86400 + h * 3600 + mi * 60 + s + frac


def bindings(n, leafbits, times):
    """n: observation-level AST with obs nodes annotated "_leaf" (index); leafbits[i]: 3-bit mask of the positions
    whose object satisfies leaf i; times: tuple of seconds per position.  Returns the 8-bit set of binding masks."""
    k = n["k"]
    if k == "obs":
        r = 0
        lb = leafbits[n["_leaf"]]
        for i in range(len(times)):
            if lb >> i & 1:
                r |= 1 << (1 << i)
        return r
    if k == "oor":
        r = 0
        for a in n["args"]:
            r |= bindings(a, leafbits, times)
        return r
    if k == "oand":
        r = bindings(n["args"][0], leafbits, times)
        for a in n["args"][1:]:
            r = _and(r, bindings(a, leafbits, times)) if r else 0
        return r
    if k == "ofb":
        r = bindings(n["args"][0], leafbits, times)
        for a in n["args"][1:]:
            r = _fb(r, bindings(a, leafbits, times), times) if r else 0
        return r
    if k == "qual":
        inner = bindings(n["e"], leafbits, times)
        q = n["q"]
        if q["q"] == "repeats":
            cnt = q["n"]["v"]
            if cnt > len(times):
                return 0
            r = inner
            for _ in range(cnt - 1):
                r = _and(r, inner)
            return r if cnt >= 1 else 0
        if q["q"] == "within":
            secs = const_value(q["n"])
            return _filter(inner, lambda ts: max(ts) - min(ts) <= secs, times)
        a, b = _instant_seconds(q["a"]["v"]), _instant_seconds(q["b"]["v"])
        return _filter(inner, lambda ts: all(a <= t < b for t in ts), times)
    raise ValueError(k)


def _annotate(ast, leaves, index):
    def node(n):
        if n["k"] == "obs":
            key = _canon_key(n["e"])
            if key not in index:
                index[key] = len(leaves)
                leaves.append(n["e"])
            n = dict(n)
            n["_leaf"] = index[key]
        return n
    return P.map_nodes(ast, node)


def _canon_key(e):
    import json
    return json.dumps(P.canon(e), sort_keys=True)


def is_temporal(ast):
    return any(n["k"] == "ofb" or (n["k"] == "qual" and n["q"]["q"] in ("within", "startstop")) for n in P.walk(ast))


def _types(ast):
    return {n["path"]["t"] for n in P.walk(ast) if n["k"] in ("cmp", "exists")}


def matches(ast, seq):
    """seq: list of (pool object name, index into TIMES)."""
    leaves, index = [], {}
    a = _annotate(ast, leaves, index)
    objs = [POOL_BY_NAME[name] for name, _ in seq]
    lb = [sum(1 << i for i, o in enumerate(objs) if holds(l, o)) for l in leaves]
    return bindings(a, lb, tuple(TIMES[t] for _, t in seq)) != 0


def separate(p, q, max_classes=12):
    """None when p and q match exactly the same sequences of the universe; otherwise a dict with a separating
    sequence.  Raises Unsupported."""
    leaves, index = [], {}
    pa, qa = _annotate(p, leaves, index), _annotate(q, leaves, index)
    types = _types(p) | _types(q)
    classes = {}
    for name, obj in POOL:
        if obj["type"] not in types:
            continue
        vec = tuple(holds(l, obj) for l in leaves)
        if any(vec) and vec not in classes:
            classes[vec] = name
    vecs = sorted(classes, key=lambda v: classes[v])[:max_classes]
    tix = [0, 1, 2] if (is_temporal(p) or is_temporal(q)) else [0]
    universe = [(vi, t) for vi in range(len(vecs)) for t in tix]
    memo = {}
    nleaf = len(leaves)
    for size in (1, 2, 3):
        for combo in itertools.combinations_with_replacement(universe, size):
            times = tuple(TIMES[t] for _, t in combo)
            lb = tuple(sum(1 << i for i, (vi, _) in enumerate(combo) if vecs[vi][li]) for li in range(nleaf))
            key = (times, lb)
            r = memo.get(key)
            if r is None:
                r = memo[key] = (bindings(pa, lb, times) != 0, bindings(qa, lb, times) != 0)
            if r[0] != r[1]:
                return {"sequence": [{"object": classes[vecs[vi]], "time": TIME_TEXT[t]} for vi, t in combo], "first_matches": r[0], "second_matches": r[1]}
    return None


# ---------------------------------------------------------------------------
# self-test on hand-evaluated cases

def selftest():
    def m(text, seq):
        return matches(P.parse(text), seq)

    def h(text, name):
        return holds(P.parse(text)["e"], POOL_BY_NAME[name])
    # comparisons (A1: x=1 y='a' z=[1,2,3] n.k='v' n.'k-2'=1;  A2: x=2 y='A' z=[2,3,4];  A3: z=[5,5,5])
    assert h("[a:x = 1]", "A1") and not h("[a:x = 1]", "A2") and not h("[a:x = 1]", "B1") and h("[b:x = 1]", "B1")
    assert h("[a:x = 1.0]", "A1") and h("[a:x != 1]", "A2") and not h("[a:x NOT != 1]", "A2") and h("[a:x NOT != 1]", "A1")
    assert h("[a:x = 'a']", "A1") is False and h("[a:x != 'a']", "A1") and h("[a:x NOT = 'a']", "A1") and not h("[a:x < 'a']", "A1")
    assert h("[a:z[*] = 3]", "A1") and h("[a:z[*] NOT = 3]", "A1") and not h("[a:z[*] NOT = 5]", "A3") and h("[a:z[0] = 1]", "A1") and not h("[a:z[1] = 1]", "A1")
    assert not h("[a:z[7] = 1]", "A1") and not h("[a:z[7] NOT = 1]", "A1")
    assert h("[a:x IN (3, 1)]", "A1") and not h("[a:x IN ()]", "A1") and h("[a:x NOT IN (2, 3)]", "A1") and not h("[a:x NOT IN (1)]", "A1")
    assert h("[a:y < 'b']", "A1") and h("[a:y < 'a']", "A2") and not h("[a:y < 'A']", "A1") and h("[a:y >= 'a']", "A1")
    assert h("[a:n.k = 'v']", "A1") and h("[a:n.'k-2' = 2]", "A2") and h("[a:t = t'2020-01-01T00:00:00.000Z']", "A1") and h("[a:t > t'2020-06-01T00:00:00Z']", "A2")
    assert h("[a:h = h'61']", "A1") and h("[a:bn = b'YWI=']", "A2") and h("[a:h = b'YQ==']", "A1") and not h("[a:h = '61']", "A1")
    assert h("[a:f = true]", "A1") and h("[a:f != true]", "A2") and not h("[a:f = 1]", "A1")
    assert h("[a:y LIKE 'a%']", "A4") and h("[a:y LIKE 'a_']", "A4") and not h("[a:y LIKE 'a_']", "A1") and h("[a:y LIKE 'a%']", "A5") and h("[a:y NOT LIKE 'b']", "A1")
    assert h("[a:y MATCHES '^a']", "A4") and not h("[a:y MATCHES '^b']", "A4") and h("[a:y MATCHES 'b$']", "A4") and not h("[a:x MATCHES '1']", "A1")
    assert h("[a:x = 1 AND a:y = 'a']", "A1") and not h("[a:x = 1 AND a:y = 'b']", "A1") and h("[a:x = 9 OR a:y = 'a']", "A1") and not h("[a:x = 1 AND b:x = 1]", "A1")
    assert h("[EXISTS a:x]", "A1") and not h("[NOT EXISTS a:x]", "A1") and not h("[EXISTS a:x]", "B1") and not h("[EXISTS a:z[7]]", "A1")
    # special paths
    assert h("[ipv4-addr:value = '1.2.3.4/32']", "I1") and h("[ipv4-addr:value = '1.2.3.4']", "I3") and h("[ipv4-addr:value = '1.2.3.9/24']", "I4")
    assert not h("[ipv4-addr:value = '1.2.3.4']", "I2") and h("[ipv4-addr:value IN ('9.9.9.9', '01.02.03.04')]", "I1") and not h("[ipv4-addr:value LIKE '1.2.3.4']", "I3")
    assert h("[ipv4-addr:value ISSUBSET '1.2.3.0/24']", "I1") and h("[ipv4-addr:value ISSUBSET '1.2.3.77/24']", "I1") and not h("[ipv4-addr:value ISSUBSET '1.2.3.0/24']", "I5")
    assert h("[ipv4-addr:value ISSUPERSET '1.2.3.4']", "I4") and not h("[ipv4-addr:value ISSUPERSET '1.2.3.0/24']", "I1")
    assert h("[ipv6-addr:value = '1:0:0:0:0:0:0:1']", "J1") and h("[ipv6-addr:value = '1::1/128']", "J2") and h("[ipv6-addr:value = '1:2:3:4:5:6:7:8/112']", "J4")
    assert not h("[ipv6-addr:value = '1::2']", "J1") and h("[ipv6-addr:value ISSUBSET '1:2:3:4:5:6:7:0/112']", "J3")
    assert h("[windows-registry-key:key = 'hklm\\\\FOO']", "K1") and h("[windows-registry-key:key != 'hklm\\\\foo']", "K3") and not h("[windows-registry-key:key != 'HKLM\\\\FOO']", "K2")
    assert h("[windows-registry-key:values[*].name = 'RUN']", "K2") and h("[windows-registry-key:values[0].name IN ('x', 'rUn')]", "K1")
    assert not h("[windows-registry-key:values[*].data = 'X']", "K1") and h("[windows-registry-key:values[*].data = 'X']", "K2")
    assert h("[windows-registry-key:key LIKE 'HKLM%']", "K1") and not h("[windows-registry-key:key LIKE 'HKLM%']", "K2")
    assert h("[windows-registry-key:values[*].name MATCHES 'A\\\\D']", "K3") and not h("[windows-registry-key:values[*].name MATCHES 'a\\\\d']", "K3")
    assert h("[windows-registry-key:values[*].name MATCHES 'a\\\\d']", "K2") and h("[windows-registry-key:key > 'ABC']", "K4") and not h("[windows-registry-key:key > 'abc']", "K4")
    # observation level
    s1, s2 = [("A1", 0)], [("A1", 0), ("A1", 0)]
    assert m("[a:x = 1]", s1) and not m("[a:x = 2]", s1) and not m("[a:x = 1] AND [a:x = 1]", s1) and m("[a:x = 1] AND [a:x = 1]", s2)
    assert m("[a:x = 1] OR [a:x = 2]", s1) and not m("[a:x = 1] AND [a:x = 2]", s2) and m("[a:x = 1] AND [a:x = 2]", [("A1", 0), ("A2", 0)])
    assert m("[a:x = 1] FOLLOWEDBY [a:x = 2]", [("A1", 0), ("A2", 1)]) and not m("[a:x = 1] FOLLOWEDBY [a:x = 2]", [("A1", 1), ("A2", 0)])
    assert m("[a:x = 1] FOLLOWEDBY [a:x = 2]", [("A2", 1), ("A1", 1)]) and m("[a:x = 2] FOLLOWEDBY [a:x = 1]", [("A2", 1), ("A1", 1)])
    assert m("[a:x = 1] REPEATS 2 TIMES", s2) and not m("[a:x = 1] REPEATS 2 TIMES", s1) and not m("[a:x = 1] REPEATS 3 TIMES", s2)
    assert m("([a:x = 1] AND [a:x = 2]) WITHIN 2 SECONDS", [("A1", 0), ("A2", 1)]) and not m("([a:x = 1] AND [a:x = 2]) WITHIN 1 SECONDS", [("A1", 0), ("A2", 1)])
    assert m("([a:x = 1] AND [a:x = 2]) WITHIN 5 SECONDS", [("A1", 1), ("A2", 2)]) and not m("([a:x = 1] AND [a:x = 2]) WITHIN 5 SECONDS", [("A1", 0), ("A2", 2)])
    assert m("[a:x = 1] START t'2020-01-01T00:00:00Z' STOP t'2020-01-01T00:00:02Z'", [("A1", 0)])
    assert not m("[a:x = 1] START t'2020-01-01T00:00:00Z' STOP t'2020-01-01T00:00:02Z'", [("A1", 1)])
    assert not m("[a:x = 1] START t'2020-01-01T00:00:02Z' STOP t'2020-01-01T00:00:00Z'", [("A1", 0)])
    assert m("[a:x = 1] AND [a:x = 2] WITHIN 1 SECONDS", [("A1", 0), ("A2", 2)]) and not m("([a:x = 1] AND [a:x = 2]) WITHIN 1 SECONDS", [("A1", 0), ("A2", 2)])
    assert m("([a:x = 1] OR [a:x = 2]) REPEATS 2 TIMES", [("A1", 0), ("A2", 2)]) and not m("([a:x = 1] FOLLOWEDBY [a:x = 2]) REPEATS 2 TIMES", [("A1", 0), ("A2", 2), ("A1", 2)])
    assert m("[a:x = 1] FOLLOWEDBY [a:x = 2] FOLLOWEDBY [a:x = 3]", [("A1", 0), ("A2", 1), ("A3", 2)])
    assert not m("[a:x = 1] FOLLOWEDBY [a:x = 2] FOLLOWEDBY [a:x = 3]", [("A1", 0), ("A3", 1), ("A2", 2)])
    # separation / agreement
    sep = lambda a, b: separate(P.parse(a), P.parse(b))  # noqa: E731
    assert sep("[a:x = 1] AND [a:x = 1]", "[a:x = 1]") is not None and sep("[a:x = 1] OR [a:x = 1]", "[a:x = 1]") is None
    assert sep("[a:x = 1] OR ([a:x = 1] AND [a:x = 2])", "[a:x = 1]") is None and sep("[a:x = 1] AND ([a:x = 1] OR [a:x = 2])", "[a:x = 1]") is not None
    assert sep("[a:x = 1] FOLLOWEDBY [a:x = 2]", "[a:x = 2] FOLLOWEDBY [a:x = 1]") is not None and sep("[a:x = 1] AND [a:x = 2]", "[a:x = 2] AND [a:x = 1]") is None
    assert sep("[a:x IN (1, 2)]", "[a:x IN (2, 1)]") is None and sep("[a:x IN (1, 2)]", "[a:x IN (1, 3)]") is not None and sep("[a:x NOT IN (1, 2)]", "[a:x IN (1, 2)]") is not None
    assert sep("[a:x = 1] WITHIN 5 SECONDS", "[a:x = 1] WITHIN 2 SECONDS") is None and sep("([a:x = 1] AND [a:x = 2]) WITHIN 5 SECONDS", "([a:x = 1] AND [a:x = 2]) WITHIN 2 SECONDS") is not None
    assert sep("[windows-registry-key:key = 'HKLM\\\\Foo']", "[windows-registry-key:key = 'hklm\\\\foo']") is None
    assert sep("[windows-registry-key:values[*].name MATCHES 'A\\\\D']", "[windows-registry-key:values[*].name MATCHES 'a\\\\d']") is not None
    assert sep("[ipv4-addr:value = '1.2.3.4/24']", "[ipv4-addr:value = '1.2.3.0/24']") is None and sep("[ipv4-addr:value = '1.2.3.4']", "[ipv4-addr:value = '1.2.3.5']") is not None
