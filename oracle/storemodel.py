"""Reference model of a STIX object store / source, and a naive filter evaluator.

Plain JSON values only; no stix2.  Timestamps become integer instants through
oracle/tsref.py.

* ListModel        -- stored objects keyed by (id, modified instant | None)
* holds / matches  -- filter evaluation written from the documented semantics
* relationships / related_ids / creator_id -- graph navigation as a scan
* norm / canon     -- comparison form of an object ("what comes out equals what went in")

Filter encoding (JSON):  {"prop": "a.b.c", "op": "=", "value": V}
  V is a JSON scalar, a list of JSON scalars, or {"$dt": "<timestamp text>"} for a
  datetime instance handed to the library.

Documented semantics implemented here (docs/guide/datastore.ipynb "Filters",
stix2/datastore/filters.py docstrings and comments):
  - a filter on a property the object does not have never holds (any operator);
  - dotted paths descend into nested dictionaries; when a list is met on the way,
    or as the final value, the filter holds if it holds for some element
    (guide: Filter("malware_types", "=", "rootkit"),
    Filter("external_references.source_name", "=", "mitre-attack"));
  - = != < <= > >= compare the property value with the filter value; `in`: the
    property value is one of the listed values; `contains`: the property value
    (string or list) contains the filter value;
  - a timestamp property compared with a timestamp string (or datetime) is
    compared as instants, whatever the spelling of either.
Readings the documentation leaves open are NOT decided here; the generators stay
away from them (!= and ordering on list-valued paths, `in` with a bare string,
`contains` with a proper substring of a list element, dictionary values).
"""
import json

from oracle import tsref

# spec defaults the library drops when writing and supplies when reading
DEFAULTS = {"revoked": False, "defanged": False}

OPS = ("=", "!=", "in", "<", "<=", ">", ">=", "contains")


def is_ts(v):
    return isinstance(v, str) and tsref.CANON_RE.match(v) is not None


def instant(text):
    return tsref.parse(text)[0]


def key_of(obj):
    m = obj.get("modified")
    return (obj["id"], instant(m) if m is not None else None)


def order_instant(obj):
    """What 'newest' means for de-duplicated federation answers: modified, else created, else nothing."""
    v = obj.get("modified") or obj.get("created")
    return instant(v) if v is not None else None


# ---- comparison form ---------------------------------------------------------

def norm(v, top=True):
    """Timestamps -> instants, spec-default members dropped (top level only)."""
    if isinstance(v, dict):
        out = {}
        for k, x in v.items():
            if top and k in DEFAULTS and x == DEFAULTS[k] and isinstance(x, bool):
                continue
            out[k] = norm(x, False)
        return out
    if isinstance(v, list):
        return [norm(x, False) for x in v]
    if is_ts(v):
        return {"$instant": instant(v)}
    return v


def canon(obj):
    return json.dumps(norm(obj), sort_keys=True, separators=(",", ":"), ensure_ascii=True)


def multiset(objs):
    return sorted(canon(o) for o in objs)


# ---- filters -------------------------------------------------------------------

def _final_values(v, steps):
    """All values the dotted path addresses (fan-out over lists)."""
    if isinstance(v, list):
        out = []
        for e in v:
            out.extend(_final_values(e, steps))
        return out
    if not steps:
        return [v]
    if isinstance(v, dict) and steps[0] in v:
        return _final_values(v[steps[0]], steps[1:])
    return []


def addressed(obj, path):
    """Values addressed by `path`, lists kept whole at the end (used by `contains` and by generators).
    Returns a list of (value_is_list_member_view, value)."""
    steps = path.split(".")

    def walk(v, st):
        if not st:
            return [v]
        if isinstance(v, list):
            out = []
            for e in v:
                out.extend(walk(e, st))
            return out
        if isinstance(v, dict) and st[0] in v:
            return walk(v[st[0]], st[1:])
        return []
    return walk(obj, steps)


def _fv(value):
    """Filter value -> comparable (instants for datetimes / timestamp strings are produced lazily)."""
    if isinstance(value, dict) and "$dt" in value:
        return ("dt", instant(value["$dt"]))
    return ("v", value)


def _cmp(op, pv, fvalue, quirk=None):
    """quirk is never used for an expected answer; it reproduces two *named* behaviours so that a
    disagreement can be attributed: "text" = timestamps compared as plain text (what happens to objects the
    library keeps as dictionaries), "parsed-in" = a parsed timestamp is never `in` a list of timestamp strings."""
    kind, fv = _fv(fvalue)
    if is_ts(pv) and quirk != "text":
        if kind == "dt":
            pv = instant(pv)
        elif is_ts(fv):
            pv, fv = instant(pv), instant(fv)
        elif op == "in" and isinstance(fv, list):
            if quirk == "parsed-in":
                return False
            pv, fv = instant(pv), [instant(x) if is_ts(x) else x for x in fv]
    elif kind == "dt":
        raise ValueError("datetime filter value against a non-timestamp property or a dictionary-kept object: outside the domain")
    if op == "=":
        return pv == fv
    if op == "!=":
        return pv != fv
    if op == "in":
        return pv in fv
    if op == "<":
        return pv < fv
    if op == "<=":
        return pv <= fv
    if op == ">":
        return pv > fv
    if op == ">=":
        return pv >= fv
    raise ValueError(op)


def holds(flt, obj, quirk=None):
    op = flt["op"]
    if op not in OPS:
        raise ValueError(op)
    if op == "contains":
        for v in addressed(obj, flt["prop"]):
            if isinstance(v, (list, str)) and flt["value"] in v:
                return True
        return False
    for pv in _final_values(obj, flt["prop"].split(".")):
        if _cmp(op, pv, flt["value"], quirk):
            return True
    return False


def matches(filters, obj, quirk_for=None):
    """All filters hold.  quirk_for(obj) -> None | "text" | "parsed-in" (see _cmp; attribution only)."""
    q = quirk_for(obj) if quirk_for else None
    return all(holds(f, obj, q) for f in filters)


# ---- the store model ---------------------------------------------------------------

class ListModel(object):
    def __init__(self, objs=()):
        self.objs = []
        self.keys = {}
        for o in objs:
            self.add(o)

    def add(self, obj):
        """Returns True when a new (id, version) was stored.  An existing (id, version) is left as it is."""
        k = key_of(obj)
        if k in self.keys:
            return False
        self.keys[k] = obj
        self.objs.append(obj)
        return True

    def has(self, obj):
        return key_of(obj) in self.keys

    def ids(self):
        seen = []
        for o in self.objs:
            if o["id"] not in seen:
                seen.append(o["id"])
        return seen

    def versions(self, stix_id, filters=()):
        return [o for o in self.objs if o["id"] == stix_id and matches(filters, o)]

    def latest(self, stix_id):
        vs = self.versions(stix_id)
        if not vs:
            return None
        best = vs[0]
        for o in vs[1:]:
            a, b = key_of(o)[1], key_of(best)[1]
            if a is not None and b is not None and a > b:
                best = o
        return best

    def query(self, filters=(), quirk_for=None):
        return [o for o in self.objs if matches(filters, o, quirk_for)]


# ---- navigation as a scan -------------------------------------------------------------

def relationships(objs, obj_id, relationship_type=None, source_only=False, target_only=False):
    out = []
    for o in objs:
        if o.get("type") != "relationship":
            continue
        if relationship_type is not None and o.get("relationship_type") != relationship_type:
            continue
        hit = (not target_only and o.get("source_ref") == obj_id) or (not source_only and o.get("target_ref") == obj_id)
        if hit:
            out.append(o)
    return out


def related_ids(objs, obj_id, relationship_type=None, source_only=False, target_only=False):
    ids = []
    for r in relationships(objs, obj_id, relationship_type, source_only, target_only):
        for end in (r.get("source_ref"), r.get("target_ref")):
            if end != obj_id and end not in ids:
                ids.append(end)
    return ids


def related_to(objs, obj_id, relationship_type=None, source_only=False, target_only=False, filters=()):
    ids = related_ids(objs, obj_id, relationship_type, source_only, target_only)
    return [o for o in objs if o["id"] in ids and matches(filters, o)]


# ---- self-test ----------------------------------------------------------------------------

def selftest():
    a1 = {"type": "x", "id": "x--1", "modified": "2020-01-01T00:00:00Z", "n": 1, "tags": ["alpha", "bravo"],
          "refs": [{"s": "capec", "e": "C-1"}, {"s": "acme"}], "d": {"k": "v"}, "gm": [{"sel": ["name", "d"]}]}
    a2 = {"type": "x", "id": "x--1", "modified": "2020-01-01T00:00:00.5Z", "n": 2, "revoked": False}
    b = {"type": "y-z", "id": "y-z--2", "v": "obs"}
    m = ListModel([a1, a2, b, dict(a1)])
    assert len(m.objs) == 3
    assert m.latest("x--1") is a2, "…:00.5Z is later than …:00Z"
    assert m.latest("y-z--2") is b and m.latest("q--0") is None
    assert key_of(a1) == key_of(dict(a1, modified="2020-01-01T00:00:00.000Z"))
    assert canon(a2) == canon({"id": "x--1", "type": "x", "n": 2, "modified": "2020-01-01T00:00:00.500000Z"})

    def q(p, op, v):
        return [o["id"] + "/" + str(o.get("n", "")) for o in m.query([{"prop": p, "op": op, "value": v}])]
    assert q("n", "=", 1) == ["x--1/1"] and q("n", "!=", 1) == ["x--1/2"], "missing property never matches"
    assert q("n", ">=", 1) == ["x--1/1", "x--1/2"] and q("n", "<", 2) == ["x--1/1"]
    assert q("n", "in", [2, 3]) == ["x--1/2"] and q("n", "in", []) == []
    assert q("tags", "=", "bravo") == ["x--1/1"] and q("tags", "in", ["zulu", "alpha"]) == ["x--1/1"]
    assert q("tags", "contains", "alpha") == ["x--1/1"] and q("tags", "contains", "zulu") == []
    assert q("v", "contains", "bs") == ["y-z--2/"]
    assert q("refs.s", "=", "acme") == ["x--1/1"] and q("refs.e", "=", "C-1") == ["x--1/1"] and q("refs.e", "=", "acme") == []
    assert q("d.k", "=", "v") == ["x--1/1"] and q("d.k", "!=", "v") == [] and q("d.z", "=", "v") == []
    assert q("gm.sel", "=", "d") == ["x--1/1"] and q("gm.sel", "in", ["q"]) == []
    assert q("modified", ">", "2020-01-01T00:00:00.2Z") == ["x--1/2"], "instants, not text"
    assert q("modified", "=", "2020-01-01T00:00:00.000000Z") == ["x--1/1"]
    assert q("modified", "<=", {"$dt": "2020-01-01T00:00:00.000Z"}) == ["x--1/1"]
    assert q("modified", "in", ["2020-01-01T00:00:00.50Z"]) == ["x--1/2"]
    assert q("type", "=", "y-z") == ["y-z--2/"] and q("type", "!=", "y-z") == ["x--1/1", "x--1/2"]
    assert [o.get("n") for o in m.query([{"prop": "modified", "op": ">", "value": "2020-01-01T00:00:00.2Z"}], quirk_for=lambda o: "text")] == [1, 2]
    assert m.query([{"prop": "modified", "op": "in", "value": ["2020-01-01T00:00:00.50Z"]}], quirk_for=lambda o: "parsed-in") == []
    r1 = {"type": "relationship", "id": "relationship--1", "relationship_type": "uses", "source_ref": "x--1", "target_ref": "y-z--2"}
    r2 = {"type": "relationship", "id": "relationship--2", "relationship_type": "hits", "source_ref": "x--1", "target_ref": "x--1"}
    objs = m.objs + [r1, r2]
    assert relationships(objs, "x--1") == [r1, r2] and relationships(objs, "x--1", target_only=True) == [r2]
    assert relationships(objs, "y-z--2", "uses") == [r1] and relationships(objs, "y-z--2", "hits") == []
    assert related_ids(objs, "x--1") == ["y-z--2"] and related_ids(objs, "y-z--2", source_only=True) == []
    assert [o["id"] for o in related_to(objs, "y-z--2")] == ["x--1", "x--1"]
    assert related_to(objs, "y-z--2", filters=[{"prop": "n", "op": "=", "value": 2}]) == [a2]
