"""Loader for the frozen specification model (specmodel/v20.json, v21.json)."""
import json
import os

_HERE = os.path.dirname(os.path.dirname(os.path.abspath(__file__)))
_CACHE = {}


class Model(object):
    def __init__(self, ver):
        with open(os.path.join(_HERE, "specmodel", "v%s.json" % ver.replace(".", ""))) as f:
            d = json.load(f)
        self.ver = ver
        self.d = d
        self.objects = d["objects"]          # type -> class name
        self.observables = d["observables"]
        self.markings = d["markings"]
        self.extensions = d["extensions"]
        self.classes = d["classes"]
        self.sdo_types = d["sdo_types"]
        self.sro_types = d["sro_types"]
        self.sco_types = d["sco_types"]
        self.meta_types = d["meta_types"]
        self.ext_hosts = d["ext_hosts"]
        self.tlp = d["tlp"]
        self.tlp_created = d["tlp_created"]
        self.hash_shapes = d["hash_shapes"]
        self.hash_gen_only = d["hash_gen_only"]

    def cls(self, name):
        return self.classes[name]

    def props(self, name):
        return self.classes[name]["properties"]

    def class_for_type(self, t, container=False):
        """Top-level dispatch.  2.0 SCOs exist only inside containers."""
        if t in self.objects:
            return self.objects[t]
        if t in self.observables and (self.ver == "2.1" or container):
            return self.observables[t]
        return None

    def all_known_types(self):
        return sorted(set(self.objects) | set(self.observables))

    def ref_targets(self, desc):
        """Type names a reference slot may point to (whitelists only)."""
        out = set(desc.get("specifics", []))
        for g in desc.get("generics", []):
            out.update({"SDO": self.sdo_types, "SCO": self.sco_types if self.ver == "2.1" else [], "SRO": self.sro_types}[g])
        return sorted(out)

    def exts_for_host(self, host_type):
        return sorted(e for e, h in self.ext_hosts.items() if h == host_type)


def get(ver):
    if ver not in _CACHE:
        _CACHE[ver] = Model(ver)
    return _CACHE[ver]
