#!/bin/sh
# Offline setup: make sure hypothesis is importable from /venv (it is pre-installed
# there on this image; otherwise install it from the offline wheelhouse into .deps).
HERE="$(cd "$(dirname "$0")" && pwd)"
cd "$HERE"
if ! PYTHONPATH="$HERE/.deps" /venv/bin/python -c "import hypothesis" 2>/dev/null; then
  PIP_NO_INDEX=1 /venv/bin/pip install --no-index --find-links /opt/veriftools/wheels --target "$HERE/.deps" hypothesis || exit 1
fi
# optional: atheris for the coverage-guided supplement of C17's thorough tier (skipped silently if the wheel is missing)
if ! PYTHONPATH="$HERE/.deps" /venv/bin/python -c "import atheris" 2>/dev/null; then
  PIP_NO_INDEX=1 /venv/bin/pip install -q --no-index --find-links /opt/veriftools/wheels --target "$HERE/.deps" atheris >/dev/null 2>&1 || true
fi
PYTHONPATH="/repo:$HERE/.deps" /venv/bin/python -c "import hypothesis, stix2, stix2patterns; print('setup ok: hypothesis', hypothesis.__version__, 'stix2', stix2.__version__)"
