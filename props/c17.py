"""C17 -- bad input is reported only through the library's error family
(STIXError, ValueError, TypeError); nothing else escapes; failed construction
leaves registries and stores unchanged; every call terminates.
"""
import io
import json
import signal

from hypothesis import strategies as st

from gen import corrupt as C
from gen import objects as G
from harness import core
from oracle import model as M


class _Timeout(BaseException):
    pass


def _alarm(signum, frame):
    raise _Timeout()


def with_watchdog(fn, seconds=60):
    old = signal.signal(signal.SIGALRM, _alarm)
    signal.setitimer(signal.ITIMER_REAL, seconds)
    try:
        return fn()
    finally:
        signal.setitimer(signal.ITIMER_REAL, 0)
        signal.signal(signal.SIGALRM, old)


_registered = [False]
C17_EXT = "extension-definition--a1b2c3d4-0000-4000-8000-00000000e001"


def ensure_custom():
    """Harness-registered custom marking / extension / object types whose property names coincide with names the base classes give
    a meaning to (created, modified, id-less classes): constraint checks written for identified objects run on them too."""
    if _registered[0]:
        return
    import stix2
    from stix2 import properties as P

    @stix2.v21.CustomMarking("x-verif-c17mark", [("created", P.TimestampProperty()), ("modified", P.TimestampProperty()), ("level", P.IntegerProperty(required=True)),
                                                 ("flag", P.BooleanProperty())])
    class C17Mark(object):
        pass

    @stix2.v21.CustomExtension("x-verif-c17-ext", [("created", P.TimestampProperty()), ("modified", P.TimestampProperty()), ("first_seen", P.TimestampProperty()),
                                                   ("last_seen", P.TimestampProperty()), ("rank", P.IntegerProperty())])
    class C17Ext(object):
        pass

    @stix2.v21.CustomExtension(C17_EXT, [("created", P.TimestampProperty()), ("modified", P.TimestampProperty()), ("rank", P.IntegerProperty(required=True))])
    class C17Ext2(object):
        extension_type = "property-extension"

    @stix2.v20.CustomMarking("x-verif-c17mark", [("created", P.TimestampProperty()), ("modified", P.TimestampProperty()), ("level", P.IntegerProperty(required=True))])
    class C17Mark20(object):
        pass
    _registered[0] = True


U17 = "3f2504e0-4f89-41d3-9a0c-0305e82c3301"
CUSTOM_BASES = [
    ("2.1", {"type": "marking-definition", "spec_version": "2.1", "id": "marking-definition--" + U17, "created": "2020-01-01T00:00:00.000Z", "definition_type": "x-verif-c17mark",
             "definition": {"created": "2020-01-01T00:00:00Z", "modified": "2020-01-02T00:00:00Z", "level": 1, "flag": False}}),
    ("2.0", {"type": "marking-definition", "id": "marking-definition--" + U17, "created": "2020-01-01T00:00:00.000Z", "definition_type": "x-verif-c17mark",
             "definition": {"created": "2020-01-01T00:00:00Z", "modified": "2020-01-02T00:00:00Z", "level": 1}}),
    ("2.1", {"type": "file", "spec_version": "2.1", "id": "file--" + U17, "name": "f",
             "extensions": {"x-verif-c17-ext": {"created": "2020-01-01T00:00:00Z", "modified": "2020-01-02T00:00:00Z", "first_seen": "2020-01-01T00:00:00Z",
                                                "last_seen": "2020-01-02T00:00:00Z", "rank": 1}}}),
    ("2.1", {"type": "identity", "spec_version": "2.1", "id": "identity--" + U17, "created": "2020-01-01T00:00:00.000Z", "modified": "2020-01-02T00:00:00.000Z", "name": "n",
             "extensions": {C17_EXT: {"extension_type": "property-extension", "created": "2020-01-01T00:00:00Z", "modified": "2020-01-02T00:00:00Z", "rank": 1}}}),
]
CUSTOM_VALUES = ["0001-01-01T00:00:00Z", "9999-12-31T23:59:59Z", "2020-01-01T12:00:00Z", None, 5, "x", True, [], {}]


def registry_snapshot():
    from stix2 import registry
    return {v: {cat: dict(mp) for cat, mp in maps.items()} for v, maps in registry.STIX2_OBJ_MAPS.items()}


def registry_restore(snap):
    """Put the registries back (after a change was reported): the verdict on a case must not depend on whether an earlier execution of
    the same case already left its traces -- the search replays failing cases."""
    from stix2 import registry
    maps = registry.STIX2_OBJ_MAPS
    for v in [v for v in maps if v not in snap]:
        del maps[v]
    for v, cats in snap.items():
        cur = maps[v]
        for cat in [c for c in cur if c not in cats]:
            del cur[cat]
        for cat, mp in cats.items():
            cur[cat].clear()
            cur[cat].update(mp)


SCOPE_JUNK = [{}, {"type": 5}, {"type": None}, {"a": 1}, {"type": {}}, [], ["file"], 0, None, True, "", 1.5, {"type": "file"}]


def make_junk(spec):
    """Depth-parameterised nesting built outside the JSON case (keeps replay files small)."""
    if isinstance(spec, dict) and "$nest" in spec:
        n, kind, leaf = spec["$nest"], spec.get("kind", "list"), spec.get("leaf", 1)
        v = leaf
        for _ in range(n):
            v = [v] if kind == "list" else {"a": v}
        return v
    if isinstance(spec, dict):
        return {k: make_junk(v) for k, v in spec.items()}
    if isinstance(spec, list):
        return [make_junk(v) for v in spec]
    return spec


def call(entry, payload, ver, valid_refs=None):
    import stix2
    from stix2 import registry
    if valid_refs is not None:
        # a STIX 2.0 observable on its own (outside an observed-data container): the documented _valid_refs argument names its siblings
        if entry == "constructor":
            cls = registry.class_for_type(payload.get("type"), ver, "observables") if isinstance(payload, dict) and isinstance(payload.get("type"), str) else None
            if cls is None or not all(isinstance(k, str) for k in payload):
                return None, ValueError("no constructor route for this payload")
            return core.guarded(cls, _valid_refs=dict(valid_refs), **{k: v for k, v in payload.items() if k != "type"})
        if entry == "parse-text":
            return core.guarded(stix2.parse_observable, json.dumps(payload), dict(valid_refs), allow_custom=False, version=ver)
        if entry == "parse-inline-refs":
            # the scope travelling inside the document itself (the observable classes take a "_valid_refs" member of the content)
            return core.guarded(stix2.parse, json.dumps(dict(payload, _valid_refs=valid_refs)), allow_custom=False)
        return core.guarded(stix2.parse_observable, payload, dict(valid_refs), allow_custom=entry == "parse-custom", version=ver)
    if entry == "parse":
        return core.guarded(stix2.parse, payload, allow_custom=False)
    if entry == "parse-custom":
        return core.guarded(stix2.parse, payload, allow_custom=True)
    if entry == "parse-version":
        return core.guarded(stix2.parse, payload, allow_custom=False, version=ver)
    if entry == "parse-text":
        return core.guarded(stix2.parse, json.dumps(payload), allow_custom=False)
    if entry == "parse-text-version":
        return core.guarded(stix2.parse, json.dumps(payload), allow_custom=False, version=ver)
    if entry == "parse-file":
        return core.guarded(stix2.parse, io.StringIO(json.dumps(payload)), allow_custom=False)
    if entry == "parse_observable":
        return core.guarded(stix2.parse_observable, payload, allow_custom=False, version=ver)
    if entry == "constructor":
        t = payload.get("type") if isinstance(payload, dict) else None
        cls = None
        if isinstance(t, str):
            cls = registry.class_for_type(t, ver, "objects") or registry.class_for_type(t, ver, "observables")
        if cls is None or not all(isinstance(k, str) for k in payload):
            return None, ValueError("no constructor route for this payload")
        kw = {k: v for k, v in payload.items() if k != "type"}
        return core.guarded(cls, **kw)
    if entry == "memory-add":
        store = stix2.MemoryStore()
        before = len(store.query())
        res, exc = core.guarded(store.add, payload)
        single = isinstance(payload, dict) and payload.get("type") != "bundle"
        # a list / bundle is added member by member: members accepted before the failing one legitimately stay
        if exc is not None and single and len(store.query()) != before:
            return None, AssertionError("store changed by a failed add")
        return res, None   # which exception a *store* raises is outside this property; only "store unchanged" is asserted
    raise AssertionError(entry)


def judge(entry, payload_desc, res, exc, elapsed_note=None, site=None):
    from stix2.exceptions import STIXError
    if exc is None:
        return []
    if isinstance(exc, (STIXError, ValueError, TypeError)):
        return []
    frame = core.lib_frame(exc) or "outside-library"
    name = type(exc).__name__
    feature = ""
    if isinstance(exc, RecursionError):
        frame = "deep-nesting" + (":" + site if site else "")
    if isinstance(exc, AssertionError) and "store changed" in str(exc):
        return [("store-changed-by-failed-add", payload_desc)]
    return [("escaped:%s@%s" % (name, frame), "%s raised %s for %s" % (entry, core.fmt_exc(exc), payload_desc))]


def check_late_registration(case):
    """'A failed construction leaves registries ... unchanged' observed through behaviour, not through the registry maps: content of a
    type that is not registered is refused; the type is registered afterwards; the same content must now parse to the registered
    class.  (State kept outside STIX2_OBJ_MAPS -- a memo of failed lookups -- is invisible to a comparison of the maps.)"""
    import stix2
    from stix2 import properties as P
    from stix2 import registry
    kind, ver = case["late"], case["ver"]
    name = "x-verif-c17late-%s-%s" % (kind[:3], ver.replace(".", ""))
    doc = {"type": name, "prop_a": "v"}
    if kind == "object":
        doc.update({"id": "%s--%s" % (name, U17), "created": "2020-01-01T00:00:00.000Z", "modified": "2020-01-01T00:00:00.000Z"})
    elif ver == "2.1":
        doc["id"] = "%s--%s" % (name, U17)
    if ver == "2.1":
        doc["spec_version"] = "2.1"
    snap = registry_snapshot()
    fails = []
    try:
        for how in case.get("early", ["parse", "parse-version", "parse-text", "parse-custom", "bundle", "memory-add"]):
            if how == "bundle":
                b = {"type": "bundle", "id": "bundle--" + U17, "objects": [dict(doc)]}
                core.guarded(stix2.parse, b, allow_custom=False)
            elif kind == "observable" and ver == "2.0":
                core.guarded(stix2.parse_observable, dict(doc), allow_custom=(how == "parse-custom"), version=ver)
            else:
                call(how, dict(doc), ver)
        mod = stix2.v20 if ver == "2.0" else stix2.v21
        props = [("prop_a", P.StringProperty(required=True))]
        cls0 = type("C17Late", (object,), {})
        if kind == "object":
            cls = mod.CustomObject(name, props)(cls0)
        elif ver == "2.1":
            cls = mod.CustomObservable(name, props, ["prop_a"])(cls0)
        else:
            cls = mod.CustomObservable(name, props)(cls0)
        if kind == "observable" and ver == "2.0":
            res, exc = core.guarded(stix2.parse_observable, dict(doc), allow_custom=False, version=ver)
        else:
            res, exc = core.guarded(stix2.parse, dict(doc), allow_custom=False, version=ver)
        if exc is not None or type(res) is not cls:
            fails.append(("refused-parse-left-state:%s" % kind, "content of %r was refused while the type was unregistered; after registering it as a %s %s the same content gives %s" % (
                name, ver, kind, core.fmt_exc(exc) if exc is not None else type(res).__name__)))
        elif kind == "object" or ver == "2.1":
            res2, exc2 = core.guarded(stix2.parse, json.dumps(doc), allow_custom=False)
            if exc2 is not None or type(res2) is not cls:
                fails.append(("refused-parse-left-state:%s" % kind, "... and as JSON text without a named version: %s" % (core.fmt_exc(exc2) if exc2 is not None else type(res2).__name__)))
    finally:
        for v, maps in snap.items():
            for cat, mp in maps.items():
                cur = registry.STIX2_OBJ_MAPS[v][cat]
                cur.clear()
                cur.update(mp)
    return fails


# ---- a refused addition leaves the store as it was ------------------------------------------------------------------
ATOMIC_JUNK = [None, 0, 1.5, True, "junk", "", [], [1], ["2020-01-01T00:00:00.000Z"], {}, {"a": 1}]
ATOMIC_BASES = {
    # kept as a dictionary (unregistered type; the stores' allow_custom default admits it)
    "unregistered": {"type": "x-verif-c17unreg", "spec_version": "2.1", "id": "x-verif-c17unreg--3f2504e0-4f89-41d3-9a0c-0305e82c3301",
                     "created": "2020-01-01T00:00:00.000Z", "modified": "2020-01-02T00:00:00.000Z", "name": "n"},
    "unregistered-unversioned": {"type": "x-verif-c17unreg", "spec_version": "2.1", "id": "x-verif-c17unreg--3f2504e0-4f89-41d3-9a0c-0305e82c3301", "name": "n"},
    "registered": {"type": "identity", "spec_version": "2.1", "id": "identity--3f2504e0-4f89-41d3-9a0c-0305e82c3301", "created": "2020-01-01T00:00:00.000Z",
                   "modified": "2020-01-02T00:00:00.000Z", "name": "n"},
    "custom-content": {"type": "identity", "spec_version": "2.1", "id": "identity--3f2504e0-4f89-41d3-9a0c-0305e82c3301", "created": "2020-01-01T00:00:00.000Z",
                       "modified": "2020-01-02T00:00:00.000Z", "name": "n", "x_foo": 1},
}
ATOMIC_STORES = ["memory-store", "memory-sink", "fs-sink", "fs-sink-bundlify", "fs-sink-strict", "fs-sink-strict-bundlify"]


def atomic_cases():
    out = []
    for store in ATOMIC_STORES:
        for base in ATOMIC_BASES:
            for pre in (False, True):
                for form in ("dict", "object"):
                    if form == "object" and base != "custom-content":
                        continue
                    out.append({"atomic": {"store": store, "base": base, "prop": None, "junk": None, "pre": pre, "form": form}, "entry": "store-add"})
                    if form == "object":
                        continue
                    for prop in ("modified", "id", "type", "created"):
                        if prop not in ATOMIC_BASES[base]:
                            continue
                        for j in list(range(len(ATOMIC_JUNK))) + ["absent"]:
                            out.append({"atomic": {"store": store, "base": base, "prop": prop, "junk": j, "pre": pre, "form": form}, "entry": "store-add"})
    return out


def _store_state(store, root):
    """Everything the store holds, including what its query interface does not show (an entry without versions)."""
    import os
    if root is not None:
        state = {}
        for r, ds, fs in os.walk(root):
            state[os.path.relpath(r, root)] = sorted(fs)
            for f in fs:
                with open(os.path.join(r, f), "rb") as fh:
                    state[os.path.relpath(os.path.join(r, f), root)] = fh.read().decode("utf-8", "replace")
        return state
    state = {}
    for k, v in store._data.items():
        if hasattr(v, "all_versions"):
            state[repr(k)] = sorted((repr(m), json.dumps(o if isinstance(o, dict) else json.loads(o.serialize()), sort_keys=True, default=repr)) for m, o in v.all_versions.items())
            state[repr(k) + "/latest"] = None if v.latest_version is None else repr(v.latest_version["modified"])
        else:
            state[repr(k)] = json.dumps(v if isinstance(v, dict) else json.loads(v.serialize()), sort_keys=True, default=repr)
    return state


def check_store_atomicity(case):
    import copy
    import shutil
    import tempfile
    import stix2
    a = case["atomic"]
    doc = copy.deepcopy(ATOMIC_BASES[a["base"]])
    if a["prop"] is not None:
        if a["junk"] == "absent":
            doc.pop(a["prop"], None)
        else:
            doc[a["prop"]] = copy.deepcopy(ATOMIC_JUNK[a["junk"]])
    tmp = tempfile.mkdtemp(prefix="c17-store-") if a["store"].startswith("fs") else None
    try:
        if a["store"] == "memory-store":
            store = stix2.MemoryStore()
        elif a["store"] == "memory-sink":
            store = stix2.MemorySink()
        else:
            store = stix2.FileSystemSink(tmp, allow_custom="strict" not in a["store"], bundlify="bundlify" in a["store"])
        if a["pre"]:
            # an earlier, valid version of the same object is already there
            earlier = copy.deepcopy(ATOMIC_BASES["registered" if a["base"] == "custom-content" else a["base"]])
            if "modified" in earlier:
                earlier["modified"] = "2020-01-01T12:00:00.000Z"
            _, exc0 = core.guarded(store.add, earlier)
            if exc0 is not None:
                return None
        payload = doc
        if a["form"] == "object":
            payload, exc0 = core.guarded(stix2.parse, doc, allow_custom=True)
            if exc0 is not None:
                return None
        before = _store_state(store, tmp)
        try:
            _, exc = with_watchdog(lambda: core.guarded(store.add, payload))
        except _Timeout:
            return [("no-termination-within-60s", "%s.add(%s)" % (a["store"], core.short(doc, 200)))]
        if exc is None:
            return []
        after = _store_state(store, tmp)
        if after != before:
            changed = sorted(set(k for k in set(before) | set(after) if before.get(k) != after.get(k)))
            return [("store-changed-by-failed-add:%s" % a["store"].split("-")[0], "%s.add(%s) raised %s and left the store changed at %s" % (
                a["store"], core.short(doc, 250), core.fmt_exc(exc), core.short(changed, 200)))]
        return []
    finally:
        if tmp:
            shutil.rmtree(tmp, ignore_errors=True)


def check_case(case):
    ensure_custom()
    if "late" in case:
        return check_late_registration(case)
    if "atomic" in case:
        return check_store_atomicity(case)
    ver = case.get("ver", "2.1")
    entry = case["entry"]
    if "nest" in case:
        n, kind, where, as_text = case["nest"]["depth"], case["nest"]["kind"], case["nest"]["where"], case["nest"]["text"]
        if as_text:
            inner = ("[" * n + "1" + "]" * n) if kind == "list" else ('{"a":' * n + "1" + "}" * n)
            if where == "document":
                payload = inner
            else:
                base = json.dumps(case["doc"])
                if where.startswith("ext-content"):
                    inner = '{"extension-definition--3f2504e0-4f89-41d3-9a0c-0305e82c3301": {"extension_type": "property-extension", "deep": %s}}' % inner
                    payload = base[:-1] + ', "extensions": %s}' % inner
                elif where == "toplevel-ext-prop":
                    payload = base[:-1] + ', "extensions": {"extension-definition--3f2504e0-4f89-41d3-9a0c-0305e82c3301": {"extension_type": "toplevel-property-extension"}}, "toplevel_deep": %s}' % inner
                else:
                    payload = base[:-1] + ', "%s": %s}' % (where, inner)
        else:
            junk = make_junk({"$nest": n, "kind": kind})
            if where == "document":
                payload = junk
            elif where.startswith("ext-content"):
                payload = dict(case["doc"], extensions={"extension-definition--3f2504e0-4f89-41d3-9a0c-0305e82c3301": {"extension_type": "property-extension", "deep": junk}})
            elif where == "toplevel-ext-prop":
                # a property the object owes to an unregistered top-level extension: taken over without a property class of its own
                payload = dict(case["doc"], extensions={"extension-definition--3f2504e0-4f89-41d3-9a0c-0305e82c3301": {"extension_type": "toplevel-property-extension"}}, toplevel_deep=junk)
            else:
                payload = dict(case["doc"], **{where: junk})
        import stix2
        fn = stix2.parse
        if where == "bundle-in-bundle":
            # bundles inside bundles: the spec-version detection recurses over members before anything is cleaned
            inner_b = {"type": "bundle", "id": "bundle--3f2504e0-4f89-41d3-9a0c-0305e82c3301", "objects": [dict(case["doc"])]}
            for _ in range(n):
                inner_b = {"type": "bundle", "id": "bundle--3f2504e0-4f89-41d3-9a0c-0305e82c3301", "objects": [inner_b]}
            if as_text and n <= 900:
                # (the text is assembled by hand: json.dumps would hit the interpreter's recursion limit inside the HARNESS for n > ~480,
                # two container levels per bundle)
                head = '{"type": "bundle", "id": "bundle--3f2504e0-4f89-41d3-9a0c-0305e82c3301", "objects": ['
                payload = head * (n + 1) + json.dumps(dict(case["doc"])) + "]}" * (n + 1)
            else:
                payload = inner_b
        elif where == "selector-deep":
            # ... and here the selector addresses the INNERMOST value: the walk is abandoned at the bottom of the nesting
            junk = make_junk({"$nest": n, "kind": kind})
            sel = "x_deep" + (".[0]" if kind == "list" else ".a") * n
            payload = dict(case["doc"], x_deep=junk, granular_markings=[{"marking_ref": "marking-definition--613f2e26-407d-48c7-9eca-b8e91df99dc9", "selectors": [sel]}])
            payload = json.dumps(payload) if as_text and n <= 900 else payload
        elif where == "selector-walk":
            # a granular-marking selector is resolved by walking the whole object, deep custom content included
            junk = make_junk({"$nest": n, "kind": kind})
            payload = dict(case["doc"], x_deep=junk, x_zzz=1, granular_markings=[{"marking_ref": "marking-definition--613f2e26-407d-48c7-9eca-b8e91df99dc9", "selectors": ["x_zzz"]}])
            payload = json.dumps(payload) if as_text and n <= 900 else payload
        elif where == "definition-text":
            # the marking's `definition` given as JSON TEXT inside the document (the constructor documents str input for it)
            inner_t = ("[" * n + "1" + "]" * n) if kind == "list" else ('{"a":' * n + "1" + "}" * n)
            payload = dict(case["doc"], definition=inner_t)
            payload = json.dumps(payload) if as_text and n <= 900 else payload
        elif where == "parse_observable":
            junk = make_junk({"$nest": n, "kind": kind})
            payload = {"type": "file", "name": "f", "x_deep": junk}
            payload = json.dumps(payload) if as_text and n <= 900 else payload
            fn = lambda p, allow_custom: stix2.parse_observable(p, allow_custom=allow_custom, version="2.1")  # noqa: E731
        desc = "nesting depth %d (%s) at %s as %s" % (n, kind, where, "text" if as_text else "dict")
        if case["nest"].get("via") == "constructor":
            # the class constructor called directly with the same content (not through parse())
            if not isinstance(payload, dict) or not isinstance(payload.get("type"), str):
                return []
            from stix2 import registry
            cls = registry.class_for_type(payload["type"], "2.1", "objects") or registry.class_for_type(payload["type"], "2.1", "observables")
            if cls is None:
                return []
            kw = {k: v for k, v in payload.items() if k != "type"}
            fn = lambda p, allow_custom: cls(allow_custom=allow_custom, **kw)  # noqa: E731
            desc += " through the constructor"
        before = registry_snapshot()
        try:
            res, exc = with_watchdog(lambda: core.guarded(fn, payload, allow_custom=case["nest"]["allow_custom"]))
        except _Timeout:
            return [("no-termination-within-60s", desc)]
        # where the recursion limit is hit decides the root cause: json.loads on any deeply nested text, the document itself
        # being a deeply nested non-object, or (not on the pinned tree) a property value that slipped past cleaning
        site = "json-text" if as_text else "document" if where == "document" else "property:" + where
        if case["nest"].get("via") == "constructor":
            site = "constructor:" + where
        fails = judge("parse", desc, res, exc, site=site)
        if registry_snapshot() != before:
            fails.append(("registry-changed", desc))
            registry_restore(before)
        return fails
    if "doc" in case:
        payload = case["doc"]
        for c in case.get("corruptions", []):
            c = dict(c, value=make_junk(c.get("value")))
            try:
                payload = C.apply(payload, c)
            except (KeyError, IndexError, TypeError):
                return None
    else:
        payload = make_junk(case["junk"])
    desc = core.short(case.get("corruptions") or case.get("junk"), 300) + " on " + core.short(case.get("doc", ""), 300)
    before = registry_snapshot()
    try:
        res, exc = with_watchdog(lambda: call(entry, payload, ver, case.get("valid_refs")))
    except _Timeout:
        return [("no-termination-within-60s", "%s did not return within 60 s for %s" % (entry, desc))]
    fails = judge(entry, desc, res, exc)
    after = registry_snapshot()
    if after != before:
        what = [v for v in after if v not in before] or [(v, c) for v in before for c in before[v] if after.get(v, {}).get(c) != before[v][c]]
        fails.append(("registry-changed", "registries differ after %s on %s: %s" % (entry, desc, core.short(what, 200))))
        registry_restore(before)
    if exc is None and res is not None and hasattr(res, "serialize"):
        _, exc2 = core.guarded(res.serialize)
        if exc2 is not None:
            from stix2.exceptions import STIXError
            if not isinstance(exc2, (STIXError, ValueError, TypeError)):
                fails.append(("escaped-on-serialize:%s@%s" % (type(exc2).__name__, core.lib_frame(exc2) or "outside-library"), "returned object cannot be serialized: %s ; %s" % (core.fmt_exc(exc2), desc)))
    return fails


# ---- strategies -------------------------------------------------------------------------------------------------
JUNK_VALUES = [None, True, False, 0, -1, 1.5, "", "x", [], [None], [[1]], {}, {"a": None}, {"a": {"b": []}}, [{}], "5", "null", [1, "a", None],
               {"type": "x"}, {"type": 5}, [{"type": "identity"}], {"$nest": 50, "kind": "list"}, {"$nest": 50, "kind": "dict"}, 10 ** 400, -0.0, "\x00",
               "퟿", {"": 1}, {"extensions": 5}, [[]], "2020-01-01T00:00:00Z", "identity--00000000-0000-4000-8000-000000000000",
               # strings that mean something to code which inspects raw input before cleaning
               "toplevel-property-extension", "new-sdo", "property-extension", "bundle", "marking-definition", "2.0", "2.1", "extension-definition--x"]
junk_leaf = st.one_of(st.none(), st.booleans(), st.integers(-10, 10), st.floats(allow_nan=False, allow_infinity=False, width=32), st.text(max_size=5),
                      st.sampled_from(["type", "id", "identity", "bundle", "2.1", "2.0", "extensions", "objects", "toplevel-property-extension", "new-sdo",
                                       "property-extension", "file", "statement", "tlp", "x-never-registered", "identity--3f2504e0-4f89-41d3-9a0c-0305e82c3301"]))
junk_json = st.recursive(junk_leaf, lambda ch: st.one_of(st.lists(ch, max_size=3), st.dictionaries(
    st.one_of(st.sampled_from(["type", "id", "spec_version", "objects", "extensions", "created", "modified", "definition", "definition_type", "custom_properties",
                               "granular_markings", "name", "labels", "0", "extension_type", "selectors", "hashes",
                               "extension-definition--3f2504e0-4f89-41d3-9a0c-0305e82c3301", "ntfs-ext", "archive-ext", "marking_ref", "objects", "value"]),
           st.text(max_size=4)), ch, max_size=5)), max_leaves=14)

PRE_CLEAN_SLOTS = ["extensions", "type", "spec_version", "id", "objects", "custom_properties", "definition_type", "definition", "granular_markings",
                   "object_marking_refs", "created", "modified"]
ENTRIES = ["parse", "parse-custom", "parse-version", "parse-text", "constructor", "memory-add", "parse-file", "parse-text-version"]
OPTS = {"ts_max_digits": 6, "selectors": "safe", "max_optional": 8, "plain_strings": True}


def run(ctx):
    ctx.level = "fault_enumeration"
    ctx.rule = ("(a) for every type of both versions, generated valid base objects x every property slot at every depth (incl. slots read "
                "before cleaning: extensions, type, spec_version, id, objects, custom_properties, definition(_type), container member "
                "types) x replacement by ~30 JSON junk values of every kind, removal, and added junk keys, 1-5 at a time, through parse "
                "(strict / permissive / version named / text / file-like), constructors and MemoryStore.add; (a2) the same base objects x "
                "well-typed faults from the corruption engine (bounds, vocabularies, reference types, timestamp order, every co-constraint "
                "broken), and every member of a 2.0 observed-data container also as a standalone observable through parse_observable / the "
                "class constructor with _valid_refs; (b) arbitrary JSON "
                "values (st.recursive, STIX-flavoured keys) as the whole input to parse, parse_observable and constructors; (c) "
                "depth-parameterised nesting 10..5000 as document and inside a property. Each call under a 60 s watchdog; registries and "
                "stores compared before/after. Non-trivial = input is a dict whose 'type' names a registered class (passes the first gate) "
                "or an exception bucket; distinct = (type, path shape, junk kind, entry) or junk value.")
    ctx.assumptions = ["documented error family = stix2.exceptions.STIXError, ValueError (incl. JSONDecodeError, UnicodeError), TypeError",
                       "watchdog expiry would be reported as a violation only because 60 s exceeds any legitimate parse by >4 orders of magnitude"]
    types = [(v, t) for v in ("2.0", "2.1") for t in G.top_types(v, include_bundle=True)]
    per_type = max(1, ctx.n(230, 600) // len(types))
    per_doc = 70 if ctx.quick else 600

    def body(args):
        ver, doc, seed_i = args
        m = M.get(ver)
        if doc["type"] == "bundle":
            slots = [(("objects",), None), (("id",), None), (("type",), None), (("objects", 0), None), (("objects", 0, "type"), None), (("spec_version",), None)]
            # raw members are read before anything is cleaned (spec-version detection, dispatch): every such field of the first and
            # of the last member
            n_members = len(doc.get("objects") or [])
            for i in sorted({0, n_members - 1}) if n_members else []:
                for fld in ("spec_version", "type", "id", "extensions", "objects"):
                    slots.append((("objects", i, fld), None))
            slots = [s for s in slots if s[0][0] in doc or len(s[0]) == 1]
            slots = [s for s in slots if not (len(s[0]) > 1 and "objects" not in doc)]
        else:
            cname = m.class_for_type(doc["type"])
            slots = [(p, d) for p, val, d, owner in C.walk(doc, cname, ver)]
            slots += [((s,), None) for s in PRE_CLEAN_SLOTS if s not in doc]
            # raw members of extensions / container (values inspected before cleaning)
            for key in (doc.get("extensions") or {}):
                slots.append((("extensions", key), None))
                if isinstance(doc["extensions"][key], dict):
                    slots.append((("extensions", key, "extension_type"), None))     # added or replaced: read before cleaning
            for key in (doc.get("objects") or {}) if isinstance(doc.get("objects"), dict) else []:
                slots.append((("objects", key), None))
                slots.append((("objects", key, "type"), None))
        combos = [(p, j) for p, _ in slots for j in range(len(JUNK_VALUES))]
        step = max(1, len(combos) // per_doc)
        k = 0
        for p, j in combos[seed_i % step::step]:
            k += 1
            entry = ENTRIES[(seed_i + k) % len(ENTRIES)]
            if doc["type"] in m.observables and (seed_i + k) % 5 == 0:
                entry = "parse_observable"
            c = {"path": list(p), "op": "set" if not (len(p) == 1 and p[0] not in doc) else "add", "kind": "junk:%d" % j, "value": JUNK_VALUES[j]}
            if len(p) == 3 and p[0] == "extensions" and p[2] == "extension_type":
                c["op"] = "add"
            if len(p) == 3 and p[0] == "objects" and isinstance(p[1], int):
                c["op"] = "add"
            case = {"ver": ver, "doc": doc, "corruptions": [c], "entry": entry}
            fails = check_case(case)
            if fails is None:
                continue
            pshape = ".".join("[i]" if isinstance(x, int) else str(x) for x in p)
            ctx.note(case, True, ["entry:" + entry, "junk:" + type(JUNK_VALUES[j]).__name__, "depth:%d" % min(len(p), 4)],
                     fp=core.fingerprint([ver, doc["type"], pshape, j, entry]))
            ctx.handle(case, fails)

    def well_typed_faults(ver, doc, seed_i, valid_refs=None):
        """The other kind of bad input: values of the right JSON kind that break a rule (bounds, vocabularies, reference types,
        timestamp order, every co-constraint) -- they pass cleaning and reach the constraint checks, which run outside the
        generic wrapping of cleaning failures."""
        m = M.get(ver)
        cname = m.class_for_type(doc["type"]) or m.observables.get(doc["type"])
        if cname is None:
            return
        cs = C.corruptions(doc, ver, cname)
        chosen = [c for c in cs if c["kind"].startswith(("constraint:", "bound:", "vocab:", "tlp:", "fixed:"))]
        rest = [c for c in cs if c not in chosen and not c["kind"].startswith("kind:")]
        step = max(1, len(rest) // (20 if ctx.quick else 200))
        chosen += rest[seed_i % step::step]
        # rule-agnostic perturbations of well-typed values (the frozen model need not know a rule for the library to check one):
        # every timestamp moved to either end of time (breaks any ordering with its siblings), every boolean flipped
        for p, val, d, owner in C.walk(doc, cname, ver):
            if d["kind"] == "timestamp" and isinstance(val, str):
                chosen.append({"path": list(p), "op": "set", "kind": "perturb:timestamp-earliest", "value": "0001-01-01T00:00:00.000Z"})
                chosen.append({"path": list(p), "op": "set", "kind": "perturb:timestamp-latest", "value": "9999-12-31T23:59:59.000Z"})
            elif d["kind"] == "boolean" and isinstance(val, bool):
                chosen.append({"path": list(p), "op": "set", "kind": "perturb:boolean-flipped", "value": not val})
        entries = ["parse_observable", "constructor", "parse-text", "parse-custom"] if valid_refs is not None else ENTRIES
        for k, c in enumerate(chosen):
            entry = entries[(seed_i + k) % len(entries)]
            case = {"ver": ver, "doc": doc, "corruptions": [c], "entry": entry}
            if valid_refs is not None:
                case["valid_refs"] = valid_refs
            fails = check_case(case)
            if fails is None:
                continue
            pshape = ".".join("[i]" if isinstance(x, int) else str(x) for x in c["path"])
            ctx.note(case, True, ["entry:" + entry, "well-typed-fault:" + c["kind"].split(":")[0], "standalone-2.0-observable" if valid_refs is not None else "in-place"],
                     fp=core.fingerprint([ver, doc["type"], pshape, c["kind"], entry, valid_refs is not None]))
            ctx.handle(case, fails)

    def standalone_members(ver, objects, seed_i, only_first=False):
            refs = {k: o.get("type") for k, o in objects.items() if isinstance(o, dict)}
            for key, member in list(objects.items())[:1 if only_first else None]:
                well_typed_faults(ver, member, seed_i, valid_refs=refs)
                # the junk values on the standalone observable as well (a sample)
                cname = M.get(ver).observables.get(member.get("type"))
                if cname:
                    slots = [p for p, val, d, owner in C.walk(member, cname, ver)]
                    for k, p in enumerate(slots):
                        j = (seed_i + k) % len(JUNK_VALUES)
                        case = {"ver": ver, "doc": member, "valid_refs": refs, "entry": ("parse_observable", "constructor", "parse-text")[k % 3],
                                "corruptions": [{"path": list(p), "op": "set", "kind": "junk:%d" % j, "value": JUNK_VALUES[j]}]}
                        fails = check_case(case)
                        if fails is not None:
                            ctx.note(case, True, ["standalone-2.0-observable", "entry:" + case["entry"]], fp=core.fingerprint([member["type"], p, j, case["entry"]]))
                            ctx.handle(case, fails)

                # the scope itself is input: entries that are not the type names / objects the library expects
                refd = [v for kk, v in member.items() if kk.endswith("_ref") and isinstance(v, str)] + \
                       [x for kk, v in member.items() if kk.endswith("_refs") and isinstance(v, list) for x in v if isinstance(x, str)]
                for k, junk in enumerate(SCOPE_JUNK):
                    scope = {kk: junk for kk in (refd or list(refs))}
                    for entry in (("parse_observable", "constructor", "parse-inline-refs")[(seed_i + k) % 3], "parse-inline-refs"):
                        case = {"ver": ver, "doc": member, "valid_refs": scope, "entry": entry, "corruptions": []}
                        fails = check_case(case)
                        if fails is not None:
                            ctx.note(case, bool(refd), ["standalone-2.0-observable:junk-scope", "entry:" + entry], fp=core.fingerprint([member["type"], "scope", k, entry]))
                            ctx.handle(case, fails)

    def body_faults(args):
        ver, doc, seed_i = args
        if doc["type"] == "bundle":
            return
        well_typed_faults(ver, doc, seed_i)
        if ver == "2.0" and doc["type"] == "observed-data" and isinstance(doc.get("objects"), dict):
            standalone_members(ver, doc["objects"], seed_i)

    def body_member(args):
        objects, seed_i = args
        ctx.cls("standalone-2.0-observable:" + objects["0"]["type"])
        standalone_members("2.0", objects, seed_i, only_first=True)

    for ver_t in types:
        @st.composite
        def strat(draw, ver_t=ver_t):
            ver, t = ver_t
            opts = dict(OPTS)
            shape = draw(st.sampled_from(["maximal", "random"]))
            if shape != "random":
                opts[shape] = True
            doc = draw(G.bundle(ver, opts, min_members=1, max_members=2)) if t == "bundle" else draw(G.valid_object(ver, type_=t, opts=opts))
            return ver, doc, draw(st.integers(0, 10 ** 4))
        core.run_given(ctx, strat(), body, per_type, label="c17-%s-%s" % ver_t, rounds=3)
        core.run_given(ctx, strat(), body_faults, max(1, per_type // 2) + (3 if ver_t == ("2.0", "observed-data") else 0), label="c17-faults-%s-%s" % ver_t, rounds=3)

    # harness-registered custom marking / extension classes: every member x (timestamps at both ends of time, junk), every entry (finite)
    ctx.collect_only = True
    for ver, base in CUSTOM_BASES:
        holder = ("definition",) if "definition" in base else ("extensions", list(base["extensions"])[0])
        inner = base
        for comp in holder:
            inner = inner[comp]
        for key in list(inner) + ["created", "modified"]:
            for j, val in enumerate(CUSTOM_VALUES):
                for entry in ("parse", "parse-custom", "parse-text", "constructor", "memory-add"):
                    case = {"ver": ver, "doc": base, "entry": entry, "corruptions": [{"path": list(holder) + [key], "op": "set", "kind": "custom-class-member:%d" % j, "value": val}]}
                    fails = check_case(case)
                    if fails is not None:
                        ctx.note(case, True, ["custom-class-member", "entry:" + entry], fp=core.fingerprint([ver, base["type"], holder, key, j, entry]))
                        ctx.handle(case, fails)
    ctx.collect_only = False

    # refused content of an unregistered type, the type registered afterwards, the content again (finite)
    ctx.collect_only = True
    for kind in ("object", "observable"):
        for ver in ("2.0", "2.1"):
            for early in (["parse"], ["parse-version"], ["parse-text"], ["parse-custom"], ["bundle"], ["memory-add"], ["parse", "parse-version", "parse-text", "parse-custom", "bundle", "memory-add"]):
                case = {"late": kind, "ver": ver, "early": early}
                ctx.note(case, True, ["late-registration:%s/%s" % (kind, ver)], fp=core.fingerprint([kind, ver, early]))
                ctx.handle(case, check_late_registration(case))
    ctx.collect_only = False

    # every STIX 2.0 observable type as a standalone object (with partners for its references), maximal and random shapes
    partners = ["file", "directory", "ipv4-addr", "artifact", "user-account", "email-addr", "process", "network-traffic", "mac-addr", "autonomous-system"]
    for t in M.get("2.0").sco_types:
        for shape in (("maximal", "random") if not ctx.quick else ("maximal",)):
            opts = dict(OPTS, member_types=[t] + [x for x in partners if x != t])
            if shape == "maximal":
                opts["maximal"] = True
            core.run_given(ctx, st.tuples(G.sco_container("2.0", opts), st.integers(0, 10 ** 4)), body_member, 1 if ctx.quick else 6, label="c17-member-%s-%s" % (t, shape), rounds=2)

    # documents of an UNREGISTERED type: dict_to_stix2 inspects their raw `extensions` (new-SDO style extension definitions)
    # before any cleaning.  Finite: slots x junk values x entries enumerated completely.
    ctx.collect_only = True
    ext_key = "extension-definition--3f2504e0-4f89-41d3-9a0c-0305e82c3301"
    for ver in ("2.0", "2.1"):
        for ext_type in ("new-sdo", "property-extension", "toplevel-property-extension"):
            udoc = {"type": "x-never-registered", "id": "x-never-registered--3f2504e0-4f89-41d3-9a0c-0305e82c3301", "created": "2020-01-01T00:00:00.000Z",
                    "modified": "2020-01-01T00:00:00.000Z", "name": "n", "extensions": {ext_key: {"extension_type": ext_type, "rank": 1}}}
            if ver == "2.1":
                udoc["spec_version"] = "2.1"
            for p in (("extensions",), ("extensions", ext_key), ("extensions", ext_key, "extension_type"), ("extensions", ext_key, "rank"), ("type",), ("id",), ("spec_version",)):
                for j, junk in enumerate(JUNK_VALUES):
                    for entry in ("parse", "parse-custom", "parse-version", "parse-text", "memory-add"):
                        c = {"path": list(p), "op": "set" if p[0] in udoc else "add", "kind": "junk:%d" % j, "value": junk}
                        case = {"ver": ver, "doc": udoc, "corruptions": [c], "entry": entry}
                        fails = check_case(case)
                        if fails is None:
                            continue
                        ctx.note(case, True, ["unregistered-type", "entry:" + entry], fp=core.fingerprint([ver, ext_type, p, j, entry]))
                        ctx.handle(case, fails)
    ctx.collect_only = False

    # multi-point junk
    def body_multi(args):
        (ver, doc), picks, entry = args
        m = M.get(ver)
        cname = m.class_for_type(doc["type"])
        slots = [p for p, val, d, owner in C.walk(doc, cname, ver)] + [(s,) for s in PRE_CLEAN_SLOTS]
        cs = []
        for a, b in picks:
            p = slots[a % len(slots)]
            if all(p[:1] != tuple(o["path"][:1]) for o in cs):
                cs.append({"path": list(p), "op": "add" if (len(p) == 1 and p[0] not in doc) else "set", "kind": "junk", "value": JUNK_VALUES[b % len(JUNK_VALUES)]})
        case = {"ver": ver, "doc": doc, "corruptions": cs, "entry": entry}
        fails = check_case(case)
        if fails is None:
            return
        ctx.note(case, True, ["multi:%d" % len(cs), "entry:" + entry])
        ctx.handle(case, fails)

    @st.composite
    def any_doc(draw):
        ver = draw(st.sampled_from(["2.0", "2.1"]))
        return ver, draw(G.valid_object(ver, opts=dict(OPTS, maximal=True)))
    core.run_given(ctx, st.tuples(any_doc(), st.lists(st.tuples(st.integers(0, 10 ** 6), st.integers(0, 10 ** 6)), min_size=2, max_size=5),
                                  st.sampled_from(ENTRIES)), body_multi, ctx.n(600, 5000), label="c17-multi")

    # arbitrary JSON as the whole input
    def body_junk(args):
        junk, entry, ver = args
        case = {"junk": junk, "entry": entry, "ver": ver}
        fails = check_case(case)
        gate = isinstance(junk, dict) and isinstance(junk.get("type"), str) and junk.get("type") in M.get("2.1").all_known_types()
        ctx.note(case, gate, ["arbitrary", "entry:" + entry, "first-gate:%s" % gate])
        ctx.handle(case, fails)

    # documents that are no objects but answer "'type' in value" with yes (text mentioning it, arrays holding it): every gate that asks
    # for the type before asking whether there is an object (finite)
    ctx.collect_only = True
    for junk in ("type", "xtypex", "spec_version type", ["type"], ["type", "indicator"], ["type", "spec_version"], [["type"]], "id type objects",
                 ["type", "id", "objects", "spec_version"], {"type": ["identity"]}, {"type": {"type": "identity"}}):
        for entry in ENTRIES + ["parse_observable"]:
            for ver in ("2.0", "2.1"):
                body_junk((junk, entry, ver))
    ctx.collect_only = False

    typed_junk = st.builds(lambda t, j: dict(j, type=t) if isinstance(j, dict) else {"type": t, "x": j},
                           st.sampled_from(M.get("2.1").all_known_types() + ["x-never-registered"]), junk_json)
    core.run_given(ctx, st.tuples(st.one_of(junk_json, typed_junk, typed_junk), st.sampled_from(ENTRIES + ["parse_observable"]), st.sampled_from(["2.0", "2.1"])),
                   body_junk, ctx.n(5000, 25000), label="c17-arbitrary")

    if not ctx.quick and ctx.worker in (None, 0):
        coverage_guided(ctx, int(120000 * float(__import__("os").environ.get("VERIF_SCALE", "1"))))

    # depth-parameterised nesting (finite catalogue)
    ctx.collect_only = True
    base = {"type": "identity", "spec_version": "2.1", "id": "identity--3f2504e0-4f89-41d3-9a0c-0305e82c3301", "created": "2020-01-01T00:00:00.000Z",
            "modified": "2020-01-01T00:00:00.000Z", "name": "n"}
    hosts = {
        "identity": base,
        # id-less 2.1 observables whose id is derived from `extensions`: content that slips past cleaning reaches id generation
        "file-no-id": {"type": "file", "spec_version": "2.1", "name": "f"},
        "network-traffic-no-id": {"type": "network-traffic", "spec_version": "2.1", "protocols": ["tcp"], "src_ref": "ipv4-addr--3f2504e0-4f89-41d3-9a0c-0305e82c3301"},
        "file-with-id": {"type": "file", "spec_version": "2.1", "id": "file--3f2504e0-4f89-41d3-9a0c-0305e82c3301", "name": "f"},
        # `definition` is decoded (a dictionary, or JSON text of one) by MarkingDefinition.__init__ itself, before any property is cleaned
        "marking": {"type": "marking-definition", "spec_version": "2.1", "id": "marking-definition--3f2504e0-4f89-41d3-9a0c-0305e82c3301", "created": "2020-01-01T00:00:00.000Z",
                    "definition_type": "statement"},
    }
    for depth in (10, 100, 1000, 1500, 5000, 20000):
        for kind in ("list", "dict"):
            for host, where in (("identity", "document"), ("identity", "labels"), ("identity", "extensions"), ("identity", "x_custom"), ("identity", "ext-content"), ("identity", "toplevel-ext-prop"),
                                ("file-no-id", "ext-content"), ("network-traffic-no-id", "ext-content"), ("file-with-id", "ext-content"), ("file-no-id", "hashes"),
                                ("network-traffic-no-id", "ipfix"), ("identity", "bundle-in-bundle"), ("identity", "selector-walk"), ("identity", "parse_observable"),
                                ("marking", "definition"), ("marking", "definition-text")):
                for as_text in (False, True):
                    for allow in (False, True):
                        if depth == 20000 and as_text:
                            continue
                        case = {"nest": {"depth": depth, "kind": kind, "where": where, "text": as_text, "allow_custom": allow}, "doc": hosts[host], "entry": "parse"}
                        fails = check_case(case)
                        ctx.note(case, True, ["nesting:%d" % depth, "nest-input:" + ("text" if as_text else "dict"), "nest-site:%s/%s" % (host, where)])
                        ctx.handle(case, fails or [])
                        if not as_text and where not in ("document", "bundle-in-bundle", "parse_observable"):
                            case = {"nest": {"depth": depth, "kind": kind, "where": where, "text": False, "allow_custom": allow, "via": "constructor"}, "doc": hosts[host], "entry": "constructor"}
                            fails = check_case(case)
                            ctx.note(case, True, ["nesting:%d" % depth, "nest-input:constructor", "nest-site:%s/%s" % (host, where)])
                            ctx.handle(case, fails or [])
    # a refused addition leaves the store as it was (finite catalogue: store kind x holder x corrupted property x junk kind x earlier version)
    for case in atomic_cases() if ctx.worker in (None, 0) else []:
        fails = check_case(case)
        if fails is None:
            ctx.exclude("store-precondition-not-met")
            continue
        a = case["atomic"]
        ctx.note(case, a["prop"] is not None or a["form"] == "object", ["store-add:" + a["store"], "store-add-holder:" + a["base"], "store-add-earlier-version:%s" % a["pre"]])
        ctx.handle(case, fails)

    # the same sites on a fine grid of depths around the interpreter's recursion limit, each depth in interpreters of their own: near the
    # limit a failure may be one the process does not survive (a stack overflow while a RecursionError is being handled, or while a
    # deep chain of suspended generators is abandoned), which no in-process observation can report
    import os
    limit = __import__("sys").getrecursionlimit()
    grid = sorted(set(range(limit - 500, limit + 151, 50 if ctx.quick else 10)) | {limit - 1, limit, limit + 1, limit + 49, limit + 51})
    if ctx.worker is not None:
        grid = grid[ctx.worker::int(os.environ.get("VERIF_WORKERS", "14"))]
    sites = [("identity", "selector-deep"), ("identity", "selector-walk"), ("identity", "x_custom"), ("identity", "ext-content"), ("identity", "toplevel-ext-prop"), ("file-no-id", "ext-content"),
             ("file-no-id", "hashes"), ("identity", "bundle-in-bundle"), ("marking", "definition")]
    batches = []
    for depth in grid:
        batch = []
        for kind in ("list", "dict"):
            for host, where in sites if not ctx.quick else sites[:5]:
                for as_text, via in ((False, None), (True, None), (False, "constructor")):
                    if via and where in ("bundle-in-bundle",):
                        continue
                    nest = {"depth": depth, "kind": kind, "where": where, "text": as_text, "allow_custom": True}
                    if via:
                        nest["via"] = via
                    batch.append({"nest": nest, "doc": hosts[host], "entry": "constructor" if via else "parse", "isolate": True})
        batches.append(batch)
    from concurrent.futures import ThreadPoolExecutor
    with ThreadPoolExecutor(max_workers=8 if ctx.worker is None else 2) as pool:
        results = list(pool.map(lambda b: core.isolated_batch("C17", b), batches))
    for batch, res in zip(batches, results):
        for case, fails in zip(batch, res):
            n = case["nest"]
            ctx.note(case, True, ["isolated-nesting:%d" % (n["depth"] // 100 * 100), "isolated-site:%s" % n["where"], "isolated-input:" + (n.get("via") or ("text" if n["text"] else "dict"))])
            ctx.handle(case, fails or [])
    ctx.collect_only = False


def coverage_guided(ctx, runs):
    """Supplementary engine (thorough tier, worker 0 only): atheris/libFuzzer drives the arbitrary-JSON strategies with
    coverage feedback from the instrumented stix2 package (harness/fuzz_c17.py).  Best effort: if atheris is missing or
    the subprocess fails, that is recorded as a note, never as a violation or a harness error."""
    import os
    import shutil
    import subprocess
    import sys
    import tempfile
    here = os.path.dirname(os.path.dirname(os.path.abspath(__file__)))
    tmp = tempfile.mkdtemp(prefix="c17-fuzz-")
    out = os.path.join(tmp, "out.json")
    try:
        try:
            subprocess.run([sys.executable, os.path.join(here, "harness", "fuzz_c17.py"), out, str(runs), str(ctx.seed), os.path.join(tmp, "corpus")],
                           stdout=subprocess.DEVNULL, stderr=subprocess.DEVNULL, timeout=900)
        except subprocess.TimeoutExpired:
            ctx.notes["atheris"] = "time budget hit (inconclusive)"
        if not os.path.exists(out):
            ctx.notes.setdefault("atheris", "no result file (atheris unavailable or crashed): tier skipped")
            return
        with open(out) as f:
            res = json.load(f)
        ctx.notes["atheris_executions"] = res.get("executions", 0)
        if res.get("note"):
            ctx.notes["atheris"] = res["note"]
        corpus = os.path.join(tmp, "corpus")
        ctx.notes["atheris_corpus_files"] = len(os.listdir(corpus)) if os.path.isdir(corpus) else 0
        for f_ in res.get("failures", []):
            # confirm outside the fuzzer before reporting
            again = check_case(f_["case"]) or []
            for key, detail in again:
                if key == f_["key"]:
                    ctx.record_violation(key, detail, f_["case"])
    finally:
        shutil.rmtree(tmp, ignore_errors=True)


def replay(case):
    import os
    if case.get("isolate") and not os.environ.get("VERIF_ISOLATED_CHILD"):
        return core.isolated_batch("C17", [case])[0]
    return check_case(case) or []
