"""C09 -- pattern equivalence is total, an equivalence relation, sound, recognises its documented rewrites, and
find_equivalent_patterns agrees with pairwise equivalence.

Patterns come from the bounded vocabulary of gen/patequiv.py so that oracle/patsem.py can decide their meaning on
its universe of observation sequences.  Pairs are (p, documented-rewrite(p)), (p, semantic-mutation(p)) or random.

  (1) totality      no exception, boolean result
  (2) laws          eq(p,p); eq(p,q) == eq(q,p); eq(p,q) and eq(q,r) => eq(p,r)
  (3) recognition   eq(p, rewrite(p)) for the documented laws
  (4) search        list(find_equivalent_patterns(p, L)) == [q for q in L if eq(p,q)]
  (5) soundness     eq(p,q) => no observation sequence of the universe is matched by exactly one of them

"Unsound" is reported only with a concrete separating sequence.  A separation is attributed to a known root cause only
when re-evaluating both patterns *with that defect simulated in my own AST* makes them agree again.
"""
from hypothesis import strategies as st

from gen import patequiv as G
from gen import patterns as P
from harness import core
from oracle import patsem

CRASH_SIGNATURES = [
    ("not-order", "crash:NOT-before-ordering-operator", "TypeError", "NoneType"),
    ("exists", "crash:EXISTS-not-modelled", "TypeError", "Not a comparison expression"),
    ("exists", "crash:EXISTS-not-modelled", "AttributeError", "object has no attribute 'root_types'"),
    ("and-mixed-types", "crash:comparison-AND-across-object-types", "ValueError", "All operands to an 'AND' expression"),
    ("special-nonstring", "crash:special-path-non-string-constant", "AttributeError", "object has no attribute 'lower'"),
    ("special-nonstring", "crash:special-path-non-string-constant", "AttributeError", "object has no attribute 'find'"),
    ("special-nonstring", "crash:special-path-non-string-constant", "ValueError", "non-hexadecimal number found in fromhex()"),   # h'61' read as address 0.0.0.61
]
SPECIAL_TYPE = {"regkey": "windows-registry-key", "ipv4": "ipv4-addr", "ipv6": "ipv6-addr"}
CANON_OK_OPS = ("=", "!=", "IN")        # operators for which the library documents the special comparison


def features(ast):
    f = P.features(ast)
    for n in P.walk(ast):
        if n["k"] == "cmp":
            sp = patsem.special_of(n["path"])
            if sp:
                f.add("special:" + sp)
                if n["rhs"]["c"] != "str":
                    f.add("special-nonstring")
                elif n["op"] not in CANON_OK_OPS:
                    f.add("special-other-op:" + sp)
    return f


def strip_feature(ast, feat):
    if feat == "special-nonstring":
        def node(n):
            if n["k"] == "cmp" and patsem.special_of(n["path"]) and n["rhs"]["c"] != "str":
                n["rhs"] = {"c": "str", "v": "x"}
                if n["op"] == "IN":
                    n["op"] = "="
            return n
        return P.map_nodes(ast, node)
    return P.strip_feature(ast, feat)


# ---- simulation of known defects in my own AST (used only to *explain* a separation) --------------------

def _sim_drop_not(op):
    def f(ast):
        def node(n):
            if n["k"] == "cmp" and n["neg"] and n["op"] == op:
                n["neg"] = False
            return n
        return P.map_nodes(ast, node)
    return f


def _sim_not_neq(ast):
    def node(n):
        if n["k"] == "cmp" and n["neg"] and n["op"] == "!=":
            n["neg"] = False
        return n
    return P.map_nodes(ast, node)


def _sim_special(sp):
    def f(ast):
        def node(n):
            if n["k"] == "cmp" and patsem.special_of(n["path"]) == sp and n["rhs"]["c"] == "str" and n["op"] not in CANON_OK_OPS:
                v = n["rhs"]["v"]
                if sp == "regkey":
                    v = v.lower()
                else:
                    net = (patsem.parse_ipv4 if sp == "ipv4" else patsem.parse_ipv6)(v)
                    if net is not None:
                        v = "net:%d:%x/%d" % net
                n["rhs"] = {"c": "str", "v": v}
            return n
        return P.map_nodes(ast, node)
    return f


EXPLANATIONS = [("not-setlike:%s" % op, "unsound:negation-lost:NOT-%s" % op, _sim_drop_not(op)) for op in ("IN",) + P.STRING_OPS] + [
    ("not-neq", "unsound:NOT-neq-treated-as-neq", _sim_not_neq)] + [
    ("special-other-op:%s" % sp, "unsound:special-canonicalisation-on-non-equality-operator:%s" % SPECIAL_TYPE[sp], _sim_special(sp))
    for sp in ("regkey", "ipv4", "ipv6")]


def explain(p, q, feats):
    """-> list of known-root-cause keys that make p and q agree again, or None."""
    cands = [(key, sim) for feat, key, sim in EXPLANATIONS if feat in feats]
    for key, sim in cands:
        if patsem.separate(sim(p), sim(q)) is None:
            return [key]
    p2, q2, used = p, q, []
    for key, sim in cands:
        p3, q3 = sim(p2), sim(q2)
        if p3 != p2 or q3 != q2:
            used.append(key)
            p2, q2 = p3, q3
            if patsem.separate(p2, q2) is None:
                return used
    return None


# ---- library calls ------------------------------------------------------------------------------------
CALL_LIMIT_S = 20       # a comparison takes ~2 ms; 20 s and then 40 s without an answer is reported as "does not terminate"


def lib_eq(a, b):
    from stix2.equivalence.pattern import equivalent_patterns
    return core.guarded_timed(CALL_LIMIT_S, equivalent_patterns, a, b, stix_version="2.1")


def lib_find(a, items):
    from stix2.equivalence.pattern import find_equivalent_patterns
    return core.guarded_timed(CALL_LIMIT_S, lambda: list(find_equivalent_patterns(a, items, stix_version="2.1")))


class _Crash(Exception):
    def __init__(self, exc, call):
        Exception.__init__(self)
        self.exc = exc
        self.call = call


def _eq(a, b):
    v, exc = lib_eq(a, b)
    if exc is not None:
        raise _Crash(exc, "equivalent_patterns(%s, %s)" % (core.short(a, 200), core.short(b, 200)))
    return v


def _asts(case):
    if case["kind"] == "pair":
        return [case["p"], case["q"]]
    if case["kind"] == "triple":
        return [case["p"], case["q"], case["r"]]
    return [case["p"]] + list(case["L"])


def _with_asts(case, asts):
    c = dict(case)
    if case["kind"] == "pair":
        c["p"], c["q"] = asts
    elif case["kind"] == "triple":
        c["p"], c["q"], c["r"] = asts
    else:
        c["p"], c["L"] = asts[0], asts[1:]
    return c


def _sound(p, q, tp, tq, rel, fails):
    """eq(p,q) was True: look for a separating observation sequence."""
    try:
        sep = patsem.separate(p, q)
    except patsem.Unsupported:
        return "unsupported"
    if sep is None:
        return "agree"
    if rel.startswith("rewrite:"):
        raise core.HarnessError("a documented law does not hold in oracle/patsem.py (%s): %s vs %s separated by %s" % (rel, tp, tq, core.canon(sep)))
    feats = features(p) | features(q)
    keys = explain(p, q, feats)
    detail = "equivalent_patterns(%s, %s) is True but %s is matched by %s only" % (
        core.short(tp, 250), core.short(tq, 250), core.canon(sep["sequence"]), "the first" if sep["first_matches"] else "the second")
    if keys is None:
        fails.append(("unsound:unexplained", detail))
    else:
        for k in keys:
            fails.append((k, detail))
    return "separated"


def _bool(v, what, fails):
    if not isinstance(v, bool):
        fails.append(("non-boolean-result", "%s returned %r" % (what, v)))
        return False
    return True


def _check(case, fails, stats):
    kind = case["kind"]
    asts = _asts(case)
    texts = [P.to_text(a, (case.get("sp") if i == 0 else case.get("sq")) if kind == "pair" else None) for i, a in enumerate(asts)]
    if kind == "pair":
        p, q = asts
        tp, tq = texts
        rel = case["rel"]
        pq = _eq(tp, tq)
        qp = _eq(tq, tp)
        pp = _eq(tp, tp)
        if not (_bool(pq, "equivalent_patterns", fails) and _bool(qp, "equivalent_patterns", fails) and _bool(pp, "equivalent_patterns", fails)):
            return
        if not pp:
            fails.append(("not-reflexive", "equivalent_patterns(p, p) is False for %s" % core.short(tp, 300)))
        if pq != qp:
            fails.append(("not-symmetric", "eq(p,q)=%s eq(q,p)=%s for %s | %s" % (pq, qp, core.short(tp, 250), core.short(tq, 250))))
        if rel.startswith("rewrite:"):
            if not pq:
                laws = rel.split(":", 1)[1].split("+")
                tagged = [x for x in laws if "~" in x]
                name = tagged[0] if tagged else laws[0] if len(laws) == 1 else "composed"
                if any(n["k"] == "and" and not P.types_of(n) for a in (p, q) for n in P.walk(a)):
                    # a comparison AND over disjoint object types got past the constructor's check (only the first two operands of a
                    # chain are checked) and is kept by the normaliser, while the same AND produced by its own DNF step is dropped
                    name = "impossible-AND-across-types-kept"
                fails.append(("rewrite-not-recognised:%s" % name, "%s: %s | %s" % (rel, core.short(tp, 300), core.short(tq, 300))))
            # the law must hold in my evaluator whatever the library says
            try:
                sep = patsem.separate(p, q)
            except patsem.Unsupported:
                sep = None
            if sep is not None:
                raise core.HarnessError("a documented law does not hold in oracle/patsem.py (%s): %s vs %s separated by %s" % (rel, tp, tq, core.canon(sep)))
            stats["sound"] = "agree"
        elif pq or qp:
            stats["sound"] = _sound(p, q, tp, tq, rel, fails)
        stats["eq"] = pq
        return
    if kind == "triple":
        p, q, r = asts
        tp, tq, tr = texts
        pq, qr, pr = _eq(tp, tq), _eq(tq, tr), _eq(tp, tr)
        rp = _eq(tr, tp)
        if pr != rp:
            fails.append(("not-symmetric", "eq(p,r)=%s eq(r,p)=%s for %s | %s" % (pr, rp, core.short(tp, 250), core.short(tr, 250))))
        if pq and qr and not pr:
            fails.append(("not-transitive", "eq(p,q) and eq(q,r) but not eq(p,r): %s | %s | %s" % (core.short(tp, 200), core.short(tq, 200), core.short(tr, 200))))
        for (a, b, ta, tb, e, rel) in ((p, q, tp, tq, pq, case["rel"][0]), (q, r, tq, tr, qr, "derived"), (p, r, tp, tr, pr, "derived")):
            if e:
                stats["sound"] = _sound(a, b, ta, tb, rel if rel.startswith("rewrite:") and a is p else "derived", fails)
        stats["eq"] = pq and qr
        return
    # search
    tp, items = texts[0], texts[1:]
    found, exc = lib_find(tp, items)
    if exc is not None:
        raise _Crash(exc, "find_equivalent_patterns(%s, %d patterns)" % (core.short(tp, 200), len(items)))
    expect = [t for t in items if _eq(tp, t)]
    if found != expect:
        fails.append(("search-differs", "find_equivalent_patterns(%s, %s) = %s, pairwise = %s" % (core.short(tp, 200), core.short(items, 400),
                                                                                                    core.short(found, 300), core.short(expect, 300))))
    for a, t in zip(asts[1:], items):
        if t in expect:
            stats["sound"] = _sound(asts[0], a, tp, t, "derived", fails)
    stats["eq"] = bool(expect)


def check_case(case, level=0):
    """-> (fails, stats) ; stats: eq / sound labels for the class table."""
    fails, stats = [], {}
    try:
        _check(case, fails, stats)
    except _Crash as c:
        exc = c.exc
        name, msg = type(exc).__name__, str(exc)
        asts = _asts(case)
        feats = set()
        for a in asts:
            feats |= features(a)
        for feat, key, ename, frag in CRASH_SIGNATURES:
            if feat in feats and name == ename and frag in msg:
                fails.append((key, "%s raised %s" % (c.call, core.fmt_exc(exc))))
                if level < 8:
                    sub, st2 = check_case(_with_asts(case, [strip_feature(a, feat) for a in asts]), level + 1)
                    fails.extend(sub)
                    stats.update(st2)
                stats["crash"] = True
                return fails, stats
        if isinstance(exc, core.NoAnswer):
            fails.append(("does-not-terminate", "%s: %s" % (c.call, exc)))
        else:
            fails.append(("crash:%s@%s" % (name, core.lib_frame(exc)), "%s raised %s" % (c.call, core.fmt_exc(exc))))
        stats["crash"] = True
    return fails, stats


def valid_inputs(case):
    from stix2patterns.validator import run_validator
    kind = case["kind"]
    for i, a in enumerate(_asts(case)):
        t = P.to_text(a, (case.get("sp") if i == 0 else case.get("sq")) if kind == "pair" else None)
        try:
            if run_validator(t, stix_version="2.1"):
                return False
        except Exception:  # noqa
            # the third-party inspector itself failed (it does, with AttributeError, on the negative list indices its own grammar
            # admits): no verdict -- the third-party grammar alone decides
            try:
                from stix2patterns.v21.pattern import Pattern
                Pattern(t)
            except Exception:  # noqa
                return False
    return True


def nontrivial(case):
    asts = _asts(case)[:2]
    ok = all(G.n_obs(a) >= 2 or G.n_cmp(a) >= 3 for a in asts)
    f = set()
    for a in asts:
        f |= features(a)
    return ok and bool({"NOT", "qual:repeats", "qual:within", "qual:startstop", "special:regkey", "special:ipv4", "special:ipv6"} & f)


def classes_of(case, stats):
    cl = ["kind:" + case["kind"]]
    rels = case["rel"] if isinstance(case["rel"], list) else [case["rel"]]
    for r in rels:
        head = r.split(":")[0]
        cl.append("rel:" + head)
        if head in ("rewrite", "mutation"):
            for name in r.split(":", 1)[1].split("+"):
                name = name.split("~")[0] if head == "rewrite" else name
                cl.append("%s:%s" % ("law" if (head == "rewrite" or name in G.LAWS) else "mut", name))
    f = set()
    for a in _asts(case)[:2]:
        f |= features(a)
    cl.extend(sorted(x for x in f if x.split(":")[0] in ("NOT", "op", "const", "qual", "obs", "bool", "special", "exists", "step", "special-nonstring",
                                                         "not-order", "and-mixed-types") and not x.startswith("step:nested")))
    if stats.get("eq"):
        cl.append("result:equivalent")
    if "sound" in stats:
        cl.append("soundness:" + stats["sound"])
    if stats.get("crash"):
        cl.append("result:raised")
    if case.get("sp") or case.get("sq"):
        cl.append("layout:randomised")
    return cl


REQUIRED_CLASSES = ["NOT", "qual:repeats", "qual:within", "qual:startstop", "obs:AND", "obs:OR", "obs:FOLLOWEDBY", "bool:and", "bool:or", "special:regkey",
                    "special:ipv4", "special:ipv6", "rel:rewrite", "rel:mutation", "rel:random", "result:equivalent", "soundness:agree", "step:quoted",
                    "step:index", "step:star"] + ["op:" + o for o in P.OPS] + ["const:" + c for c in ("int", "float", "str", "bool", "ts", "hex", "bin", "set")] \
    + ["law:" + n for n in G.LAWS]


def run(ctx):
    ctx.rule = ("Patterns over the bounded vocabulary of gen/patequiv.py (types a, b, ipv4-addr, ipv6-addr, windows-registry-key; 18 paths incl. "
                "indexed, [*], quoted dictionary keys; every operator with/without NOT; int/float/string/bool/timestamp/hex/binary/set constants from "
                "pools of 3-10 incl. respellings, CIDR spellings, case variants and non-strings on the special paths; AND/OR depth<=3; "
                "AND/OR/FOLLOWEDBY depth<=3; REPEATS 1-3, WITHIN {1,2,5,10}s, START/STOP from three instants, stacked).  Pairs: 50% documented "
                "rewrites (commute, associate, idempotent, absorb, distribute, set-permute, num-respell; 1-3 composed; plus random layout/redundant "
                "parentheses), 30% semantic mutations, 20% independent; triples and 2-8 element collections built the same way.  Soundness on the "
                "universe of oracle/patsem.py (21 pool objects x 3 instants, all multisets of <= 3 observations, indistinguishable objects merged).  "
                "Non-trivial = both patterns have >= 2 observation or >= 3 comparison nodes and a NOT, qualifier or special path; distinct = "
                "distinct case.")
    ctx.assumptions = ["oracle/patsem.py implements the reading of the patterning semantics stated in its docstring (self-tested; every documented law "
                       "is cross-checked to hold in it on each generated rewrite pair)",
                       "soundness is relative to the bounded universe (<= 3 observations, pool constants)",
                       "inputs are approved by the third-party stix2-patterns validator (where its inspector itself fails -- negative list indices -- by its grammar alone)"]
    seen = {"n": 0, "rejected": 0}

    def body(case):
        seen["n"] += 1
        if not valid_inputs(case):
            seen["rejected"] += 1
            ctx.exclude("generator-output-rejected-by-validator")
            return
        fails, stats = check_case(case)
        ctx.note(case, nontrivial(case), classes_of(case, stats))
        ctx.handle(case, fails)

    core.run_given(ctx, G.pair_case(), body, ctx.n(2200, 14000), label="c09-pairs")
    core.run_given(ctx, G.triple_case(), body, ctx.n(350, 2200), label="c09-triples")
    core.run_given(ctx, G.search_case(), body, ctx.n(200, 1100), label="c09-search")
    ctx.notes["generator_rejected_by_validator"] = seen["rejected"]
    if seen["rejected"] > 0.01 * max(seen["n"], 1):
        raise core.HarnessError("pattern generator unhealthy: %d of %d cases rejected by the third-party validator" % (seen["rejected"], seen["n"]))
    total = max(ctx.evaluations, 1)
    if total >= 1000:
        core.health(ctx, REQUIRED_CLASSES, total=total)


def replay(case):
    if "texts" in case:      # hand-written witness: {"kind": "pair", "texts": [p, q]} -- trees come from my parser
        asts = [P.parse(t) for t in case["texts"]]
        case = _with_asts({"kind": case["kind"], "rel": case.get("rel", "random" if case["kind"] == "pair" else ["random", "random"])}, asts)
    return check_case(case)[0]


def selftest():
    try:
        P.selftest()
        patsem.selftest()
    except AssertionError as e:
        raise core.HarnessError("self-test: %r" % (e,))
