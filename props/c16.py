"""C16 -- canonical JSON conforms to RFC 8785.

Generated JSON values (floats from raw bit patterns, UTF-16-vs-code-point key
sets, control/astral strings) are canonicalized by the library and by the
independent implementation in oracle/rfc8785.py.
"""
import json
import struct

from hypothesis import strategies as st

from gen import values as V
from harness import core
from oracle import rfc8785

# ---- tagged JSON-safe encoding of a case ---------------------------------
# float -> {"$f": hex}, big int -> {"$i": "..."}, dict -> {"$d": [[k, v], ...]} (insertion order kept)


def enc(v):
    if isinstance(v, bool) or v is None or isinstance(v, str):
        return v
    if isinstance(v, float):
        return {"$f": V.float_hex(v)}
    if isinstance(v, int):
        return {"$i": str(v)}
    if isinstance(v, list):
        return [enc(x) for x in v]
    if isinstance(v, dict):
        return {"$d": [[k, enc(x)] for k, x in v.items()]}
    raise TypeError(type(v))


def dec(c):
    if isinstance(c, list):
        return [dec(x) for x in c]
    if isinstance(c, dict):
        if "$f" in c:
            return V.hex_float(c["$f"])
        if "$i" in c:
            return int(c["$i"])
        return {k: dec(x) for k, x in c["$d"]}
    return c


def reorder(v, mode):
    """Same value, different member insertion order."""
    if isinstance(v, list):
        return [reorder(x, mode) for x in v]
    if isinstance(v, dict):
        items = [(k, reorder(x, mode)) for k, x in v.items()]
        if mode == "reverse":
            items.reverse()
        elif mode == "codepoint":
            items.sort(key=lambda kv: kv[0])
        elif mode == "rotate" and items:
            items = items[1:] + items[:1]
        return dict(items)
    return v


def as_doubles(v):
    if isinstance(v, bool) or v is None or isinstance(v, str):
        return v
    if isinstance(v, (int, float)):
        return float(v)
    if isinstance(v, list):
        return [as_doubles(x) for x in v]
    return {k: as_doubles(x) for k, x in v.items()}


def features(v, acc=None):
    acc = acc if acc is not None else set()
    if isinstance(v, bool) or v is None:
        acc.add("literal")
    elif isinstance(v, float):
        acc.add(V.float_class(v))
    elif isinstance(v, int):
        acc.add("int:big" if abs(v) > 2 ** 53 else "int:small")
    elif isinstance(v, str):
        acc.update(V.text_class(v))
    elif isinstance(v, list):
        acc.add("list")
        for x in v:
            features(x, acc)
    elif isinstance(v, dict):
        acc.add("dict")
        ks = list(v)
        if len(ks) > 1 and sorted(ks) != sorted(ks, key=rfc8785.utf16_units):
            acc.add("keys:utf16-order-differs")
        for k, x in v.items():
            acc.update("key-" + c for c in V.text_class(k))
            features(x, acc)
    return acc


NONTRIVIAL = {"num:subnormal", "num:exp-large", "num:exp-small", "num:fraction", "keys:utf16-order-differs", "str:control",
              "str:quote-backslash", "key-str:control", "key-str:quote-backslash", "int:big", "key-str:astral"}


PRE_USES = ["serialize", "encoder-ascii-spaced", "encoder-indent", "encoder-unsorted-ascii"]


def other_use(v, how):
    """The canonicalization module's other public entry points, used with non-canonical settings on the same value before
    canonicalize() is asked: whatever they return (or raise) is not judged, but nothing of it may show up in the canonical form."""
    from stix2.canonicalization import Canonicalize as C
    if how == "serialize":
        core.guarded(C.serialize, v, utf8=False)
    elif how == "encoder-ascii-spaced":
        core.guarded(lambda: C.JSONEncoder(ensure_ascii=True, separators=(", ", ": ")).encode(v))
    elif how == "encoder-indent":
        core.guarded(lambda: C.JSONEncoder(indent=2, separators=(",", " : "), sort_keys=False).encode(v))
    elif how == "encoder-unsorted-ascii":
        core.guarded(lambda: "".join(C.JSONEncoder(ensure_ascii=True, sort_keys=False).iterencode(v)))
    else:
        raise core.HarnessError("unknown use %r" % how)


def check_value(v, pre=None):
    from stix2.canonicalization.Canonicalize import canonicalize
    fails = []
    try:
        exp = rfc8785.canon(v)
    except OverflowError:
        return None  # |int| beyond double range: outside the RFC 8785 domain
    if pre:
        other_use(v, pre)
    out, exc = core.guarded(canonicalize, v, utf8=False)
    if exc is not None:
        return [("crash:%s" % type(exc).__name__, "canonicalize raised %s on %s" % (core.fmt_exc(exc), core.short(enc(v))))]
    if not isinstance(out, str):
        return [("not-text", "utf8=False returned %r" % type(out))]
    if out != exp:
        kind = "differs"
        # name the aspect for root-cause bucketing
        try:
            if json.loads(out) != json.loads(exp):
                kind = "value-differs"
            elif rfc8785.whitespace_outside_strings(out):
                kind = "whitespace"
            else:
                kind = "spelling-or-order"
        except ValueError:
            kind = "invalid-json"
        fails.append(("canon-" + kind, "canonicalize=%s  rfc8785=%s" % (core.short(out, 300), core.short(exp, 300))))
    b, exc = core.guarded(canonicalize, v, utf8=True)
    if exc is not None or b != out.encode("utf-8"):
        fails.append(("utf8-form", "utf8=True gives %r (%s)" % (b if exc is None else None, exc)))
    b2, exc = core.guarded(canonicalize, v)
    if exc is not None or b2 != out.encode("utf-8"):
        fails.append(("utf8-default", "default call does not return the UTF-8 bytes"))
    if rfc8785.whitespace_outside_strings(out):
        fails.append(("whitespace", "insignificant whitespace in %s" % core.short(out, 200)))
    for mode in ("reverse", "codepoint", "rotate"):
        o2, exc = core.guarded(canonicalize, reorder(v, mode), utf8=False)
        if exc is not None or o2 != out:
            fails.append(("insertion-order", "order %s changes output: %s vs %s" % (mode, core.short(o2, 200), core.short(out, 200))))
            break
    try:
        back = json.loads(out)
    except ValueError as e:
        fails.append(("invalid-json", "output does not parse: %s" % e))
        return fails
    if as_doubles(back) != as_doubles(v):
        fails.append(("parse-back", "json.loads(out) != value: %s" % core.short(out, 300)))
    o3, exc = core.guarded(canonicalize, back, utf8=False)
    if exc is not None or o3 != out:
        fails.append(("fixed-point", "canonicalize(parse(out)) = %s, out = %s" % (core.short(o3, 200), core.short(out, 200))))
    return fails


def check_refusal(v):
    """v contains NaN or an infinity somewhere: must raise ValueError."""
    from stix2.canonicalization.Canonicalize import canonicalize
    out, exc = core.guarded(canonicalize, v, utf8=False)
    if exc is None:
        return [("nan-inf-accepted", "canonicalize returned %s" % core.short(out, 200))]
    if not isinstance(exc, ValueError):
        return [("nan-inf-wrong-error", core.fmt_exc(exc))]
    return []


def check_case(case):
    v = dec(case["v"])
    if case.get("refuse"):
        return check_refusal(v)
    return check_value(v, case.get("pre")) or []


# ---- strategies -----------------------------------------------------------
# keys where UTF-16 code-unit order and code-point order disagree
_hi_bmp = st.characters(min_codepoint=0xE000, max_codepoint=0xFFFF)
_astral = st.characters(min_codepoint=0x10000, max_codepoint=0x10FFFF)
tricky_key = st.one_of(
    st.builds(lambda p, c: p + c, st.sampled_from(["", "a", "\U0001f600"]), _hi_bmp),
    st.builds(lambda p, c: p + c, st.sampled_from(["", "a", "\U0001f600"]), _astral),
)
key = st.one_of(V.mixed_text(2), tricky_key, tricky_key, st.sampled_from(["", "a", "aa", "A", "1", "10", "2", "\r", "€", "ö", "\u0080"]))
leaf = st.one_of(
    st.none(), st.booleans(), V.any_finite_float, V.any_finite_float, V.any_int, V.mixed_text(3),
)
json_value = st.recursive(
    leaf,
    lambda ch: st.one_of(st.lists(ch, max_size=4), st.dictionaries(key, ch, max_size=5)),
    max_leaves=12,
)
bad_number = st.sampled_from([float("nan"), float("inf"), float("-inf")])


def _plant(v, bad, where):
    if where == 0:
        return bad
    if where == 1:
        return [v, bad]
    if where == 2:
        return {"a": v, "b": [bad]}
    return {"x": {"y": bad}, "z": v}


def run(ctx):
    rfc8785.selftest()
    ctx.rule = ("JSON values by st.recursive (depth<=~6): floats from raw 64-bit patterns + boundary catalogue (1e21/1e-7 switch "
                "points, subnormals, max double), ints to +-2^70, strings/keys over BMP, astral and control characters, key sets "
                "where UTF-16 and code-point order disagree; each value also in three other insertion orders; 4 of 7 values are first put through the "
                "module's other public entry points (serialize(), JSONEncoder with ensure_ascii / spaced separators / indent / unsorted). Non-trivial = "
                "contains a float needing exponent/shortest-digit logic or fraction, an int beyond 2^53, an escaped character, or "
                "a key set whose two orders differ; distinct = distinct tagged value.")
    ctx.assumptions = ["oracle/rfc8785.py is a correct reading of RFC 8785 (self-tested on the RFC's Appendix B vectors, 3.2.2 and 3.2.3 examples)",
                       "domain excludes lone surrogates, non-string keys and |int| >= 2^1024 (outside I-JSON)"]
    # fixed seeds: RFC vectors through the library
    for hx, _ in rfc8785.VECTORS_HEX:
        v = struct.unpack(">d", bytes.fromhex(hx))[0]
        case = {"v": enc([v])}
        ctx.note(case, True, ["rfc-vector"])
        ctx.collect_only = True
        ctx.handle(case, check_case(case))
    ctx.collect_only = False

    def body(args):
        v, pre = args
        case = {"v": enc(v)}
        if pre:
            case["pre"] = pre
        fails = check_value(v, pre)
        if fails is None:
            ctx.exclude("int-beyond-double-range")
            return
        f = features(v)
        ctx.note(case, bool(f & NONTRIVIAL), sorted(f) + (["after-other-use:" + pre] if pre else []))
        ctx.handle(case, fails)

    core.run_given(ctx, st.tuples(json_value, st.sampled_from([None, None, None] + PRE_USES)), body, ctx.n(5000, 40000), label="c16-values")

    # single numbers, cheap and dense: every exponent range
    def body_num(v):
        case = {"v": enc(v)}
        ctx.note(case, V.float_class(v) != "num:zero", ["single:" + V.float_class(v)])
        ctx.handle(case, check_value(v) or [])

    core.run_given(ctx, V.any_finite_float, body_num, ctx.n(6000, 80000), label="c16-numbers")

    def body_bad(args):
        v, bad, where = args
        val = _plant(v, bad, where)
        case = {"v": enc(val), "refuse": True}
        ctx.note(case, True, ["refusal"])
        ctx.handle(case, check_refusal(val))

    core.run_given(ctx, st.tuples(json_value, bad_number, st.integers(0, 3)), body_bad, ctx.n(300, 2000), label="c16-refuse")


def replay(case):
    return check_case(case)


def selftest():
    try:
        rfc8785.selftest()
    except AssertionError as e:
        raise core.HarnessError(str(e))
