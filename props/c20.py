"""C20 -- confidence-scale conversions: total, monotone, round-trip, equal to the
STIX 2.1 appendix tables.  Finite domain => exhaustive enumeration, plus a
Hypothesis draw of arbitrary integers / near-miss labels for the refusal side.
"""
from hypothesis import strategies as st

from harness import core

# Frozen transcription of STIX 2.1 Appendix A ("Confidence Scales").
# scale -> (value_to function, label_to function, [(lo, hi, label, value-or-None)])
TABLE = {
    "none_low_med_high": ("value_to_none_low_medium_high", "none_low_med_high_to_value", [
        (0, 0, "None", 0), (1, 29, "Low", 15), (30, 69, "Med", 50), (70, 100, "High", 85)]),
    "zero_ten": ("value_to_zero_ten", "zero_ten_to_value", [
        (0, 4, "0", 0), (5, 14, "1", 10), (15, 24, "2", 20), (25, 34, "3", 30), (35, 44, "4", 40),
        (45, 54, "5", 50), (55, 64, "6", 60), (65, 74, "7", 70), (75, 84, "8", 80), (85, 94, "9", 90),
        (95, 100, "10", 100)]),
    "admiralty": ("value_to_admiralty_credibility", "admiralty_credibility_to_value", [
        (0, 19, "5 - Improbable", 10), (20, 39, "4 - Doubtful", 30), (40, 59, "3 - Possibly True", 50),
        (60, 79, "2 - Probably True", 70), (80, 100, "1 - Confirmed by other sources", 90)]),
    "wep": ("value_to_wep", "wep_to_value", [
        (0, 0, "Impossible", 0), (1, 19, "Highly Unlikely/Almost Certainly Not", 10),
        (20, 39, "Unlikely/Probably Not", 30), (40, 59, "Even Chance", 50), (60, 79, "Likely/Probable", 70),
        (80, 99, "Highly likely/Almost Certain", 90), (100, 100, "Certain", 100)]),
    "dni": ("value_to_dni", "dni_to_value", [
        (0, 9, "Almost No Chance / Remote", 5), (10, 19, "Very Unlikely / Highly Improbable", 15),
        (20, 39, "Unlikely / Improbable", 30), (40, 59, "Roughly Even Chance / Roughly Even Odds", 50),
        (60, 79, "Likely / Probable", 70), (80, 89, "Very Likely / Highly Probable", 85),
        (90, 100, "Almost Certain / Nearly Certain", 95)]),
}
# Labels the specification lists but to which it assigns no value.
NO_VALUE_LABELS = {"admiralty": ["6 - Truth cannot be judged"]}


def expected_label(scale, v):
    for lo, hi, lab, _ in TABLE[scale][2]:
        if lo <= v <= hi:
            return lab
    return None


def selftest():
    for scale, (_, _, rows) in TABLE.items():
        # rows partition 0..100 and each value lies inside its own range
        covered = []
        for lo, hi, lab, val in rows:
            covered.extend(range(lo, hi + 1))
            if not (lo <= val <= hi):
                raise core.HarnessError("table row value outside its range: %s %s" % (scale, lab))
        if covered != list(range(0, 101)):
            raise core.HarnessError("table does not partition 0..100: " + scale)


def check_case(case):
    """case: {"scale","dir":"v2l"|"l2v","arg"}"""
    from stix2.confidence import scales
    scale = case["scale"]
    vfn, lfn, rows = TABLE[scale]
    fails = []
    if case["dir"] == "v2l":
        v = case["arg"]
        res, exc = core.guarded(getattr(scales, vfn), v)
        exp = expected_label(scale, v)
        if exp is None:
            if exc is None:
                fails.append(("out-of-range-accepted:%s" % scale, "%s(%r) returned %r" % (vfn, v, res)))
            elif not isinstance(exc, ValueError):
                fails.append(("out-of-range-wrong-error:%s" % scale, "%s(%r) raised %s" % (vfn, v, core.fmt_exc(exc))))
        else:
            if exc is not None:
                fails.append(("not-total:%s" % scale, "%s(%r) raised %s" % (vfn, v, core.fmt_exc(exc))))
            elif res != exp:
                fails.append(("range-table:%s" % scale, "%s(%r) = %r, specification table says %r" % (vfn, v, res, exp)))
    else:
        lab = case["arg"]
        res, exc = core.guarded(getattr(scales, lfn), lab)
        known = {r[2]: r[3] for r in rows}
        if lab in known:
            if exc is not None:
                fails.append(("label-refused:%s" % scale, "%s(%r) raised %s" % (lfn, lab, core.fmt_exc(exc))))
            else:
                if res != known[lab]:
                    fails.append(("label-value:%s" % scale, "%s(%r) = %r, table says %r" % (lfn, lab, res, known[lab])))
                back, exc2 = core.guarded(getattr(scales, vfn), res)
                if exc2 is not None or back != lab:
                    fails.append(("label-roundtrip:%s" % scale, "%s(%s(%r)) = %r (%s)" % (vfn, lfn, lab, back, exc2)))
        else:
            if exc is None:
                fails.append(("unknown-label-accepted:%s" % scale, "%s(%r) returned %r" % (lfn, lab, res)))
            elif not isinstance(exc, ValueError):
                fails.append(("unknown-label-wrong-error:%s" % scale, "%s(%r) raised %s" % (lfn, lab, core.fmt_exc(exc))))
    return fails


def check_nonstring(scale, arg):
    """A non-string is never a scale label: refused (ValueError or TypeError), never converted."""
    from stix2.confidence import scales
    lfn = TABLE[scale][1]
    res, exc = core.guarded(getattr(scales, lfn), arg)
    if exc is None:
        return [("unknown-label-accepted:%s" % scale, "%s(%r) returned %r" % (lfn, arg, res))]
    if not isinstance(exc, (ValueError, TypeError)):
        return [("unknown-label-wrong-error:%s" % scale, "%s(%r) raised %s" % (lfn, arg, core.fmt_exc(exc)))]
    return []


def check_monotone(scale):
    """Over 0..100 the label never returns to one it has left."""
    from stix2.confidence import scales
    vfn = TABLE[scale][0]
    seen = []
    for v in range(0, 101):
        lab, exc = core.guarded(getattr(scales, vfn), v)
        if exc is not None:
            continue  # reported by check_case
        if not seen or seen[-1] != lab:
            if lab in seen:
                return [("not-monotone:%s" % scale, "%s returns to label %r at %d" % (vfn, lab, v))]
            seen.append(lab)
    return []


_DIGIT_ALPHABETS = ["٠١٢٣٤٥٦٧٨٩", "０１２３４５６７８９", "०१२३४५६७८९"]   # Arabic-Indic, fullwidth, Devanagari


def near_miss_labels(lab):
    out = {lab.lower(), lab.upper(), " " + lab, lab + " ", lab[:-1], lab + "x", lab[1:], lab.replace(" ", "  "), lab.replace("/", " / "),
           "0" + lab, "00" + lab, "+" + lab, lab + ".0", lab + "\n", "\t" + lab, lab.swapcase(), lab.title(), lab.replace("-", "–"),
           lab.replace(" ", "\u00a0")}
    if any(ch.isdigit() for ch in lab):
        for alpha in _DIGIT_ALPHABETS:     # other Unicode decimal digits: int()/isdigit() accept them, the scale does not
            out.add("".join(alpha[int(ch)] if ch in "0123456789" else ch for ch in lab))
    out.discard(lab)
    return sorted(out)


NON_STRING_ARGS = [0, 5, 10, 15, 50, 100, 5.0, None, True, False, b"5", ("5",), ["Low"]]


def run(ctx):
    ctx.rule = ("exhaustive: every integer -1000..1000 for each of the 5 value->label functions, every scale label, every "
                "label that has no value, and case/whitespace/edit-distance-1 near-miss labels for each label->value "
                "function; plus Hypothesis draws of arbitrary integers and text. Non-trivial = value within 1 of a range "
                "boundary (either side) or a label/near-label; distinct = (scale, direction, argument).")
    ctx.assumptions = ["STIX 2.1 Appendix A tables transcribed by hand into props/c20.py:TABLE (self-checked to partition 0..100)"]
    boundaries = {}
    for scale, (_, _, rows) in TABLE.items():
        b = set()
        for lo, hi, _, _ in rows:
            b.update([lo - 1, lo, lo + 1, hi - 1, hi, hi + 1])
        boundaries[scale] = b
    for scale, (_, _, rows) in TABLE.items():
        for v in range(-1000, 1001):
            case = {"scale": scale, "dir": "v2l", "arg": v}
            ctx.note(case, v in boundaries[scale], ["v2l:" + scale, "in-range" if 0 <= v <= 100 else "out-of-range"])
            ctx.collect_only = True
            ctx.handle(case, check_case(case))
        labels = [r[2] for r in rows]
        allnear = set()
        for lab in labels:
            allnear.update(near_miss_labels(lab))
        allnear -= set(labels)
        extra = NO_VALUE_LABELS.get(scale, []) + ["", "None", "none", "0", "10", "11", "-1", "Certain", "High", "Medium"]
        # every 1-3 digit numeral (zero-padded forms included) -- finite, enumerated completely
        extra += [str(n) for n in range(0, 101)] + ["%02d" % n for n in range(0, 100)] + ["%03d" % n for n in range(0, 101)]
        extra = list(dict.fromkeys(extra))
        for lab in labels + sorted(allnear) + [x for x in extra if x not in labels]:
            case = {"scale": scale, "dir": "l2v", "arg": lab}
            ctx.note(case, True, ["l2v:" + scale, "label" if lab in labels else "non-label"])
            ctx.handle(case, check_case(case))
        for i, arg in enumerate(NON_STRING_ARGS):
            case = {"scale": scale, "dir": "l2v-nonstring", "arg": i}
            ctx.note(case, True, ["l2v-nonstring:" + scale])
            ctx.handle(case, check_nonstring(scale, arg))
        case = {"scale": scale, "dir": "monotone", "arg": None}
        ctx.note(case, True, ["monotone:" + scale])
        ctx.handle(case, check_monotone(scale))
    ctx.collect_only = False
    ctx.exhaustive = True

    # arbitrary integers / text: the refusal side beyond the enumerated window
    strat = st.one_of(
        st.builds(lambda s, v: {"scale": s, "dir": "v2l", "arg": v}, st.sampled_from(sorted(TABLE)), st.integers()),
        st.builds(lambda s, v: {"scale": s, "dir": "l2v", "arg": v}, st.sampled_from(sorted(TABLE)), st.one_of(st.text(max_size=12), st.text(st.characters(whitelist_categories=("Nd",)), min_size=1, max_size=3))),
    )

    def body(case):
        ctx.note(case, False, ["random:" + case["dir"]])
        ctx.handle(case, check_case(case))

    core.run_given(ctx, strat, body, ctx.n(2000, 20000), label="c20-random")


def replay(case):
    if case["dir"] == "l2v-nonstring":
        return check_nonstring(case["scale"], NON_STRING_ARGS[case["arg"]])
    if case["dir"] == "monotone":
        return check_monotone(case["scale"])
    return check_case(case)


WORKERS = 1
