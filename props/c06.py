"""C06 -- STIX 2.1 observable identifiers are deterministic and specification-exact.

Independent recomputation: contributing properties (frozen model) taken from
json.loads(obj.serialize()), one hash chosen MD5 > SHA-1 > SHA-256 > SHA-512 >
first, RFC 8785 text (oracle/rfc8785.py), uuid5 in the STIX namespace.
"""
import copy
import json
import uuid

from hypothesis import strategies as st

from gen import objects as G
from gen import values as V
from harness import core
from oracle import model as M
from oracle import rfc8785

NAMESPACE = uuid.UUID("00abedb4-aa42-466c-9c01-fed23315a9b7")
PREFERRED = ["MD5", "SHA-1", "SHA-256", "SHA-512"]
CUSTOM = {
    "x-verif-obs": ["prop_a", "when", "data", "num"],
    "x-verif-noid": [],
}
_registered = [False]


def ensure_custom():
    if _registered[0]:
        return
    import stix2
    from stix2 import properties as P

    @stix2.v21.CustomObservable("x-verif-obs", [
        ("prop_a", P.StringProperty(required=True)), ("prop_b", P.IntegerProperty()), ("when", P.TimestampProperty()),
        ("data", P.DictionaryProperty(spec_version="2.1")), ("num", P.FloatProperty()), ("tags", P.ListProperty(P.StringProperty)),
    ], ["prop_a", "when", "data", "num"])
    class VerifObs(object):
        pass

    @stix2.v21.CustomObservable("x-verif-noid", [("prop_a", P.StringProperty(required=True)), ("prop_b", P.IntegerProperty())])
    class VerifNoId(object):
        pass
    _registered[0] = True


def contributing(t):
    if t in CUSTOM:
        return CUSTOM[t]
    m = M.get("2.1")
    return m.cls(m.observables[t])["id_contributing"]


def timestamp_props(t):
    if t in CUSTOM:
        return {"when"}
    m = M.get("2.1")
    return {k for k, d in m.props(m.observables[t]).items() if d["kind"] == "timestamp"}


def expected_ids(out):
    """Set of acceptable ids for serialized observable `out` (usually one), or None if no contributing property is present."""
    t = out["type"]
    contrib = {}
    hash_choices = [None]
    for k in contributing(t):
        if k in out:
            if k == "hashes":
                h = out[k]
                pref = [p for p in PREFERRED if p in h]
                if pref:
                    hash_choices = [{pref[0]: h[pref[0]]}]
                else:
                    hash_choices = [{kk: vv} for kk, vv in h.items()]   # "else first": the order of a JSON object is not defined -> accept any
            else:
                contrib[k] = out[k]
    if not contrib and hash_choices == [None]:
        return None
    ids = set()
    for hc in hash_choices:
        c = dict(contrib)
        if hc is not None:
            c["hashes"] = hc
        ids.add("%s--%s" % (t, uuid.uuid5(NAMESPACE, rfc8785.canon(c))))
    return ids


def permute(v, mode):
    if isinstance(v, dict):
        items = [(k, permute(x, mode)) for k, x in v.items()]
        if mode == "reverse":
            items.reverse()
        elif mode == "sorted":
            items.sort(key=lambda kv: kv[0])
        elif mode == "rotate" and items:
            items = items[1:] + items[:1]
        return dict(items)
    if isinstance(v, list):
        return [permute(x, mode) for x in v]
    return v


def build(doc, how):
    import stix2
    from stix2 import registry
    if how == "parse":
        return core.guarded(stix2.parse, doc, allow_custom=True, version="2.1")
    if how == "parse-text":
        d = dict(doc, spec_version="2.1")   # without id or spec_version the text could not be told from 2.0 content
        return core.guarded(stix2.parse, json.dumps(d), allow_custom=True, version="2.1")
    if how == "parse_observable":
        return core.guarded(stix2.parse_observable, doc, allow_custom=True, version="2.1")
    if how == "constructor":
        cls = registry.class_for_type(doc["type"], "2.1", "observables")
        kw = {k: v for k, v in doc.items() if k != "type"}
        return core.guarded(cls, allow_custom=True, **kw)
    if how == "constructor-id-none":
        # None is the library's way of saying "absent" for every property; id=None is an object created without an explicit id
        cls = registry.class_for_type(doc["type"], "2.1", "observables")
        kw = {k: v for k, v in doc.items() if k != "type"}
        return core.guarded(cls, allow_custom=True, id=None, **kw)
    if how == "constructor-tuples":
        # every JSON array handed over as a Python tuple (the constructors take any sequence): the same value, so the same id
        def tup(v):
            if isinstance(v, list):
                return tuple(tup(x) for x in v)
            if isinstance(v, dict):
                return {k: tup(x) for k, x in v.items()}
            return v
        cls = registry.class_for_type(doc["type"], "2.1", "observables")
        kw = {k: tup(v) for k, v in doc.items() if k != "type"}
        return core.guarded(cls, allow_custom=True, **kw)
    if how == "constructor-bytes":
        # base64 text (payload_bin) and the text values of free-form dictionaries handed over as bytes: the binary property takes and keeps
        # bytes, and the encoder writes them as the same JSON string -- the same value, so the same id
        def byt(v, free):
            if isinstance(v, str) and free:
                return v.encode("utf-8")
            if isinstance(v, dict):
                return {k: byt(x, free or k in ("exif_tags", "document_info_dict")) for k, x in v.items()}
            if isinstance(v, list):
                return [byt(x, free) for x in v]
            return v
        cls = registry.class_for_type(doc["type"], "2.1", "observables")
        kw = {k: (v.encode("ascii") if k == "payload_bin" and isinstance(v, str) else byt(v, False)) for k, v in doc.items() if k != "type"}
        return core.guarded(cls, allow_custom=True, **kw)
    if how == "parse-id-null":
        return core.guarded(stix2.parse, dict(doc, id=None), allow_custom=True, version="2.1")
    if how.startswith("constructor-stixdt:"):
        # timestamps handed over as STIXdatetime objects that still carry the formatting tags of the property they were taken from
        # (e.g. another object's created / modified): the value is the same instant, so the id must be the same
        import datetime as dt
        from stix2.utils import STIXdatetime
        from oracle import tsref
        prec, cons = how.split(":")[1].split("/")
        cls = registry.class_for_type(doc["type"], "2.1", "observables")
        kw = {}
        for k, v in doc.items():
            if k == "type":
                continue
            if k in timestamp_props(doc["type"]) and isinstance(v, str):
                try:
                    t, nd, extra = tsref.parse(v)
                except ValueError:
                    t, extra = None, True
                if not extra:
                    days, rem = divmod(t, tsref.US_PER_DAY)
                    y, mo, dd = tsref.civil_from_days(days)
                    secs, us = divmod(rem, 10 ** 6)
                    v = STIXdatetime(dt.datetime(y, mo, dd, secs // 3600, secs % 3600 // 60, secs % 60, us, tzinfo=__import__("pytz").utc), precision=prec, precision_constraint=cons)
            kw[k] = v
        return core.guarded(cls, allow_custom=True, **kw)
    if how == "observed-data-member":
        od = {"type": "observed-data", "spec_version": "2.1", "id": "observed-data--6e2d1f6a-3b0f-4a5c-8d53-1c0b8b3a9f10",
              "created": "2020-01-01T00:00:00.000Z", "modified": "2020-01-01T00:00:00.000Z", "first_observed": "2020-01-01T00:00:00Z",
              "last_observed": "2020-01-01T00:00:00Z", "number_observed": 1, "objects": {"0": doc}}
        res, exc = core.guarded(stix2.parse, od, allow_custom=True, version="2.1")
        if exc is not None:
            return None, exc
        return res["objects"]["0"], None
    raise AssertionError(how)


def check_case(case):
    ensure_custom()
    doc = case["doc"]
    fails = []
    base, exc = build(doc, "parse")
    if exc is not None:
        return None
    out = json.loads(base.serialize())
    exp = expected_ids(out)
    desc = core.short(doc, 500)
    if exp is None:
        u = out["id"].split("--", 1)[1]
        try:
            ver = uuid.UUID(u).version
        except ValueError:
            ver = None
        if ver != 4:
            fails.append(("no-contributing-not-uuid4", "no contributing property present but id %s is not a UUIDv4 (%s)" % (out["id"], desc)))
        again, exc = build(doc, "parse")
        if exc is None and again["id"] == out["id"]:
            fails.append(("no-contributing-not-random", "two constructions without contributing properties gave the same id %s" % out["id"]))
        return fails
    if out["id"] not in exp:
        # classify by the kind of contributing value to make root causes distinguishable
        feats = sorted(set(k for k in contributing(out["type"]) if k in out))
        fails.append(("id-not-spec-exact", "id %s, independent recomputation gives %s from contributing %s of %s" % (out["id"], sorted(exp), feats, core.short(out, 500))))
    ambiguous_hash = len(exp) > 1
    # presentation invariance
    for how in case.get("routes", []):
        o2, exc = build(doc, how)
        if exc is not None:
            fails.append(("route-refused:" + how, "%s refused what parse accepts: %s (%s)" % (how, core.fmt_exc(exc), desc)))
            continue
        if o2["id"] != out["id"]:
            fails.append(("id-differs-by-route:" + how, "%s gives %s, parse gives %s (%s)" % (how, o2["id"], out["id"], desc)))
    for mode in case.get("perms", []):
        pd = permute(doc, mode)
        o2, exc = build(pd, case.get("perm_route", "parse"))
        if exc is not None:
            fails.append(("permutation-refused", "%s order refused: %s" % (mode, core.fmt_exc(exc))))
        elif o2["id"] != out["id"] and not ambiguous_hash:
            fails.append(("id-depends-on-order", "member order %s changes the id: %s vs %s (%s)" % (mode, o2["id"], out["id"], desc)))
    # round trip: id kept; dropping it and re-parsing regenerates the same id
    rt, exc = build(json.loads(base.serialize()), "parse")
    if exc is not None or rt["id"] != out["id"]:
        fails.append(("explicit-id-not-kept", "parse(serialize()) changed the id: %s" % (rt["id"] if exc is None else core.fmt_exc(exc))))
    stripped = {k: v for k, v in out.items() if k != "id"}
    rt2, exc = build(stripped, "parse")
    if exc is None and rt2["id"] != out["id"] and not ambiguous_hash:
        fails.append(("id-not-stable-over-round-trip", "re-parsing the serialization without id gives %s instead of %s (%s)" % (rt2["id"], out["id"], core.short(stripped, 400))))
    # explicit id verbatim
    given = "%s--%s" % (out["type"], "3f2504e0-4f89-41d3-9a0c-0305e82c3301")
    o3, exc = build(dict(doc, id=given), "parse")
    if exc is None and o3["id"] != given:
        fails.append(("explicit-id-replaced", "explicit id %s became %s" % (given, o3["id"])))
    # non-contributing change keeps the id; contributing change alters it
    for edit in case.get("edits", []):
        d2 = copy.deepcopy(doc)
        if edit["op"] == "del":
            d2.pop(edit["prop"], None)
        else:
            d2[edit["prop"]] = edit["value"]
        o4, exc = build(d2, "parse")
        if exc is not None:
            continue
        out4 = json.loads(o4.serialize())
        if exp and expected_ids(out4) is None:
            continue
        same_contrib = expected_ids(out4) == exp
        if edit["contributing"] is False and o4["id"] != out["id"]:
            fails.append(("non-contributing-change-alters-id", "changing %r altered the id %s -> %s (%s)" % (edit["prop"], out["id"], o4["id"], desc)))
        if edit["contributing"] is True and not same_contrib and o4["id"] == out["id"]:
            fails.append(("contributing-change-keeps-id", "changing contributing %r to %r kept the id %s (%s)" % (edit["prop"], edit.get("value"), out["id"], desc)))
    return fails


# ---- strategies --------------------------------------------------------------------------------------------------
OPTS = {"ts_max_digits": 6, "selectors": "none", "max_optional": 7}
ROUTES = ["parse-text", "parse_observable", "constructor", "observed-data-member", "constructor-id-none", "parse-id-null", "constructor-tuples", "constructor-bytes"]
STIXDT_ROUTES = ["constructor-stixdt:millisecond/min", "constructor-stixdt:millisecond/exact", "constructor-stixdt:second/exact", "constructor-stixdt:second/min"]
# member names on which UTF-16 code-unit order (RFC 8785) and code-point order disagree, plus escapes
ORDER_KEYS = ["\ue000", "\U0001f600\ue000", "\ufb33", "\U0001f600", "\uffff", "\U00010000", "a", "\u00e9", "\"q", "\\", "\u0001", "\ud7ff", "Z"]
ORDER_BODY = st.dictionaries(st.sampled_from(ORDER_KEYS), st.one_of(st.integers(0, 3), st.sampled_from(["v", "\U0001f600"]),
                                                                    st.dictionaries(st.sampled_from(ORDER_KEYS), st.integers(0, 3), min_size=2, max_size=4)), min_size=2, max_size=5)


@st.composite
def custom_doc(draw):
    t = draw(st.sampled_from(sorted(CUSTOM)))
    doc = {"type": t, "prop_a": draw(G.string_value({}))}
    if draw(st.booleans()):
        doc["prop_b"] = draw(st.integers(-5, 2 ** 60))
    if t == "x-verif-obs":
        if draw(st.booleans()):
            doc["when"] = draw(G.timestamp("2.1", {"precision": "any"}, {}))
        if draw(st.booleans()):
            doc["data"] = draw(st.dictionaries(st.one_of(st.sampled_from(["a", "B", "k_1", "z-z"]), st.text(st.sampled_from(list("abcXYZ_-09")), min_size=1, max_size=5)),
                                               st.one_of(V.mixed_text(2), st.integers(-2 ** 62, 2 ** 62), st.booleans(), V.any_finite_float.filter(lambda f: abs(f) < 1e300),
                                                         st.lists(st.integers(0, 3), min_size=1, max_size=2)), min_size=1, max_size=3))
        if "data" in doc and draw(st.booleans()):
            doc["data"]["nested"] = draw(ORDER_BODY)
        if draw(st.booleans()):
            doc["num"] = draw(V.any_finite_float.filter(lambda f: abs(f) < 1e300))
        if draw(st.booleans()):
            doc["tags"] = draw(st.lists(st.text(max_size=3), min_size=1, max_size=2))
    return doc


@st.composite
def case_strategy(draw):
    m = M.get("2.1")
    if draw(st.integers(0, 5)) == 0:
        doc = draw(custom_doc())
    else:
        t = draw(st.sampled_from(m.sco_types))
        opts = dict(OPTS)
        shape = draw(st.sampled_from(["random", "random", "maximal", "minimal"]))
        if shape != "random":
            opts[shape] = True
        doc = draw(G.valid_object("2.1", type_=t, opts=opts))
        doc.pop("id", None)
        doc.pop("granular_markings", None)
        if "extensions" in contributing(t) and draw(st.integers(0, 2)) == 0:
            # free-form body of an unregistered extension-definition extension among the contributing properties
            body = dict(draw(ORDER_BODY), extension_type="property-extension")
            doc.setdefault("extensions", {})["extension-definition--" + draw(st.sampled_from(["3f2504e0-4f89-41d3-9a0c-0305e82c3301", "7e4ba2c2-6b3e-4a0f-9a6e-0e2f5f5d0a11"]))] = body
    t = doc["type"]
    contrib = contributing(t)
    edits = []
    props = [k for k in doc if k not in ("type", "spec_version")]
    if props:
        for _ in range(draw(st.integers(1, 3))):
            p = draw(st.sampled_from(sorted(props)))
            val = doc[p]
            if isinstance(val, str):
                new = val + "x"
            elif isinstance(val, bool):
                new = not val
            elif isinstance(val, int):
                new = val + 1 if p not in ("src_port", "dst_port") else (val + 1) % 65536
            elif isinstance(val, float):
                new = val + 1.0 if abs(val) < 80 else val / 2
            else:
                continue
            if p in ("start", "end", "when", "ctime", "mtime", "atime", "date") or (isinstance(val, str) and len(val) > 19 and val[4:5] == "-" and val.endswith("Z")):
                continue   # timestamps: "x" suffix would be invalid
            if p.endswith("_ref") or p.endswith("_hex") or p in ("payload_bin", "encryption_algorithm", "path_enc", "name_enc"):
                continue
            edits.append({"op": "set", "prop": p, "value": new, "contributing": p in contrib})
    if "defanged" not in doc:
        edits.append({"op": "set", "prop": "defanged", "value": True, "contributing": False})
    routes = draw(st.lists(st.sampled_from(ROUTES), min_size=1, max_size=3, unique=True))
    if any(k in doc for k in timestamp_props(t)):
        routes.append(draw(st.sampled_from(STIXDT_ROUTES)))
    case = {"doc": doc, "routes": routes,
            "perms": draw(st.lists(st.sampled_from(["reverse", "sorted", "rotate"]), min_size=1, max_size=2, unique=True)),
            "perm_route": draw(st.sampled_from(["parse", "constructor"])), "edits": edits}
    return case


def classes_of(case):
    doc = case["doc"]
    cl = ["type:" + doc["type"]]
    present = [k for k in contributing(doc["type"]) if k in doc]
    cl.append("contributing-present:%d" % min(len(present), 3))
    cl.extend("contrib:" + k for k in present if k in ("hashes", "extensions", "start", "end", "when", "data", "num", "values", "protocols"))
    f = G.features({k: doc[k] for k in present})
    cl.extend(sorted(f))
    if rfc8785_order_matters({k: doc[k] for k in present}):
        cl.append("val:utf16-order-differs-from-code-point-order")
    cl.extend("route:" + r.split(":")[0] for r in case["routes"])
    if any(r.startswith("constructor-stixdt") for r in case["routes"]) and any(k in present for k in timestamp_props(doc["type"])):
        cl.append("contributing-timestamp-as-tagged-STIXdatetime")
    if any(e["contributing"] for e in case["edits"]):
        cl.append("edit:contributing")
    if any(not e["contributing"] for e in case["edits"]):
        cl.append("edit:non-contributing")
    return cl


def rfc8785_order_matters(v):
    if isinstance(v, dict):
        ks = list(v)
        if sorted(ks) != sorted(ks, key=lambda k: k.encode("utf-16-be")):
            return True
        return any(rfc8785_order_matters(x) for x in v.values())
    if isinstance(v, list):
        return any(rfc8785_order_matters(x) for x in v)
    return False


NT = {"val:utf16-order-differs-from-code-point-order", "contributing-timestamp-as-tagged-STIXdatetime", "str:astral", "str:control", "str:bmp-nonascii", "str:quote-backslash", "contrib:hashes", "contrib:extensions", "contrib:start", "contrib:end",
      "contrib:when", "contrib:data", "contrib:num", "val:int>2^53", "contrib:values"}


def run(ctx):
    rfc8785.selftest()
    ctx.rule = ("every 2.1 SCO type (spec-model generator: random/minimal/maximal optional subsets incl. extensions, hashes in several "
                "spellings, timestamps at all precisions) and two harness-registered custom observables (floats, big ints, dictionaries "
                "with astral/escaped strings among the contributing properties), created without id; x routes (parse dict/text, "
                "parse_observable, constructor, constructor with timestamps as STIXdatetime objects carrying foreign precision tags, observed-data member; "
                "free-form extension bodies / nested dictionaries whose member names sort differently by UTF-16 code unit and by code point) x member-order permutations x edits of contributing / "
                "non-contributing properties x round trips. Non-trivial = a contributing property is present whose value needs escaping, "
                "number formatting, hash selection, nested extensions or timestamp normalisation; distinct = distinct case.")
    ctx.assumptions = ["contributing-property lists come from the frozen model (specmodel/v21.json)", "oracle/rfc8785.py for the canonical text; uuid.uuid5 from the standard library",
                       "when only non-preferred hashes are present the 'first' one is order-dependent: any of them is accepted and order-invariance is not asserted there"]

    def body(case):
        fails = check_case(case)
        if fails is None:
            ctx.exclude("base-document-refused")
            return
        cl = classes_of(case)
        ctx.note(case, bool(set(cl) & NT), cl)
        ctx.handle(case, fails)

    core.run_given(ctx, case_strategy(), body, ctx.n(3500, 9000), label="c06-main")
    if ctx.evaluations >= 1000:
        core.health(ctx, ["val:utf16-order-differs-from-code-point-order", "contributing-timestamp-as-tagged-STIXdatetime", "contrib:extensions", "contrib:hashes"], share=0.003)


def replay(case):
    return check_case(case) or []
