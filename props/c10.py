"""C10 -- pattern text <-> object model convert into each other faithfully.

Family "text":  generated AST -> my printer (random legal layout) -> create_pattern_object -> str():
  (1) output valid per the third-party stix2-patterns validator, (2) my parser's tree of the output equals the
  generator's tree node by node (redundant parentheses and constant spelling erased), (3) print is a fixed point.
Family "model": the same kind of AST assembled through the public classes of stix2.patterns; str(model) must be valid,
  parse (my parser) to the intended tree, and parse back through the library to the same text.

A whole-pattern symptom (exception, unparsable output) is attributed to a *named input feature* only when the
symptom's signature matches and the feature is present; the feature is then removed from the AST and the rest of the
pattern is checked again, so a known defect never hides the remainder of the pattern.
"""
import datetime as dt

from hypothesis import strategies as st

from gen import patterns as P
from harness import core

VALID_INPUT_NOTE = "generator-output-rejected-by-validator"

# (feature, key, exception class name, message fragment)
CRASH_SIGNATURES = [
    ("not-order", "crash:NOT-before-ordering-operator", "TypeError", "NoneType"),
    ("exists", "exists-not-modelled", "AttributeError", "'list' object has no attribute"),
    ("exists", "exists-not-modelled", "AttributeError", "object has no attribute 'root_types'"),
    ("ts-frac>6", "crash:timestamp-more-than-6-fraction-digits", "ValueError", "Must be a datetime object or timestamp string"),
    ("hex-empty", "crash:empty-hex-literal", "ValueError", "even number of hexadecimal"),
    ("within-float", "crash:WITHIN-float-seconds", "ValueError", "not a valid argument for a Within Qualifier"),
    ("and-mixed-types", "refused:comparison-AND-across-object-types", "ValueError", "All operands to an 'AND' expression"),
    ("quoted-step-star", "crash:quoted-step-before-star-index", "AttributeError", "'StringConstant' object has no attribute 'property_name'"),
    ("double-index", "consecutive-index-steps-unsupported", "AttributeError", "has no attribute 'endswith'"),
    ("double-index", "consecutive-index-steps-unsupported", "AttributeError", "object has no attribute 'property_name'"),
]
# (feature, key, predicate on the invalid output text)
INVALID_OUTPUT_SIGNATURES = [
    ("exists", "exists-not-modelled", lambda t: "object at 0x" in t),
    ("float-exp", "float-printed-with-exponent", lambda t: P.re.search(r"[0-9]e[+-][0-9]", t) is not None),
    ("double-index", "consecutive-index-steps-unsupported", lambda t: P.re.search(r"\]\.[0-9*]", t) is not None),
    ("quoted-step-needs-quotes", "quoted-step-printed-unquoted", lambda t: True),
]


def validator_errors(text, ver):
    from stix2patterns.validator import run_validator
    try:
        return list(run_validator(text, stix_version=ver))
    except Exception as e:  # the third-party validator itself failed: not a verdict on the text
        return ["validator raised %s" % core.fmt_exc(e)]


def lib_print(text, ver):
    from stix2.pattern_visitor import create_pattern_object
    obj, exc = core.guarded(create_pattern_object, text, version=ver)
    if exc is not None:
        return None, exc
    return core.guarded(str, obj)


# ---- node-by-node comparison -------------------------------------------------

def _raw_has_unquotable(path):
    return any(i > 0 and s["s"] == "key" and P.step_needs_quotes(s["n"]) and "-" not in s["n"] for i, s in enumerate(path["steps"]))


def diff(raw, got, fails, where="$"):
    """raw: generator's node (spelling kept); got: canonical node parsed from the library's output."""
    exp = P.canon(raw) if raw["k"] in ("cmp", "exists") else None
    k = raw["k"]
    if k != got["k"]:
        fails.append(("structure-changed:%s" % k, "%s: expected %s node, output has %s" % (where, k, got["k"])))
        return
    if k in ("cmp", "exists"):
        if exp["path"] != got["path"]:
            key = "quoted-step-printed-unquoted" if _raw_has_unquotable(raw["path"]) else "path-changed"
            fails.append((key, "%s: path %s became %s" % (where, core.canon(exp["path"]), core.canon(got["path"]))))
        if k == "cmp":
            if exp["op"] != got["op"]:
                fails.append(("operator-changed:%s" % raw["op"], "%s: %s became %s" % (where, exp["op"], got["op"])))
            elif exp["neg"] != got["neg"]:
                if raw["neg"] and raw["op"] in ("IN",) + P.STRING_OPS and not got["neg"]:
                    key = "negation-lost:NOT-%s" % raw["op"]
                elif raw["neg"] and raw["op"] == "!=" and got["neg"]:
                    key = "NOT-neq-printed-as-NOT-eq"
                else:
                    key = "negation-changed:%s%s" % ("NOT-" if raw["neg"] else "", raw["op"])
                fails.append((key, "%s: %s%s printed with negated=%s" % (where, "NOT " if raw["neg"] else "", raw["op"], got["neg"])))
            if exp["rhs"] != got["rhs"]:
                fails.append(("constant-changed:%s" % raw["rhs"]["c"], "%s: %s became %s" % (where, core.canon(exp["rhs"]), core.canon(got["rhs"]))))
        elif exp["neg"] != got["neg"]:
            fails.append(("negation-changed:EXISTS", "%s: EXISTS negation differs" % where))
        return
    if k == "obs":
        diff(raw["e"], got["e"], fails, where + "[]")
        return
    if k == "qual":
        eq, gq = P.canon(raw)["q"], got["q"]
        if eq["q"] != gq["q"]:
            fails.append(("qualifier-changed:%s" % eq["q"], "%s: %s became %s" % (where, eq["q"], gq["q"])))
        elif eq != gq:
            fails.append(("qualifier-argument-changed:%s" % eq["q"], "%s: %s became %s" % (where, core.canon(eq), core.canon(gq))))
        diff(raw["e"], got["e"], fails, where + ".q")
        return
    if len(raw["args"]) != len(got["args"]):
        fails.append(("operands-regrouped:%s" % k, "%s: %s over %d operands became %d operands" % (where, k, len(raw["args"]), len(got["args"]))))
        return
    for i, (a, b) in enumerate(zip(raw["args"], got["args"])):
        diff(a, b, fails, "%s.%s%d" % (where, k, i))


# ---- the shared check ----------------------------------------------------------

def check_text(text, ast, ver, fails, prefix="", require_same_text=False, level=0):
    """Library parse+print of `text` against the expected tree `ast`.  Appends (key, detail) pairs."""
    feats = P.features(ast)
    t1, exc = lib_print(text, ver)
    if exc is not None:
        name, msg = type(exc).__name__, str(exc)
        for feat, key, ename, frag in CRASH_SIGNATURES:
            if feat in feats and name == ename and frag in msg:
                fails.append((key, "%s -> %s" % (core.short(text, 300), core.fmt_exc(exc))))
                if level < 12:
                    ast2 = P.strip_feature(ast, feat)
                    check_text(P.to_text(ast2), ast2, ver, fails, prefix, False, level + 1)
                return
        kind = "valid-pattern-refused" if name in ("ParseException",) else "crash"
        fails.append(("%s%s:%s@%s" % (prefix, kind, name, core.lib_frame(exc)), "%s -> %s" % (core.short(text, 300), core.fmt_exc(exc))))
        return
    if not isinstance(t1, str):
        fails.append((prefix + "print-not-text", repr(type(t1))))
        return
    errs = validator_errors(t1, ver)
    got = None
    if not errs:
        try:
            got = P.canon(P.parse(t1, ver))
        except P.PatternSyntaxError as e:   # the two independent grammars disagree: mine is wrong or theirs is
            raise core.HarnessError("my parser refuses validator-approved library output %r: %s" % (t1, e))
    if errs:
        for feat, key, pred in INVALID_OUTPUT_SIGNATURES:
            if feat in feats and pred(t1):
                fails.append((key, "%s printed as invalid %s (%s)" % (core.short(text, 200), core.short(t1, 200), core.short(errs[0], 120))))
                if level < 12:
                    ast2 = P.strip_feature(ast, feat)
                    check_text(P.to_text(ast2), ast2, ver, fails, prefix, False, level + 1)
                return
        fails.append((prefix + "output-invalid", "%s printed as %s: %s" % (core.short(text, 200), core.short(t1, 200), core.short(errs[0], 160))))
        return
    n0 = len(fails)
    diff(ast, got, fails)
    if len(fails) == n0:    # an output that already differs from the input tree is reported as that; its stability is secondary
        t2, exc = lib_print(t1, ver)
        if exc is not None:
            fails.append((prefix + "output-not-reparsable:%s" % type(exc).__name__, "%s -> %s" % (core.short(t1, 300), core.fmt_exc(exc))))
        elif t2 != t1:
            fails.append((prefix + "not-fixed-point", "%s -> %s" % (core.short(t1, 300), core.short(t2, 300))))
    if require_same_text and len(fails) == n0 and t1 != text:
        fails.append((prefix + "reprint-differs", "str(model)=%s but parse+print gives %s" % (core.short(text, 300), core.short(t1, 300))))


def check_text_case(case):
    """-> list of failures, or None when the generated text is outside the domain (validator refuses it)."""
    ver = case.get("ver", "2.1")
    if "ast" in case:
        ast = case["ast"]
        text = P.to_text(ast, case.get("sty"))
        try:
            back = P.parse(text, ver)
        except P.PatternSyntaxError as e:
            raise core.HarnessError("printer/parser disagree on %r: %s" % (text, e))
        if P.canon(back) != P.canon(ast):
            raise core.HarnessError("printer/parser round trip differs on %r" % (text,))
    else:                                   # hand-written witness: the expected tree comes from my parser
        text = case["text"]
        ast = P.parse(text, ver)
    if validator_errors(text, ver):
        return None
    fails = []
    if case.get("pre") == "equivalence":
        # history: the very same text went through the equivalence functions earlier in this process (they parse it and normalise
        # the tree they get IN PLACE).  What they answer is C09's business; a later parse of the text must be unaffected.
        from stix2.equivalence.pattern import equivalent_patterns, find_equivalent_patterns
        core.guarded_timed(20, equivalent_patterns, text, text, stix_version=ver)
        core.guarded_timed(20, lambda: list(find_equivalent_patterns(text, [text], stix_version=ver)))
    elif case.get("pre") == "edit-earlier-model":
        # the caller edits the object model an EARLIER parse of the same text returned (sorting / dropping operands)
        from stix2.pattern_visitor import create_pattern_object
        earlier, exc = core.guarded(create_pattern_object, text, version=ver)
        if exc is None:
            _scramble(earlier)
    check_text(text, ast, ver, fails)
    return fails


def _scramble(node, depth=0):
    """In-place edits of a model the caller owns: reverse operand lists, drop all but the first operand."""
    if depth > 50:
        return
    ops = getattr(node, "operands", None)
    if isinstance(ops, list) and ops:
        for o in ops:
            _scramble(o, depth + 1)
        ops.reverse()
        del ops[1:]
    for attr in ("operand", "expression", "observation_expression"):
        sub = getattr(node, attr, None)
        if sub is not None and not isinstance(sub, (str, int, float)):
            _scramble(sub, depth + 1)


# ---- model family ----------------------------------------------------------------

def _m_const(c, raw):
    import stix2.patterns as M
    k = c["c"]
    if k == "int":
        return c["v"] if raw else M.IntegerConstant(c["v"])
    if k == "float":
        return float(c["sp"]) if raw else M.FloatConstant(c["sp"])
    if k == "str":
        return M.StringConstant(c["v"])
    if k == "bool":
        return c["v"] if raw else M.BooleanConstant(c["v"])
    if k == "ts":
        if raw and P.ts_frac_digits(c["v"]) <= 6:
            m = P.TS_RE.match(c["v"])
            us = int(((m.group(7) or "") + "000000")[:6])
            return M.TimestampConstant(dt.datetime(int(m.group(1)), int(m.group(2)), int(m.group(3)), int(m.group(4)), int(m.group(5)), int(m.group(6)), us))
        return M.TimestampConstant(c["v"])
    if k == "hex":
        return M.HexConstant(c["v"])
    if k == "bin":
        return M.BinaryConstant(c["v"])
    if k == "hash":
        return M.HashConstant(c["v"], c["alg"])
    if k == "set":
        return M.ListConstant([_m_const(x, raw and x["c"] in ("int", "bool", "float")) for x in c["items"]])
    raise ValueError(k)


def _m_path(p, mode):
    import stix2.patterns as M
    steps = p["steps"]
    comps = []
    i = 0
    while i < len(steps):
        s = steps[i]
        nxt = steps[i + 1] if i + 1 < len(steps) else None
        if nxt is not None and nxt["s"] == "idx":
            comps.append(("list", s["n"], nxt["i"]))
            i += 2
        else:
            comps.append(("ref" if s["n"].endswith("_ref") else "basic", s["n"], None))
            i += 1
    if mode == 2:   # "type:a.b[0].c" handed over as one string
        return "%s:%s" % (p["t"], ".".join(n if kind != "list" else "%s[%s]" % (n, idx) for kind, n, idx in comps))
    out = []
    for kind, n, idx in comps:
        if mode == 1:   # explicit component objects
            out.append(M.ListObjectPathComponent(n, idx) if kind == "list" else M.ReferenceObjectPathComponent(n) if kind == "ref"
                       else M.BasicObjectPathComponent(n, False))
        else:           # strings, as in the user guide: "sections[*]"
            out.append(n if kind != "list" else "%s[%s]" % (n, idx))
    return M.ObjectPath(p["t"], out)


_CMP_CLASSES = {"=": "EqualityComparisonExpression", "<": "LessThanComparisonExpression", "<=": "LessThanEqualComparisonExpression",
                ">": "GreaterThanComparisonExpression", ">=": "GreaterThanEqualComparisonExpression", "IN": "InComparisonExpression",
                "LIKE": "LikeComparisonExpression", "MATCHES": "MatchesComparisonExpression", "ISSUBSET": "IsSubsetComparisonExpression",
                "ISSUPERSET": "IsSupersetComparisonExpression"}


def build_model(n, sty, parent_prec=0):
    """My AST -> stix2.patterns objects; ParentheticalExpression exactly where grouping needs it (+ a few redundant ones).
    Returns (object, bare) with bare as in gen.patterns._obs_tokens."""
    import stix2.patterns as M
    k = n["k"]
    bare = None
    if k == "cmp":
        cls = getattr(M, _CMP_CLASSES[n["op"]])
        rhs = n["rhs"]
        raw = sty.pick(3) == 1
        obj = cls(_m_path(n["path"], sty.pick(3)), _m_const(rhs, raw and rhs["c"] in ("int", "bool", "float")), negated=True) if n["neg"] \
            else cls(_m_path(n["path"], sty.pick(3)), _m_const(rhs, raw and rhs["c"] in ("int", "bool", "float")))
        prec = 3
    elif k == "exists":
        obj = M.ExistsComparisonExpression(_m_path(n["path"], sty.pick(3)), n["neg"]) if n["neg"] else M.ExistsComparisonExpression(_m_path(n["path"], sty.pick(3)))
        prec = 3
    elif k in ("and", "or"):
        prec = P.CMP_PREC[k]
        ops = [build_model(a, sty, prec + 0.5)[0] for a in n["args"]]
        obj = (M.AndBooleanExpression if k == "and" else M.OrBooleanExpression)(ops)
    elif k == "obs":
        obj = M.ObservationExpression(build_model(n["e"], sty, 0)[0])
        prec, bare = 4, set()
    elif k == "qual":
        inner, ibare = build_model(n["e"], sty, 4)
        q = n["q"]
        if ibare is not None and q["q"] in ibare:
            inner, ibare = M.ParentheticalExpression(inner), None
        if q["q"] == "repeats":
            qual = M.RepeatQualifier(q["n"]["v"] if sty.pick(2) else M.IntegerConstant(q["n"]["v"]))
        elif q["q"] == "within":
            qual = M.WithinQualifier(q["n"]["v"] if sty.pick(2) else M.IntegerConstant(q["n"]["v"]))
        else:
            qual = M.StartStopQualifier(_m_const(q["a"], sty.pick(2)), _m_const(q["b"], sty.pick(2)))
        obj = M.QualifiedObservationExpression(inner, qual)
        prec = 4
        bare = None if ibare is None else ibare | {q["q"]}
    else:
        prec = P.OBS_PREC[k]
        ops = [build_model(a, sty, prec + 0.5)[0] for a in n["args"]]
        obj = {"oand": M.AndObservationExpression, "oor": M.OrObservationExpression, "ofb": M.FollowedByObservationExpression}[k](ops)
    need = prec < parent_prec
    extra = 1 if (sty.seq and sty.pick(7) == 1) else 0
    if need or extra:
        bare = None
    for _ in range((1 if need else 0) + extra):
        obj = M.ParentheticalExpression(obj)
    return obj, bare


def _model_expected(ast):
    """The tree the text must parse to: hash constants are strings."""
    def fix(c):
        return {"c": "str", "v": c["v"]} if c["c"] == "hash" else c
    return P._map_consts(ast, fix)


def _model_unquotable(ast):
    return any(s["s"] == "key" and P.step_needs_quotes(s["n"]) and "-" not in s["n"]
               for n in P.walk(ast) if n["k"] in ("cmp", "exists") for s in n["path"]["steps"])


def check_model_case(case):
    ast = case["model"]
    ver = case.get("ver", "2.1")
    if any(n["k"] == "exists" for n in P.walk(ast)):
        ver = "2.1"                         # EXISTS is a 2.1 construct: its printout is judged by the 2.1 grammar
    feats = P.features(_model_expected(ast))
    if _model_unquotable(ast):
        feats.add("quoted-step-needs-quotes")
    built, exc = core.guarded(lambda: build_model(ast, P.Style(case.get("sty")))[0])
    if exc is not None:
        if core.lib_frame(exc) is None:
            raise exc                       # my builder is wrong
        if "ts-frac>6" in feats and isinstance(exc, ValueError) and "Must be a datetime object or timestamp string" in str(exc):
            return [("crash:timestamp-more-than-6-fraction-digits", "model construction: %s" % core.fmt_exc(exc))]
        return [("model:construction-refused:%s@%s" % (type(exc).__name__, core.lib_frame(exc)), "%s: %s" % (core.short(ast, 300), core.fmt_exc(exc)))]
    text, exc = core.guarded(str, built)
    if exc is not None:
        return [("model:print-crash:%s" % type(exc).__name__, core.fmt_exc(exc))]
    exp = _model_expected(ast)
    fails = []
    errs = validator_errors(text, ver)
    if errs:
        for feat, key, pred in INVALID_OUTPUT_SIGNATURES:
            if feat in feats and feat != "exists" and pred(text):
                return [(key, "model prints invalid %s (%s)" % (core.short(text, 200), core.short(errs[0], 120)))]
        return [("model:output-invalid", "model prints %s: %s" % (core.short(text, 300), core.short(errs[0], 160)))]
    try:
        mine = P.canon(P.parse(text, ver))
    except P.PatternSyntaxError as e:
        raise core.HarnessError("my parser refuses validator-approved model output %r: %s" % (text, e))
    n0 = len(fails)
    diff(exp, mine, fails)
    for i in range(n0, len(fails)):
        fails[i] = ("model:" + fails[i][0] if not fails[i][0].startswith("quoted-step") else fails[i][0], "printing: " + fails[i][1])
    if len(fails) == n0:
        check_text(text, exp, ver, fails, prefix="model:", require_same_text=True)
    return fails


# ---- model-family strategy ---------------------------------------------------------
_M_NAMES = ["name", "value", "size", "extensions", "windows-pebinary-ext", "sections", "entropy", "dst_ref", "parent_directory_ref", "path", "k-2",
            "SHA-256", "x_y", "A", "_p", "hashes_x", "values", "data", "key", "a-b-c", "b", "resolves_to_refs", "Z9", "x-1"]
_M_NAMES_ODD = ["0abc", "9", "AND", "true", "LIKE", "3des", "IN"]     # legal STIX dictionary keys that need quoting in a pattern
_M_TYPES = ["file", "domain-name", "network-traffic", "process", "win-registry-key", "x-custom", "a", "email-message", "url", "b"]
_m_name = st.sampled_from(_M_NAMES * 4 + _M_NAMES_ODD)
_m_idx = st.sampled_from(["*", "*", 0, 1, 2, 10])
_m_float = P.pool_float
_m_hex = st.sampled_from([x for x in P.HEX_POOL if x["v"]])
_m_ts = st.one_of(st.sampled_from(P.TS_POOL), P.ts_text(6).map(lambda v: {"c": "ts", "v": v}))
_m_str = st.one_of(P.pool_str, P.pool_str, P.str_const)
_m_int = st.sampled_from([x for x in P.INT_POOL if not x.get("sp")])
_m_prim = st.one_of(_m_int, _m_float, _m_str, _m_str, _m_ts, _m_hex, P.pool_bin, P.pool_bool)
_m_ord = st.one_of(_m_int, _m_float, _m_str, _m_ts, _m_hex, P.pool_bin)
_m_set = st.lists(_m_prim, max_size=4).map(lambda items: {"c": "set", "items": items})
_M_OPS = [op for op in P.OPS if op != "!="] + ["=", "="]
_I2, _I4, _I10, _I12, _I30 = (st.integers(0, k - 1) for k in (2, 4, 10, 12, 30))
_M_ARITY = st.sampled_from([2, 2, 2, 3])
_M_DEPTH = st.sampled_from([0, 0, 1, 1, 2])
_M_NQ = st.sampled_from([0, 0, 0, 0, 0, 1, 1, 2, 3])
_M_REP = st.sampled_from([1, 2, 3, 5, 10, 1000])
_M_SECS = st.sampled_from([1, 5, 60, 300, 180, 86400])
_M_TYPE = st.sampled_from(_M_TYPES)
_M_OOP = st.sampled_from(["oand", "oor", "ofb"])


def _mg_path(draw, t):
    steps = [{"s": "key", "n": draw(_m_name), "q": False}]
    for _ in range(draw(st.sampled_from([0, 0, 0, 1, 1, 2, 3]))):
        if draw(_I4) == 0 and steps[-1]["s"] == "key":
            steps.append({"s": "idx", "i": draw(_m_idx)})
        else:
            steps.append({"s": "key", "n": draw(_m_name), "q": False})
    for s in steps:
        if s["s"] == "key":
            s["q"] = not P.plain_ident(s["n"])
    return {"t": t, "steps": steps}


def _mg_cmp(draw, t):
    r = draw(_I30)
    if r == 0 and t == "file":
        p, val = P.HASH_PATHS[draw(_I2)]
        alg = p["steps"][1]["n"]
        return {"k": "cmp", "path": p, "op": "=", "neg": bool(draw(_I2)), "rhs": {"c": "hash", "v": val, "alg": alg}}
    if r == 1 or r == 2:
        return {"k": "exists", "path": _mg_path(draw, t), "neg": r == 2}       # printed for 2.1 only (see check_model_case)
    op = _M_OPS[r % len(_M_OPS)]
    rhs = draw(_m_prim if op == "=" else _m_ord if op in P.ORDER_OPS else _m_set if op == "IN" else _m_str)
    return {"k": "cmp", "path": _mg_path(draw, t), "op": op, "neg": draw(_I10) < 3, "rhs": rhs}


def _mg_cexpr(draw, depth, t):
    if depth <= 0 or draw(_I10) < 4:
        return _mg_cmp(draw, t)
    return {"k": "and" if draw(_I2) else "or", "args": [_mg_cexpr(draw, depth - 1, t) for _ in range(draw(_M_ARITY))]}


def _mg_oexpr(draw, depth):
    r = draw(_I10)
    if depth <= 0 or r < 3:
        n = {"k": "obs", "e": _mg_cexpr(draw, draw(_M_DEPTH), draw(_M_TYPE))}
    elif r < 8:
        n = {"k": draw(_M_OOP), "args": [_mg_oexpr(draw, depth - 1) for _ in range(draw(_M_ARITY))]}
    else:
        n = _mg_oexpr(draw, depth - 1)
    for _ in range(draw(_M_NQ)):
        r = draw(_I12)
        if r < 4:
            q = {"q": "repeats", "n": {"c": "int", "v": draw(_M_REP)}}
        elif r < 8:
            q = {"q": "within", "n": {"c": "int", "v": draw(_M_SECS)}}
        else:
            q = {"q": "startstop", "a": draw(_m_ts), "b": draw(_m_ts)}
        n = {"k": "qual", "e": n, "q": q}
    return n


@st.composite
def model_case(draw):
    ast = _mg_oexpr(draw, draw(_M_DEPTH))
    return {"model": ast, "sty": draw(st.lists(st.integers(0, 9), max_size=16)), "ver": "2.1" if draw(_I4) else "2.0"}


# ---- runner ------------------------------------------------------------------------------

def check_case(case):
    if "model" in case:
        return check_model_case(case)
    return check_text_case(case)


def _classes(case, ast):
    f = P.features(ast)
    cl = sorted(x for x in f if not x.startswith("set:"))
    cl.append("family:model" if "model" in case else "family:text")
    cl.append("ver:" + case.get("ver", "2.1"))
    if case.get("sty"):
        cl.append("layout:randomised")
    if case.get("pre"):
        cl.append("history:" + case["pre"])
    cl.append("depth:%d" % min(P.depth(ast), 6))
    return f, cl


REQUIRED_CLASSES = ["NOT", "step:quoted", "step:index", "step:star", "step:ref", "qual:repeats", "qual:within", "qual:startstop", "qual:stacked",
                    "obs:AND", "obs:OR", "obs:FOLLOWEDBY", "bool:and", "bool:or", "exists", "str:needs-escape", "family:model", "ver:2.0",
                    "layout:randomised", "history:equivalence", "history:edit-earlier-model"] + ["op:" + o for o in P.OPS] + ["const:" + c for c in ("int", "float", "str", "bool", "ts", "hex", "bin", "set")]


def run(ctx):
    ctx.rule = ("Text family: ASTs drawn from the stix2-patterns 2.1.2 grammar (2.0 variant for 1 in 5) with unrestricted vocabulary -- hyphenated/"
                "keyword-like type names, quoted steps (spaces, dots, quotes, keywords, empty), indices, [*], _ref steps, every constant kind and "
                "spelling (+5, .5, 0-9 fraction digits, hex case, escapes, non-ASCII), all 11 operators with and without NOT, EXISTS, AND/OR trees, "
                "AND/OR/FOLLOWEDBY trees, stacked qualifiers -- printed by my printer with drawn whitespace/comments/redundant parentheses and "
                "accepted by the third-party validator.  Model family: the same kinds of tree assembled through stix2.patterns classes (names from "
                "the STIX key alphabet).  Non-trivial = at least one NOT, quoted/indexed step or constant needing escapes, and nesting depth >= 3 "
                "(operator tree over observation over comparison); distinct = distinct case (tree + layout).")
    ctx.assumptions = ["the third-party stix2-patterns 2.1.2 validator decides validity of inputs and outputs",
                       "gen/patterns.py parser is a faithful reading of the same grammar (self-tested; cross-checked against the validator on every case)",
                       "timestamps are valid calendar instants with seconds <= 59; list indices are non-negative; qualifier arguments positive"]
    seen = {"n": 0, "rejected": 0}

    def body(case):
        fails = check_case(case)
        seen["n"] += 1
        if fails is None:
            seen["rejected"] += 1
            ctx.exclude(VALID_INPUT_NOTE)
            return
        ast = _model_expected(case["model"]) if "model" in case else case["ast"]
        f, cl = _classes(case, ast)
        ctx.note(case, P.nontrivial_c10(ast, f), cl)
        ctx.handle(case, fails)

    core.run_given(ctx, P.text_case(), body, ctx.n(3600, 19000), label="c10-text")
    core.run_given(ctx, model_case(), body, ctx.n(1400, 6500), label="c10-model")
    ctx.notes["generator_rejected_by_validator"] = seen["rejected"]
    if seen["rejected"] > 0.01 * max(seen["n"], 1):
        raise core.HarnessError("pattern generator unhealthy: %d of %d texts rejected by the third-party validator" % (seen["rejected"], seen["n"]))
    total = max(ctx.evaluations, 1)
    if total >= 1000:
        core.health(ctx, REQUIRED_CLASSES, total=total)


def replay(case):
    return check_case(case) or []


def selftest():
    try:
        P.selftest()
    except AssertionError as e:
        raise core.HarnessError("gen/patterns self-test: %r" % (e,))
    # the reference grammar refuses/accepts what my parser refuses/accepts on a fixed list
    for text, ok in [("[a:b = 1]", True), ("[a:b.'c d'[*] NOT LIKE 'x\\'y']", True), ("[a:b = 1e5]", False), ("[a:b=1] and [a:b=2]", False),
                     ("[a:b IN ()] REPEATS 2 TIMES WITHIN 1.5 SECONDS", True), ("[a:AND = 1]", False)]:
        theirs = not validator_errors(text, "2.1")
        try:
            P.parse(text)
            mine = True
        except P.PatternSyntaxError:
            mine = False
        if theirs != ok or mine != ok:
            raise core.HarnessError("grammar cross-check: %r expected %s, validator %s, my parser %s" % (text, ok, theirs, mine))
