"""C11 -- memory and filesystem stores agree with a plain list over any add history.

A case is one JSON value: a pool of stored versions (plain STIX dicts, several
versions per id with differently spelled `modified` values) and a list of
operations interpreted by `Machine` against three subjects in lock-step: a
MemoryStore, a FileSystemStore on a scratch directory, and oracle.storemodel.ListModel.

    {"bundlify": bool, "pool": [obj, ...], "init": null | {"form", "items", "sub"},
     "ops": [{"op": "add", "form": F, "items": [i, ...], "sub": [f, ...]},
             {"op": "saveload", "target": "file" | "dir"},      # save_to_file -> fresh MemoryStore().load_from_file
             {"op": "reopen"},                                   # fresh FileSystemSource on the same directory
             {"op": "side", "kind": "source" | "sink", ...},      # standalone MemorySource / MemorySink
             {"op": "query", "filters": [...]}]}

Item indices are taken modulo the pool size.  Input forms F: object, dict, json
(one add() per item), list (mixed member forms `sub`), bundle-object,
bundle-dict, bundle-json.
"""
import copy
import os

from hypothesis import strategies as st

from gen import stores as G
from harness import core
from oracle import storemodel as M
from props import storecommon as S

FORMS = ["object", "dict", "json", "list", "bundle-object", "bundle-dict", "bundle-json"]


def _items(case, op):
    pool = case["pool"]
    return [pool[i % len(pool)] for i in op.get("items", [])] if pool else []


class Machine(object):
    def __init__(self, case, tmp, fails):
        import stix2
        self.stix2 = stix2
        self.case = case
        self.tmp = tmp
        self.fails = fails
        self.pool = case["pool"]
        self.ids = []
        for o in self.pool:
            if o["id"] not in self.ids:
                self.ids.append(o["id"])
        self.model = M.ListModel()
        self.fs_keys = set()
        self.fs_dir = os.path.join(tmp, "fs")
        os.mkdir(self.fs_dir)
        self.fs = stix2.FileSystemStore(self.fs_dir, allow_custom=True, bundlify=bool(case.get("bundlify")))
        self.fs_source = self.fs.source
        self.nsave = 0
        self.refusals = 0
        self.nbundle = 0
        self.mem = None

    # ---- feeding the subjects ---------------------------------------------------------------
    def _value(self, items, form, sub):
        self.nbundle += 1
        val, exc = core.guarded(S.as_form, items, form, sub, self.nbundle)
        if exc is not None:
            if core.lib_frame(exc) is None:
                raise exc
            self.fails.append(("crash:build-input:%s" % type(exc).__name__, "building %s form of %s: %s" % (form, S.describe(items), core.fmt_exc(exc))))
            return None
        return val

    def _groups(self, items, form):
        return [[o] for o in items] if form in S.SINGLE_FORMS else [items]

    def _mem_call(self, fn, items, form, sub, who):
        """fn(value) with the documented-JSON-text fallback; returns fn's value or None."""
        val = self._value(items, form, sub)
        if val is None:
            val, form = copy.deepcopy(items), "list"
        out, exc = core.guarded(fn, val)
        if exc is None:
            return out
        if isinstance(exc, TypeError) and S.form_has_json(form, sub, len(items)) and core.lib_frame(exc):
            self.fails.append(("memory-json-text", "%s(<%s form of %s>) raised %s at %s; the Memory guide lists JSON-encoded strings as an input form" % (
                who, form, S.describe(items), core.fmt_exc(exc), core.lib_frame(exc))))
        else:
            if core.lib_frame(exc) is None:
                raise exc
            self.fails.append(("crash:%s:%s" % (who, type(exc).__name__), "%s(<%s form of %s>) raised %s at %s" % (
                who, form, S.describe(items), core.fmt_exc(exc), core.lib_frame(exc))))
        out, exc = core.guarded(fn, copy.deepcopy(items))   # keep the subject in step with the model
        if exc is not None:
            if core.lib_frame(exc) is None:
                raise exc
            self.fails.append(("crash:%s:%s" % (who, type(exc).__name__), "%s(<list of dicts %s>) raised %s" % (who, S.describe(items), core.fmt_exc(exc))))
        return out

    def mem_add(self, items, form, sub):
        for grp in self._groups(items, form):
            self._mem_call(self.mem.add, grp, form, sub, "MemoryStore.add")

    def fs_add(self, items, form, sub):
        from stix2.datastore import DataSourceError
        for grp in self._groups(items, form):
            val = self._value(grp, form, sub)
            if val is None:
                val, form = copy.deepcopy(grp), "list"
            _, exc = core.guarded(self.fs.add, val)
            if exc is not None and core.lib_frame(exc) is None:
                raise exc
            # what the documented behaviour allows: members are written in order; an existing (id, version) may be refused
            refused_at = None
            sim = set(self.fs_keys)
            for j, o in enumerate(grp):
                if M.key_of(o) in sim:
                    refused_at = j
                    break
                sim.add(M.key_of(o))
            if exc is None:
                self.fs_keys.update(M.key_of(o) for o in grp)
                continue
            if isinstance(exc, DataSourceError) and refused_at is not None:
                self.fs_keys = sim
                self.refusals += 1
                rest = grp[refused_at + 1:]
            else:
                key = "filesystem:refused-new-version" if isinstance(exc, DataSourceError) else "crash:FileSystemStore.add:%s" % type(exc).__name__
                self.fails.append((key, "FileSystemStore.add(<%s form of %s>) raised %s; stored so far %d versions" % (
                    form, S.describe(grp), core.fmt_exc(exc), len(self.fs_keys))))
                rest = grp
            unknown = rest is grp   # after an unexpected exception we do not know how far the call got
            for o in rest:   # the call was abandoned half way: bring the directory in step with the model, one object at a time
                if M.key_of(o) in self.fs_keys:
                    continue
                _, exc2 = core.guarded(self.fs.add, copy.deepcopy(o))
                if exc2 is None:
                    self.fs_keys.add(M.key_of(o))
                elif core.lib_frame(exc2) is None:
                    raise exc2
                elif unknown and isinstance(exc2, DataSourceError):
                    self.fs_keys.add(M.key_of(o))   # was written by the abandoned call
                else:
                    key = "filesystem:refused-new-version" if isinstance(exc2, DataSourceError) else "crash:FileSystemStore.add:%s" % type(exc2).__name__
                    self.fails.append((key, "FileSystemStore.add(%s) raised %s although that (id, version) is not stored" % (S.describe([o]), core.fmt_exc(exc2))))

    # ---- observing ------------------------------------------------------------------------------
    def _call(self, who, fn, *a):
        out, exc = core.guarded(fn, *a)
        if exc is not None:
            if core.lib_frame(exc) is None:
                raise exc
            self.fails.append(("crash:%s:%s" % (who, type(exc).__name__), "%s%r raised %s at %s" % (who, a[:1], core.fmt_exc(exc), core.lib_frame(exc))))
            return None, True
        return out, False

    def verify(self, subject, source, model, ids, ctx_text, whole=True):
        for sid in ids:
            exp = model.latest(sid)
            got, bad = self._call(subject + ".get", source.get, sid)
            if not bad:
                self._check_get(subject, sid, got, exp, model, ctx_text)
            got, bad = self._call(subject + ".all_versions", source.all_versions, sid)
            if not bad:
                S.compare_answer("%s.all_versions(%s)" % (subject, sid), got, model.versions(sid), self.fails, subject + ":all-versions", ctx_text)
        if whole:
            got, bad = self._call(subject + ".query", source.query)
            if not bad:
                S.compare_answer("%s.query()" % subject, got, model.objs, self.fails, subject + ":query-all", ctx_text)

    def _check_get(self, subject, sid, got, exp, model, ctx_text):
        if exp is None:
            if got is not None:
                self.fails.append((subject + ":get-phantom", "%s.get(%s) returned %s, nothing with that id was added %s" % (subject, sid, S.describe([S.plain(got)]), ctx_text)))
            return
        if got is None:
            self.fails.append((subject + ":get-missing", "%s.get(%s) returned None, expected %s %s" % (subject, sid, S.describe([exp]), ctx_text)))
            return
        g = S.plain(got)
        if M.canon(g) == M.canon(exp):
            return
        vs = model.versions(sid)
        if any(M.canon(g) == M.canon(v) for v in vs):
            key = subject + ":get-not-latest"
            if G.is_dict_kept(exp) and G.text_order_differs(vs) and g.get("modified") == max(v["modified"] for v in vs):
                key = "dict-latest-by-text:" + ("filesystem" if subject == "filesystem" else "memory")
        else:
            key = subject + ":get-content-changed"
        self.fails.append((key, "%s.get(%s) returned modified=%s, the latest stored version is modified=%s (stored: %s) %s" % (
            subject, sid, g.get("modified"), exp.get("modified"), [v.get("modified") for v in vs], ctx_text)))

    def run_query(self, filters, ctx_text):
        exp = self.model.query(filters)
        fl, exc = core.guarded(S.mk_filters, filters)
        if exc is not None:
            if core.lib_frame(exc) is None:
                raise exc
            self.fails.append(("crash:Filter:%s" % type(exc).__name__, "%r: %s" % (filters, core.fmt_exc(exc))))
            return
        for subject, src in (("memory", self.mem.source), ("filesystem", self.fs_source)):
            got, bad = self._call(subject + ".query", src.query, fl)
            if not bad:
                S.compare_answer("%s.query(%s)" % (subject, core.short(filters, 300)), got, exp, self.fails, subject + ":query", ctx_text)

    # ---- the history --------------------------------------------------------------------------------
    def run(self):
        stix2 = self.stix2
        init = self.case.get("init")
        if init and self.pool:
            items = _items(self.case, init)
            if init["form"] in S.SINGLE_FORMS:
                items = items[:1]
            self.mem = self._mem_call(lambda v: stix2.MemoryStore(stix_data=v), items, init["form"], init.get("sub"), "MemoryStore(stix_data)")
            if self.mem is None:
                self.mem = stix2.MemoryStore()
                self.mem_add(items, "dict", None)
            self.fs_add(items, init["form"], init.get("sub"))
            for o in items:
                self.model.add(o)
            self.verify("memory", self.mem.source, self.model, self.ids, "after MemoryStore(stix_data=<%s>)" % init["form"])
            self.verify("filesystem", self.fs_source, self.model, sorted({o["id"] for o in items}), "after initial add")
        else:
            self.mem = stix2.MemoryStore()
        for n, op in enumerate(self.case["ops"]):
            kind = op["op"]
            ctx_text = "(after step %d: %s)" % (n, kind if kind != "add" else "add %s" % op["form"])
            if kind == "add":
                items = _items(self.case, op)
                if not items:
                    continue
                self.mem_add(items, op["form"], op.get("sub"))
                self.fs_add(items, op["form"], op.get("sub"))
                for o in items:
                    self.model.add(o)
                self.verify("memory", self.mem.source, self.model, self.ids, ctx_text)
                self.verify("filesystem", self.fs_source, self.model, sorted({o["id"] for o in items}), ctx_text)
            elif kind == "saveload":
                self.saveload(op, ctx_text)
            elif kind == "reopen":
                src, bad = self._call("FileSystemSource", lambda d: stix2.FileSystemSource(d, allow_custom=True), self.fs_dir)
                if not bad:
                    self.fs_source = src
                    self.verify("filesystem", self.fs_source, self.model, self.ids, "(re-opened FileSystemSource, step %d)" % n)
            elif kind == "side":
                self.side(op, n)
            elif kind == "query":
                self.run_query(op["filters"], ctx_text)
            else:
                raise core.HarnessError("unknown op %r" % kind)
        self.verify("memory", self.mem.source, self.model, self.ids, "(end of history)")
        self.verify("filesystem", self.fs_source, self.model, self.ids, "(end of history)")

    def _save(self, saver, target):
        self.nsave += 1
        arg = os.path.join(self.tmp, "save%d.json" % self.nsave) if target == "file" else os.path.join(self.tmp, "savedir%d" % self.nsave)
        path, bad = self._call("save_to_file", saver, arg)
        if bad:
            return None
        if target == "file":
            return arg if os.path.isfile(arg) else None
        if isinstance(path, str) and os.path.isfile(path):
            return path
        found = [f for f in (os.listdir(arg) if os.path.isdir(arg) else [])]
        return os.path.join(arg, found[0]) if len(found) == 1 else None

    def saveload(self, op, ctx_text):
        path = self._save(self.mem.save_to_file, op["target"])
        if path is None:
            self.fails.append(("save:no-file", "save_to_file(%s target) left no file %s" % (op["target"], ctx_text)))
            return
        new = self.stix2.MemoryStore()
        _, bad = self._call("load_from_file", new.load_from_file, path)
        if bad:
            return
        self.mem = new
        self.verify("reloaded", self.mem.source, self.model, self.ids, "(save_to_file(%s) then load_from_file into a fresh MemoryStore)" % op["target"])

    def side(self, op, n):
        stix2 = self.stix2
        items = _items(self.case, op)
        if not items:
            return
        form, sub = op["form"], op.get("sub")
        if form in S.SINGLE_FORMS:
            first, rest = items[:1], items[1:]
        else:
            first, rest = items, []
        model = M.ListModel(first)
        ids = sorted({o["id"] for o in items})
        if op["kind"] == "source":
            src = self._mem_call(lambda v: stix2.MemorySource(stix_data=v), first, form, sub, "MemorySource(stix_data)")
            if src is None:
                return
            self.verify("memorysource", src, model, ids, "(standalone MemorySource(stix_data=<%s>), step %d)" % (form, n))
            return
        sink = self._mem_call(lambda v: stix2.MemorySink(stix_data=v), first, form, sub, "MemorySink(stix_data)")
        if sink is None:
            return
        for o in rest:
            self._mem_call(sink.add, [o], form, sub, "MemorySink.add")
            model.add(o)
        path = self._save(sink.save_to_file, op.get("target", "file"))
        if path is None:
            self.fails.append(("save:no-file", "MemorySink.save_to_file left no file (step %d)" % n))
            return
        src = stix2.MemorySource()
        _, bad = self._call("load_from_file", src.load_from_file, path)
        if not bad:
            self.verify("sink-roundtrip", src, model, ids, "(MemorySink -> save_to_file -> MemorySource.load_from_file, step %d)" % n)


def check_case(case):
    fails = []
    with S.lib_session(), S.scratch_dir() as tmp:
        S.require_accepted(case["pool"])
        Machine(case, tmp, fails).run()
    # one entry per key is enough for the classifier; keep the first (smallest step)
    seen, out = set(), []
    for k, d in fails:
        if k not in seen:
            seen.add(k)
            out.append((k, d))
    return out


# ---- what a history exercises (pure function of the case) ----------------------------------------------

def analyse(case):
    pool = case["pool"]
    added, forms, cl = [], set(), set()
    dup = False
    seen = set()

    def feed(items, form, sub):
        nonlocal dup
        forms.add(form)
        if form == "list":
            for i in range(len(items)):
                cl.add("list-member:" + (sub or ["dict"])[i % len(sub or ["dict"])])
        for o in items:
            k = M.key_of(o)
            dup = dup or k in seen
            seen.add(k)
            added.append(o)
    if case.get("init") and pool:
        it = _items(case, case["init"])
        feed(it[:1] if case["init"]["form"] in S.SINGLE_FORMS else it, case["init"]["form"], case["init"].get("sub"))
        cl.add("init:MemoryStore(stix_data)")
        cl.add("init-form:" + case["init"]["form"])
    saveload = False
    for op in case["ops"]:
        cl.add("op:" + op["op"])
        if op["op"] == "add" and pool:
            feed(_items(case, op), op["form"], op.get("sub"))
        elif op["op"] == "saveload":
            saveload = True
            cl.add("saveload:" + op["target"])
        elif op["op"] == "side":
            cl.add("side:%s/%s" % (op["kind"], op["form"]))
    ooo = G.out_of_order_ids(added)
    for f in forms:
        cl.add("form:" + f)
    if ooo:
        cl.add("versions-added-out-of-order")
        if any(G.is_dict_kept(o) and o["id"] in ooo for o in added):
            cl.add("out-of-order:dict-kept")
    if dup:
        cl.add("re-add-identical-version")
    if case.get("bundlify"):
        cl.add("bundlify")
    by_id = {}
    for o in added:
        by_id.setdefault(o["id"], []).append(o)
    if any(G.text_order_differs(vs) for vs in by_id.values()):
        cl.add("text-order-differs-from-instant-order")
    cl.update(G.pool_classes(added))
    for op in case["ops"]:
        if op["op"] == "query":
            cl.update("query-" + c for c in G.filter_classes(op["filters"]))
    nontrivial = (bool(ooo) and len(forms) >= 2) or saveload
    return nontrivial, sorted(cl)


# ---- strategy ----------------------------------------------------------------------------------------------

@st.composite
def history(draw):
    pool = draw(G.pool(3, 6, 4, 20))
    idx = st.integers(0, 10 ** 6)
    # plain index lists, or runs of neighbouring indices (versions of one id are neighbours in the pool) in either direction
    runs = st.builds(lambda a, n, rev: list(range(a, a + n))[::-1 if rev else 1], st.integers(0, 40), st.integers(2, 4), st.booleans())
    items = st.one_of(st.lists(idx, min_size=1, max_size=4), runs)
    sub = st.lists(st.sampled_from(["object", "dict", "dict", "json", "bundle-dict", "bundle-object", "bundle-json"]), min_size=1, max_size=3)     # (a list "of any of the previously listed types": bundles too)
    form = st.sampled_from(FORMS)
    add_op = st.fixed_dictionaries({"op": st.just("add"), "form": form, "items": items, "sub": sub})
    ops = st.one_of(
        add_op, add_op, add_op, add_op, add_op, add_op, add_op, add_op, add_op,
        st.fixed_dictionaries({"op": st.just("saveload"), "target": st.sampled_from(["file", "dir"])}),
        st.just({"op": "reopen"}),
        st.fixed_dictionaries({"op": st.just("side"), "kind": st.sampled_from(["source", "sink"]), "form": form,
                               "items": items, "sub": sub, "target": st.sampled_from(["file", "dir"])}),
        st.fixed_dictionaries({"op": st.just("query"), "filters": G.filter_set(pool, 1, 3, no_ts="dict-kept")}),
    )
    stamped = [o for o in pool if not G.is_dict_kept(o) and M.is_ts(o.get("modified"))]
    if stamped:
        # [type = T, modified|created <op> respelled value]: the type filter keeps dictionary-kept objects (open C12 finding) out of reach
        @st.composite
        def ts_query(d):
            t = d(st.sampled_from(stamped))
            path = d(st.sampled_from(["modified", "modified", "created"]))
            # (a datetime instance as the value only where no dictionary-kept object carries the path: decided from the whole pool)
            fl = [{"prop": "type", "op": "=", "value": t["type"]}, d(G.aimed_ts_filter(pool, path, t[path]))]
            return {"op": "query", "filters": fl[::-1] if d(st.booleans()) else fl}
        ops = st.one_of(ops, ops, ops, ops, ops, ops, ts_query())
    init = draw(st.one_of(st.none(), st.none(), st.fixed_dictionaries({"form": form, "items": items, "sub": sub})))
    return {"bundlify": draw(st.sampled_from([False, False, True])), "pool": pool, "init": init,
            "ops": draw(st.lists(ops, min_size=2, max_size=14))}


def run(ctx):
    ctx.rule = ("histories of <= 14 steps (+ optional MemoryStore(stix_data) start) over a pool of 3-6 ids x 1-4 versions (<= 20 stored versions; "
                "2.0 and 2.1 SDO/SROs incl. hyphenated types, 2.1 SCOs, marking-definitions, two harness-registered custom types, unregistered custom "
                "types kept as dicts; modified spelled Z/.000Z/.5Z/.50Z/.123Z/.123456Z...), steps = add in one of 7 documented input forms (object, dict, "
                "JSON text, mixed list, Bundle object, bundle dict, bundle JSON text), save_to_file(file|dir)+load_from_file into a fresh MemoryStore, "
                "re-opened FileSystemSource, standalone MemorySource/MemorySink, filtered query; FileSystemStore with and without bundlify. After every "
                "step get/all_versions for ids and query() are compared with the list model on every subject. Non-trivial = some id had versions added "
                "out of chronological order and >= 2 input forms were used, or the history contains save/load; distinct = distinct case.")
    ctx.assumptions = ["each (id, modified instant) has one content: re-adding means re-adding the identical version",
                       "two versions of an id never share an instant (same instant in two spellings is left undecided by the statement)",
                       "STIX 2.0 registered types use three-digit fractions only (the 2.0 specification allows nothing else)",
                       "DataSourceError on re-adding an existing (id, version) to the filesystem sink is the documented refusal; the rest of that call is then re-fed one by one",
                       "timestamp-valued filters are left to C12"]
    ctx.level = "exploration"

    def body(case):
        fails = check_case(case)
        nt, cl = analyse(case)
        ctx.note(case, nt, cl)
        ctx.handle(case, fails)

    core.run_given(ctx, history(), body, ctx.n(1000, 7000), label="c11-histories")
    ctx.notes["generator-health"] = _health(ctx)


REQUIRED_CLASSES = ["form:" + f for f in FORMS] + ["op:saveload", "op:reopen", "op:side", "op:query", "versions-added-out-of-order",
                                                   "re-add-identical-version", "bundlify", "saveload:file", "saveload:dir", "init:MemoryStore(stix_data)",
                                                   "out-of-order:dict-kept", "text-order-differs-from-instant-order"]


def _health(ctx):
    if ctx.evaluations < 100:
        return "not assessed (%d evaluations)" % ctx.evaluations
    core.health(ctx, REQUIRED_CLASSES)
    return ctx.notes.get("generator_health", "")


def replay(case):
    return check_case(case)


def selftest():
    S.selftest()
