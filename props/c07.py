"""C07 -- data-marking operations form a consistent algebra over (selector, marking) pairs.

A case is one history over a subject (SDO/SRO of STIX 2.0/2.1 whose sibling property
names are character prefixes of one another, as library object or plain dict; or a
marking-definition, which is query-only): add / remove / set / clear with
selectors=None (object level) or 1-3 selectors from the subject's real paths, queries
get_markings / is_marked under every flag combination, and three law probes.  The
reference is the set model of oracle/markmodel.py (MarkState); ancestors and
descendants are taken on the path tree, component-wise.
"""
import collections
import copy
import json

from hypothesis import strategies as st

from gen import subjects as S
from gen.subjects import pick, picks
from harness import core
from oracle import markmodel as mm
from oracle import tsref
from props.c05 import Clock, ser

# ---- restriction of selectors to paths whose validity C08 has not put in question ---------------------------------
# On the pinned tree falsy values, elements equal to an earlier element, paths below embedded library objects and
# upper-case components were refused by the selector validation (C08's findings); those four were repaired
# (77eb352, 75ba437, 73e2263, c1f4ae4) and are no longer excluded.  STILL_QUESTIONED lists the path features whose C08
# finding is open; set RESTRICT_TO_UNQUESTIONED = False (or empty the tuple) to lift the restriction entirely.
RESTRICT_TO_UNQUESTIONED = True
STILL_QUESTIONED = ()


def selector_usable(doc, comps, form):
    """The one predicate that keeps C08's open questions out of C07's histories."""
    if comps[0] in mm.MARKING_PROPS or comps[0] == "modified":
        return False            # these change along the history; not subject content
    if not RESTRICT_TO_UNQUESTIONED:
        return True
    return not (mm.path_features(doc, comps, form) & set(STILL_QUESTIONED))


def usable_selectors(doc, form):
    """-> (usable selector strings, {feature: number of paths left out})"""
    out, dropped = [], {}
    for comps, _ in mm.enum_paths(doc):
        if comps[0] in mm.MARKING_PROPS or comps[0] == "modified":
            continue
        if selector_usable(doc, comps, form):
            out.append(mm.join(comps))
        else:
            for feat in sorted(mm.path_features(doc, comps, form) & set(STILL_QUESTIONED)):
                dropped[feat] = dropped.get(feat, 0) + 1
    return out, dropped


def build(subject, version, form):
    import stix2
    if form == "dict":
        return copy.deepcopy(subject)
    obj, exc = core.guarded(stix2.parse, subject, allow_custom=True, version=version)
    if exc is not None:
        raise core.HarnessError("generator produced a subject the library refuses: %s  %s" % (core.fmt_exc(exc), core.short(subject)))
    return obj


def _marking_args(op_markings, as_object, single, version):
    """Marking argument as the API documents it: id string(s), language tag(s), MarkingDefinition object(s)."""
    import stix2.v20
    import stix2.v21
    vals = []
    for m in op_markings:
        if as_object and mm.kind_of(m) == mm.REF:
            mod = stix2.v20 if version == "2.0" else stix2.v21
            doc = S.marking_definition(version, S.MARKING_IDS.index(m))
            vals.append(mod.MarkingDefinition(**{k: v for k, v in doc.items() if k != "spec_version"}))
        else:
            vals.append(m)
    if single and len(vals) == 1:
        return vals[0]
    return vals


def _selector_args(selectors, single):
    if selectors is None:
        return None
    if single and len(selectors) == 1:
        return selectors[0]
    return list(selectors)


def _call(head, form, op, name, *args, **kw):
    from stix2 import markings
    if form == "dict" or op.get("api") != "method":
        return core.guarded(getattr(markings, name), head, *args, **kw)
    return core.guarded(getattr(head, name), *args, **kw)


def _mutate(head, form, op, version, kind=None, markings=None, selectors="$op"):
    kind = kind or op["op"]
    sel = _selector_args(op["selectors"] if selectors == "$op" else selectors, op.get("single"))
    mk = _marking_args(markings if markings is not None else op.get("markings", []), op.get("as_object"), op.get("single"), version)
    if kind == "add":
        return _call(head, form, op, "add_markings", mk, sel)
    if kind == "remove":
        return _call(head, form, op, "remove_markings", mk, sel)
    if kind == "clear":
        if "marking_ref" in op:
            return _call(head, form, op, "clear_markings", sel, marking_ref=op["marking_ref"], lang=op["lang"])
        return _call(head, form, op, "clear_markings", sel)
    if kind == "set":
        if "marking_ref" in op:
            return _call(head, form, op, "set_markings", mk, sel, marking_ref=op["marking_ref"], lang=op["lang"])
        return _call(head, form, op, "set_markings", mk, sel)
    raise core.HarnessError("unknown mutator %r" % kind)


def _pairs_of(x):
    # a marking that is not text (a definition object left in a plain dict) is compared by its JSON text: it can never equal an identifier
    return [(s, k, m if isinstance(m, str) else "<not-an-identifier>" + json.dumps(m, sort_keys=True, default=str)) for s, k, m in mm.read_pairs(ser(x))]


def _flags(op):
    return {k: op[k] for k in ("inherited", "descendants", "marking_ref", "lang") if k in op}


def _judge_get(model, op, result_list):
    """-> None when the reported markings are what the path tree says, else (key, detail)."""
    got = set(result_list)
    fl = _flags(op)
    sel = op["selectors"]
    allowed = [model.query(sel, object_level_filtered=True, **fl), model.query(sel, object_level_filtered=False, **fl)]
    if got in allowed:
        return None
    by_chars = [model.query(sel, relation="chars", object_level_filtered=True, **fl), model.query(sel, relation="chars", object_level_filtered=False, **fl)]
    detail = "get_markings(%s, %s) = %s, path tree says %s" % (sel, fl, sorted(got), sorted(allowed[0]))
    if (fl.get("inherited") or fl.get("descendants")) and got in by_chars:
        return ("lookup-follows-name-prefix", detail + " (the answer of a character-prefix comparison of selectors)")
    return ("get-markings-wrong", detail)


def run_case(case):
    clock = Clock()
    try:
        return _run(case, clock)
    finally:
        clock.restore()


def _run(case, clock):
    from stix2.exceptions import MarkingNotFoundError, STIXError, TypeNotVersionableError
    version, form, subject = case["version"], case["form"], case["subject"]
    is_md = subject["type"] == "marking-definition"
    fails = []
    classes = ["version:" + version, "form:" + form, "subject:" + ("marking-definition" if is_md else "sdo/sro"), "type:" + subject["type"]]
    t0 = tsref.parse(subject.get("modified", subject["created"]))[0]
    clock.set(t0)
    head = build(subject, version, form)
    prev_doc = ser(head)
    model = mm.MarkState.from_doc(prev_doc)
    if model.pairs != mm.MarkState.from_doc(subject).pairs:
        raise core.HarnessError("subject markings not carried over: %s" % core.short(subject))
    if len(mm.read_pairs(prev_doc)) != len(model.pairs):
        classes.append("subject:pair-listed-twice")
    usable, dropped = usable_selectors({k: v for k, v in subject.items()}, form)
    usable_set = set(usable)
    all_paths = [mm.join(c) for c, _ in mm.enum_paths(subject) if c[0] not in mm.MARKING_PROPS]
    added_on = set()
    nontrivial = False

    def has_prefix_sibling(sel):
        return any(mm.prefix_related_but_not_tree_related(sel, p) for p in all_paths)

    def fail(key, detail, i):
        fails.append((key, "step %d %s: %s" % (i, core.short(cur["op"], 400), detail)))

    cur = {}
    for i, op in enumerate(case["ops"]):
        op = copy.deepcopy(op)
        kind = op["op"]
        if "pick" in op and model.pairs:
            # aim at a pair that is really there (index modulo the current size of the model)
            s, k, m = sorted(model.pairs)[op["pick"] % len(model.pairs)]
            op["selectors"] = None if s == mm.OBJECT else [s]
            if kind == "remove":
                op["markings"] = [m]
            elif kind == "set" and s == mm.OBJECT:
                op["markings"] = [x for x in op["markings"] if mm.kind_of(x) == mm.REF] or [S.MARKING_IDS[0]]
            if s == mm.OBJECT:
                op.pop("marking_ref", None)
                op.pop("lang", None)
            if kind == "is_marked":
                keep = 20 if k == mm.REF else 0       # the type prefix of an id stays
                op["marking"] = {"same": m, "upper": m[:keep] + m[keep:].upper(), "swapcase": m[:keep] + m[keep:].swapcase(), "trailing-space": m + " ",
                                 "chopped": m[:-1]}[op["respell"]]
                op["near_miss"] = op["marking"] != m
                op["as_object"] = bool(op.get("as_object")) and not op["near_miss"]
                if s == mm.OBJECT:
                    op.pop("inherited", None)
                    op.pop("descendants", None)
                else:
                    op.setdefault("inherited", False)
                    op.setdefault("descendants", False)
        cur["op"] = op
        sels = op.get("selectors")
        for s in sels or []:
            if s not in usable_set:
                raise core.HarnessError("selector %r is not a usable path of the subject" % s)
        level = "object" if sels is None else "granular"
        if not is_md:
            prev_exact = tsref.parse(prev_doc["modified"])[0]
            prev_spec = mm.spec_instant(prev_doc["modified"], version)
            clock.set(prev_exact + op.get("clock", 0))

        # ------------------------------------------------------------------ queries
        if kind == "get":
            classes.append("op:get:%s" % level)
            if sels is not None:
                classes.append("get-flags:inh=%d,desc=%d,ref=%d,lang=%d" % (op["inherited"], op["descendants"], op["marking_ref"], op["lang"]))
            r, exc = _call(head, form, op, "get_markings", _selector_args(sels, op.get("single")), **_flags(op))
            if exc is not None:
                fail("query-refused:%s" % type(exc).__name__, "get_markings raised %s" % core.fmt_exc(exc), i)
                continue
            bad = _judge_get(model, op, r)
            if bad:
                fail(bad[0], bad[1], i)
            if sels and (op["inherited"] or op["descendants"]) and any(has_prefix_sibling(s) for s in sels):
                nontrivial = True
                classes.append("query-on-prefix-sibling")
            continue
        if kind == "is_marked":
            classes.append("op:is_marked:%s" % level)
            fl = {k: op[k] for k in ("inherited", "descendants") if k in op}
            if sels is not None:
                classes.append("is_marked-flags:inh=%d,desc=%d,marking=%s" % (op["inherited"], op["descendants"], "none" if op["marking"] is None else mm.kind_of(op["marking"])))
            if "respell" in op and "near_miss" in op:
                classes.append("is_marked:aimed:" + ("near-miss-spelling" if op["near_miss"] else "own-spelling"))
            marg = None if op["marking"] is None else _marking_args([op["marking"]], op.get("as_object"), True, version)
            b, exc = _call(head, form, op, "is_marked", marg, _selector_args(sels, op.get("single")), **fl)
            lst, exc2 = _call(head, form, op, "get_markings", _selector_args(sels, op.get("single")), **fl)
            if exc is not None or exc2 is not None:
                fail("query-refused:%s" % type(exc or exc2).__name__, "is_marked/get_markings raised %s" % core.fmt_exc(exc or exc2), i)
                continue
            want = bool(lst) if op["marking"] is None else (op["marking"] in lst)
            if bool(b) != want:
                detail = "is_marked(%s, %s, %s) = %r but get_markings(same selectors, same flags) = %s" % (op["marking"], sels, fl, b, sorted(lst))
                # root-cause predicate of the known defect: with inherited=True the marking argument is dropped as soon as
                # anything sits on the selector itself or at object level
                trigger = any(p[0] == mm.OBJECT or p[0] in (sels or []) for p in model.pairs)
                if b and op["marking"] is not None and fl.get("inherited") and trigger:
                    fail("is-marked-true-for-unlisted-marking:inherited", detail, i)
                else:
                    fail("is-marked-disagrees-with-get-markings", detail, i)
            bad = _judge_get(model, dict(op, **fl), lst)
            if bad:
                fail(bad[0], bad[1], i)
            if sels and (op["inherited"] or op["descendants"]) and any(has_prefix_sibling(s) for s in sels):
                nontrivial = True
                classes.append("query-on-prefix-sibling")
            continue

        # ------------------------------------------------------------------ law probes (state is not advanced)
        if kind.startswith("law_"):
            if is_md:
                continue
            classes.append("op:" + kind)
            x, sx, y, sy = op["markings"], op["selectors"], op.get("markings2"), op.get("selectors2")
            if kind == "law_idem":
                r1, e1 = _mutate(head, form, op, version, "add", x, sx)
                r2, e2 = _mutate(r1, form, op, version, "add", x, sx) if e1 is None else (None, e1)
                if e2 is not None:
                    fail("law-step-refused:%s" % type(e2).__name__, core.fmt_exc(e2), i)
                elif sorted(_pairs_of(r1)) != sorted(_pairs_of(r2)):
                    fail("add-not-idempotent", "after one add %s, after two %s" % (sorted(_pairs_of(r1)), sorted(_pairs_of(r2))), i)
            elif kind == "law_order":
                ra, e1 = _mutate(head, form, op, version, "add", x, sx)
                ra, e1 = _mutate(ra, form, op, version, "add", y, sy) if e1 is None else (None, e1)
                rb, e2 = _mutate(head, form, op, version, "add", y, sy)
                rb, e2 = _mutate(rb, form, op, version, "add", x, sx) if e2 is None else (None, e2)
                if e1 is not None or e2 is not None:
                    fail("law-step-refused:%s" % type(e1 or e2).__name__, core.fmt_exc(e1 or e2), i)
                elif set(_pairs_of(ra)) != set(_pairs_of(rb)) or set(_pairs_of(ra)) != model.add(x, sx).add(y, sy).pairs:
                    fail("add-order-dependent", "x then y: %s; y then x: %s" % (sorted(_pairs_of(ra)), sorted(_pairs_of(rb))), i)
            elif kind == "law_add_remove":
                fresh = model.add(x, sx).pairs - model.pairs
                if len(fresh) != len(x) * len(sx or [None]):
                    continue            # only defined on pairs that are not there yet
                r1, e1 = _mutate(head, form, op, version, "add", x, sx)
                r2, e2 = _mutate(r1, form, op, version, "remove", x, sx) if e1 is None else (None, e1)
                if e2 is not None:
                    fail("law-step-refused:%s" % type(e2).__name__, core.fmt_exc(e2), i)
                elif set(_pairs_of(r2)) != model.pairs:
                    fail("add-remove-not-identity", "before %s, after add+remove %s" % (sorted(model.pairs), sorted(_pairs_of(r2))), i)
            elif kind == "law_flags":
                # set / clear restricted to one kind of marking, on a selector that is made to carry both kinds first, through the
                # module function and (for objects) the method of the same name: both must equal the model's clear(kinds) [+ add]
                if sx is None:
                    continue
                prep = [S.MARKING_IDS[1]] + ([S.LANGS[0]] if version == "2.1" else [])
                r0, e0 = _mutate(head, form, dict(op, api="function"), version, "add", prep, sx)
                if e0 is not None:
                    fail("law-step-refused:%s" % type(e0).__name__, core.fmt_exc(e0), i)
                    continue
                m0 = model.add(prep, sx)
                for api in (("function", "method") if form == "object" else ("function",)):
                    for mr, lg in ((True, False), (False, True), (True, True)):
                        fop = dict(op, api=api, marking_ref=mr, lang=lg)
                        if op["which"] == "set":
                            exp, gone, on = m0.set(x, sx, mr, lg)
                        else:
                            exp, gone, on = m0.clear(sx, mr, lg)
                        r1, e1 = _mutate(r0, form, fop, version, op["which"], x, sx)
                        classes.append("law_flags:%s:%s:ref=%d,lang=%d" % (op["which"], api, mr, lg))
                        if e1 is not None:
                            nothing = any(not any(p[0] == t for p in gone) for t in sx)
                            if isinstance(e1, MarkingNotFoundError) and nothing:
                                continue
                            fail("law-step-refused:%s" % type(e1).__name__, "%s_markings(%s, marking_ref=%s, lang=%s) via %s: %s" % (op["which"], sx, mr, lg, api, core.fmt_exc(e1)), i)
                        elif set(_pairs_of(r1)) != exp.pairs:
                            fail("flagged-%s-wrong:%s" % (op["which"], api), "%s_markings(%s%s, marking_ref=%s, lang=%s) via %s on %s gave %s, clear-then-add on exactly the selected kinds gives %s" % (
                                op["which"], "" if op["which"] == "clear" else "%s, " % x, sx, mr, lg, api, sorted(m0.pairs), sorted(_pairs_of(r1)), sorted(exp.pairs)), i)
            if ser(head) != prev_doc:
                fail("input-modified", "law probe changed its input", i)
            continue

        # ------------------------------------------------------------------ mutators
        classes.append("op:%s:%s" % (kind, level))
        classes.append("api:" + ("function" if form == "dict" or op.get("api") != "method" else "method"))
        if op.get("as_object"):
            classes.append("marking-as-object")
        if any(mm.kind_of(m) == mm.LANG for m in op.get("markings", [])):
            classes.append("lang-marking")
        if "marking_ref" in op:
            classes.append("%s-flags:ref=%d,lang=%d" % (kind, op["marking_ref"], op["lang"]))
        refusal_ok = False          # MarkingNotFoundError is a documented outcome on this state
        if kind == "add":
            new_model = model.add(op["markings"], sels)
        elif kind == "remove":
            new_model, present, absent = model.remove(op["markings"], sels)
            refusal_ok = bool(absent)
        elif kind == "clear":
            new_model, gone, on = model.clear(sels, op.get("marking_ref", True), op.get("lang", True))
            targets = [mm.OBJECT] if sels is None else sels
            refusal_ok = any(not any(p[0] == t for p in gone) for t in targets)
        elif kind == "set":
            new_model, gone, on = model.set(op["markings"], sels, op.get("marking_ref", True), op.get("lang", True))
            targets = [mm.OBJECT] if sels is None else sels
            refusal_ok = any(not any(p[0] == t for p in gone) for t in targets)
        else:
            raise core.HarnessError("unknown op %r" % kind)
        touched = set([mm.OBJECT] if sels is None else sels)
        if kind == "add":
            added_on |= touched
        elif added_on & touched:
            nontrivial = True
            classes.append("add-then-%s-on-same-selector" % kind)

        new, exc = _mutate(head, form, op, version)
        if ser(head) != prev_doc:
            fail("input-modified", "%s changed the object it was given" % kind, i)
            prev_doc = ser(head)
        if exc is not None:
            if is_md and isinstance(exc, TypeNotVersionableError):
                classes.append("marking-definition-refused")
                continue
            if isinstance(exc, MarkingNotFoundError) and refusal_ok:
                classes.append("nothing-to-remove:refused")
                continue
            if isinstance(exc, STIXError):
                fail("mutator-refused:%s:%s" % (kind, type(exc).__name__), core.fmt_exc(exc), i)
            else:
                fail("crash:%s" % type(exc).__name__, "%s at %s" % (core.fmt_exc(exc), core.lib_frame(exc)), i)
            continue
        d = ser(new)
        odd = [m for m in (d.get("object_marking_refs") or []) if not isinstance(m, str)] + \
              [gm for gm in (d.get("granular_markings") or []) if not isinstance(gm, dict) or not isinstance(gm.get("marking_ref", gm.get("lang")), str)]
        if odd:
            # what the object carries must be marking identifiers / language tags, whatever form the caller passed the marking in
            fail("marking-stored-not-as-identifier:%s:%s" % (kind, level), "%s left %s in the marking properties" % (kind, core.short(odd, 200)), i)
            continue
        pairs = mm.read_pairs(d)
        if is_md:
            if set(pairs) != model.pairs or mm.differing_keys(d, prev_doc, ignore=()):
                fail("marking-definition-versioned", "%s on a marking definition returned a changed object: %s" % (kind, core.short(d, 300)), i)
            continue
        if set(pairs) != new_model.pairs:
            fail("wrong-marking-set:%s:%s" % (kind, level), "pairs %s, model %s (before: %s)" % (sorted(pairs), sorted(new_model.pairs), sorted(model.pairs)), i)
        before_n = collections.Counter(mm.read_pairs(prev_doc))
        if any(n > max(1, before_n[p]) for p, n in collections.Counter(pairs).items()):
            fail("duplicate-pairs", "%s" % sorted(pairs), i)
        for p in mm.MARKING_PROPS:
            if p in d and not d[p]:
                fail("empty-marking-list", "%s = %r" % (p, d[p]), i)
        diff = mm.differing_keys(d, prev_doc, ignore=("modified",) + mm.MARKING_PROPS)
        if diff:
            fail("non-marking-content-changed", "keys %s" % diff, i)
        try:
            new_spec = mm.spec_instant(d["modified"], version)
        except (KeyError, ValueError) as e:
            fail("modified-not-canonical", "%r (%s)" % (d.get("modified"), e), i)
            new_spec = None
        if new_spec is not None:
            changed = set(pairs) != model.pairs
            if new_spec < prev_spec or (changed and new_spec == prev_spec):
                fail("result-not-a-newer-version", "modified %s -> %s although the markings %s" % (prev_doc["modified"], d["modified"], "changed" if changed else "did not change"), i)
            classes.append("result:" + ("new-version" if new_spec > prev_spec else "unchanged-object"))
        # direct laws on the result
        if kind in ("add", "set") and sels:
            r, e = _call(new, form, {}, "get_markings", sels[0])
            if e is not None or not set(op["markings"]) <= set(r):
                fail("added-marking-not-reported", "get_markings(result, %r) = %r after adding %s" % (sels[0], r, op["markings"]), i)
        if kind == "clear" and sels and op.get("marking_ref", True) and op.get("lang", True) and set(pairs) == new_model.pairs:
            r, e = _call(new, form, {}, "get_markings", sels[0])
            if e is None and r:
                fail("cleared-selector-still-marked", "get_markings(result, %r) = %r" % (sels[0], r), i)
        head, prev_doc, model = new, d, mm.MarkState(set(pairs)) if set(pairs) != new_model.pairs else new_model

    info = {"classes": classes, "nontrivial": nontrivial, "dropped": dropped}
    return fails, info


def check_case(case):
    return run_case(case)[0]


# ---- strategies -----------------------------------------------------------------------------------------------------

CLOCKS = [-10 ** 6, 0, 500, 1000, 3600 * 10 ** 6]


@st.composite
def an_op(draw, version, form, usable, related, is_md):
    def selectors(allow_none=True, max_n=3):
        if not usable or (allow_none and draw(st.integers(0, 3)) == 0):
            return None
        pool = related if related and draw(st.booleans()) else usable
        return picks(draw, pool, 1, max_n)

    def markings(sels, max_n=2):
        pool = S.MARKING_IDS + (S.LANGS if version == "2.1" and sels is not None else [])
        if version == "2.1" and sels is not None and draw(st.integers(0, 3)) == 0:
            pool = S.LANGS + S.MARKING_IDS[:1]
        return picks(draw, pool, 1, max_n)

    kind = pick(draw, ["add"] * 5 + ["remove"] * 3 + ["clear"] * 2 + ["set"] * 2 + ["get"] * 5 + ["is_marked"] * 6 +
                                ["law_idem", "law_order", "law_add_remove", "law_flags"])
    op = {"op": kind}
    if form == "object":
        op["api"] = pick(draw, ["function", "method"])
    if kind in ("add", "remove", "set", "clear"):
        op["selectors"] = selectors()
        op["clock"] = pick(draw, CLOCKS)
        op["single"] = draw(st.booleans())
        if kind != "clear":
            op["markings"] = markings(op["selectors"])
            op["as_object"] = draw(st.integers(0, 3)) == 0
        if kind in ("clear", "set") and op["selectors"] is not None and draw(st.booleans()):
            op["marking_ref"], op["lang"] = draw(st.booleans()), draw(st.booleans())
        if kind != "add" and draw(st.booleans()):
            op["pick"] = draw(st.integers(0, 11))
        if kind in ("remove", "add") and draw(st.integers(0, 5)) == 0 and not op.get("single"):
            op["markings"] = op["markings"] + op["markings"][:1]        # the same marking named twice in one call
    elif kind == "get":
        op["selectors"] = selectors(max_n=2)
        op["single"] = draw(st.booleans())
        if op["selectors"] is not None:
            op.update({"inherited": draw(st.booleans()), "descendants": draw(st.booleans()),
                       "marking_ref": draw(st.integers(0, 2)) != 0, "lang": draw(st.integers(0, 2)) != 0})
    elif kind == "is_marked":
        op["selectors"] = selectors(max_n=2)
        op["single"] = draw(st.booleans())
        pool = S.MARKING_IDS[:3] + (S.LANGS[:2] if version == "2.1" and op["selectors"] is not None else [])
        op["marking"] = None if draw(st.integers(0, 2)) == 0 else pick(draw, pool)
        if op["marking"] is not None and draw(st.integers(0, 2)) == 0:
            # aimed at a pair that is really there -- asked in its own spelling or in a near miss (a marking is "among the markings
            # reported" only in the spelling in which it is reported)
            op["pick"] = draw(st.integers(0, 11))
            op["respell"] = pick(draw, ["same", "same", "upper", "swapcase", "trailing-space", "chopped"])
        op["as_object"] = draw(st.integers(0, 3)) == 0
        if op["selectors"] is not None:
            op.update({"inherited": draw(st.booleans()), "descendants": draw(st.booleans())})
    else:
        op["selectors"] = selectors()
        op["markings"] = markings(op["selectors"], 1 if kind != "law_idem" else 2)
        op["single"] = False
        op["clock"] = pick(draw, CLOCKS)
        if kind == "law_order":
            op["selectors2"] = selectors() if op["selectors"] is not None else None
            op["markings2"] = markings(op["selectors2"], 1)
        if kind == "law_flags":
            op["which"] = pick(draw, ["set", "clear"])
            if op["selectors"] is None and usable:
                op["selectors"] = picks(draw, usable, 1, 2)
                op["markings"] = markings(op["selectors"], 1)
    return op


@st.composite
def history(draw, max_ops=25):
    version = pick(draw, S.VERSIONS)
    form = pick(draw, ["object", "dict"])
    is_md = draw(st.integers(0, 7)) == 0
    if is_md:
        base = S.marking_definition(version, 4)
        if version == "2.1" and draw(st.booleans()):
            base["name"] = "statement one"
    else:
        base = draw(S.prefix_subject(version))
    usable, _ = usable_selectors(base, form)
    rel = set()
    for a in usable:
        for b in usable:
            if a is not b and b.startswith(a):      # a character prefix covers ancestors as well as prefix-named siblings
                rel.add(a)
                rel.add(b)
    related = [s for s in usable if s in rel]
    subject = draw(S.initial_markings(base, version, related or usable))
    ops = draw(st.lists(an_op(version, form, usable, related, is_md), min_size=pick(draw, [1, 3, 8]), max_size=max_ops))
    return {"version": version, "form": form, "subject": subject, "ops": ops}


def run(ctx):
    ctx.rule = ("histories of <= 25 calls over a generated subject: identity / malware / indicator / report / relationship / campaign of STIX 2.0 "
                "and 2.1 with created_by_ref and 1-6 custom properties named name_suffix, labels_x, description_x, created_by, x_map{a,ab,abc,..}, "
                "x_list (sibling names that are character prefixes of one another, nested dictionaries and lists), optionally already "
                "carrying object and granular markings (in a quarter of those not in compressed form: the same pair listed twice); the same as plain dict; and marking-definitions (query only).  Calls: add / remove / "
                "set / clear at object level or on 1-3 real paths (module function or method; marking ids, MarkingDefinition objects, "
                "language tags for 2.1; marking_ref / lang flags), get_markings / is_marked with every inherited / descendants / "
                "marking_ref / lang combination, and idempotence / order / add-remove / kind-restricted set-clear probes (function and method).  Non-trivial = an add followed later by a "
                "remove / clear / set touching the same selector, or an inherited / descendants query on a selector that has a "
                "prefix-related sibling path in the subject; distinct = distinct history.")
    ctx.assumptions = ["oracle/markmodel.py set model and path tree (self-tested)",
                       "remove / clear / set with nothing to remove: MarkingNotFoundError and an unchanged result are both documented",
                       "with inherited=True and marking_ref=False both including and excluding object-level refs is accepted (docs ambiguous)",
                       "is_marked is called with a single marking or none (a list has undocumented any/all semantics)",
                       "selectors are restricted to paths C08 has not put in question (RESTRICT_TO_UNQUESTIONED); excluded paths are counted",
                       "language markings only for 2.1 granular markings (2.0 has none)"]

    def body(case):
        fails, info = run_case(case)
        ctx.note(case, info["nontrivial"], info["classes"])
        for feat, n in info["dropped"].items():
            ctx.exclude("path-not-used:c08-" + feat, n)
        ctx.handle(case, fails)

    core.run_given(ctx, history(), body, ctx.n(2600, 15000), label="c07-histories")
    if not ctx.violations and ctx.evaluations >= 1000:
        need = ["op:%s:%s" % (k, lv) for k in ("add", "remove", "set", "clear", "get", "is_marked") for lv in ("object", "granular")]
        need += ["law_flags:%s:%s:ref=%d,lang=%d" % (w, a, r, g) for w in ("set", "clear") for a in ("function", "method") for r, g in ((1, 0), (0, 1), (1, 1))]
        need += ["op:law_idem", "op:law_order", "op:law_add_remove", "op:law_flags", "form:dict", "form:object", "version:2.0", "version:2.1", "api:method",
                 "api:function", "lang-marking", "marking-as-object", "subject:marking-definition", "query-on-prefix-sibling", "subject:pair-listed-twice"]
        need += ["get-flags:inh=%d,desc=%d,ref=%d,lang=%d" % (a, b, c, d) for a in (0, 1) for b in (0, 1) for c in (0, 1) for d in (0, 1)]
        need += ["is_marked-flags:inh=%d,desc=%d,marking=%s" % (a, b, m) for a in (0, 1) for b in (0, 1) for m in ("none", "ref", "lang")]
        for k in need:
            if ctx.classes.get(k, 0) < max(1, ctx.evaluations // 1000):
                raise core.HarnessError("generator unhealthy: class %s seen %d times in %d cases" % (k, ctx.classes.get(k, 0), ctx.evaluations))


def replay(case):
    return check_case(case)


def selftest():
    try:
        tsref.selftest()
        mm.selftest()
    except AssertionError as e:
        raise core.HarnessError("oracle self-test: %r" % (e,))
