"""C15 -- timestamps are written in canonical form, truncated, order-preserving.

Oracle: oracle/tsref.py (integer calendar arithmetic).  Inputs: datetimes
(naive, fixed offsets, pytz zones), dates, accepted strings, STIXdatetime, across
the 3 precisions x 2 constraints, directly and through TimestampProperty slots
of real object types.
"""
import datetime as dt

from hypothesis import strategies as st

from harness import core
from oracle import tsref

PRECISIONS = ["any", "second", "millisecond"]
CONSTRAINTS = ["exact", "min"]
# wall-clock times that occur twice in their zone: (year, month, day, hour, minute, zone)
AMBIGUOUS = [(2020, 11, 1, 1, 30, "America/New_York"), (2021, 10, 31, 2, 30, "Europe/Berlin"), (2021, 4, 4, 1, 45, "Australia/Lord_Howe"),
             (2019, 11, 3, 1, 0, "America/Chicago"), (2022, 10, 30, 1, 59, "Europe/London"), (2020, 6, 15, 12, 0, "America/New_York")]
ZONES = ["America/New_York", "Asia/Kolkata", "Australia/Lord_Howe", "Europe/London", "Pacific/Kiritimati", "Pacific/Apia"]

# (label, version, class name, base kwargs, property, precision, constraint) -- the precision each slot is
# documented/declared to use; frozen here (2.0 created/modified: exactly 3 digits; 2.1: at least 3).
ID4 = "00000000-0000-4000-8000-000000000001"
SLOTS = [
    ("v20-identity-created", "v20", "Identity", {"name": "x", "identity_class": "individual", "modified": "9999-12-31T23:59:59.999Z"}, "created", "millisecond", "exact"),
    ("v20-identity-modified", "v20", "Identity", {"name": "x", "identity_class": "individual", "created": "0001-01-01T00:00:00.000Z"}, "modified", "millisecond", "exact"),
    ("v21-identity-created", "v21", "Identity", {"name": "x", "modified": "9999-12-31T23:59:59.999Z"}, "created", "millisecond", "min"),
    ("v21-identity-modified", "v21", "Identity", {"name": "x", "created": "0001-01-01T00:00:00.000Z"}, "modified", "millisecond", "min"),
    ("v20-indicator-valid_from", "v20", "Indicator", {"labels": ["x"], "pattern": "[a:b = 1]"}, "valid_from", "any", "exact"),
    ("v21-indicator-valid_from", "v21", "Indicator", {"pattern": "[a:b = 1]", "pattern_type": "stix"}, "valid_from", "any", "exact"),
    ("v21-file-ctime", "v21", "File", {"name": "f"}, "ctime", "any", "exact"),
    ("v21-campaign-first_seen", "v21", "Campaign", {"name": "c"}, "first_seen", "any", "exact"),
    ("v20-report-published", "v20", "Report", {"name": "r", "labels": ["x"], "object_refs": ["identity--" + ID4]}, "published", "any", "exact"),
    ("v21-x509-validity_not_before", "v21", "X509Certificate", {}, "validity_not_before", "any", "exact"),
    ("v21-pe-time_date_stamp", "v21", "WindowsPEBinaryExt", {"pe_type": "exe"}, "time_date_stamp", "second", "exact"),
    ("v20-pe-time_date_stamp", "v20", "WindowsPEBinaryExt", {"pe_type": "exe"}, "time_date_stamp", "second", "exact"),
    # a date / datetime kept as the value of a custom property: no slot cleans it, the JSON encoder writes it as a timestamp
    # (an untagged value with precision "any"; a tagged STIXdatetime with its own tags)
    ("v21-identity-custom-value", "v21", "Identity", {"name": "x", "allow_custom": True}, "x_when", "any", "exact"),
    ("v20-identity-custom-value", "v20", "Identity", {"name": "x", "identity_class": "individual", "allow_custom": True}, "x_when", "any", "exact"),
]


def _mod(ver):
    import stix2.v20
    import stix2.v21
    return stix2.v20 if ver == "v20" else stix2.v21


def build_input(case):
    """Returns (python value handed to the library, utc instant in us) or (None, None) if out of domain."""
    import pytz
    y, mo, d, h, mi, s, us = (case[k] for k in ("y", "mo", "d", "h", "mi", "s", "us"))
    form = case["form"]
    tz = case.get("tz")
    if form == "date":
        return dt.date(y, mo, d), tsref.instant(y, mo, d)
    if form == "string":
        k = case["frac_digits"]
        text = "%04d-%02d-%02dT%02d:%02d:%02d" % (y, mo, d, h, mi, s)
        if k:
            text += "." + ("%06d" % us)[:k]
            us_eff = int((("%06d" % us)[:k] + "000000")[:6])
        else:
            us_eff = 0
        return text + "Z", tsref.instant(y, mo, d, h, mi, s, us_eff)
    naive = dt.datetime(y, mo, d, h, mi, s, us)
    if tz is None:
        val, off = naive, 0
    elif isinstance(tz, int):
        val = naive.replace(tzinfo=dt.timezone(dt.timedelta(minutes=tz)))
        off = tz * 60
    elif tz == "pytz-utc":
        val, off = pytz.utc.localize(naive), 0
    elif "offset_us" in tz:
        # UTC offsets with a sub-minute / sub-second part are legal for datetime.timezone
        val = naive.replace(tzinfo=dt.timezone(dt.timedelta(microseconds=tz["offset_us"])))
        t = tsref.instant(y, mo, d, h, mi, s, us) - tz["offset_us"]
        return (val, t) if tsref.in_range(t) else (None, None)
    elif "zoneinfo" in tz:
        # standard-library zones; a wall-clock time that occurs twice (end of daylight saving time) is told apart by `fold` (PEP 495)
        from zoneinfo import ZoneInfo
        zy, zmo, zd, zh, zmi, zone = AMBIGUOUS[tz["zoneinfo"] % len(AMBIGUOUS)]
        naive = dt.datetime(zy, zmo, zd, zh, zmi, s, us)
        val = naive.replace(tzinfo=ZoneInfo(zone), fold=tz["fold"])
        off = val.utcoffset()
        t = tsref.instant(zy, zmo, zd, zh, zmi, s, us) - (off.days * 86400 + off.seconds) * 10 ** 6 - off.microseconds
        return val, t
    else:
        try:
            val = pytz.timezone(tz["zone"]).localize(naive, is_dst=bool(tz.get("dst")))
        except (OverflowError, ValueError):
            return None, None
        off = int(val.utcoffset().total_seconds())
    t = tsref.instant(y, mo, d, h, mi, s, us, offset_s=off)
    if not tsref.in_range(t):
        return None, None
    return val, t


def check_case(case):
    from stix2 import utils
    fails = []
    val, t = build_input(case)
    if val is None:
        return None
    prec, cons = case["precision"], case["constraint"]
    route = case.get("route", "utils")
    if route == "utils":
        if case["form"] == "stixdt":
            sdt, exc = core.guarded(utils.STIXdatetime, val, precision=prec, precision_constraint=cons)
            # a STIXdatetime built directly carries the precision but is not truncated in memory; the *written* text must be
            if exc is not None:
                return [("crash:STIXdatetime", core.fmt_exc(exc))]
            parsed = sdt
        elif case["form"] == "plain-format":
            parsed = val  # format_datetime on a plain datetime: precision any
            prec, cons = "any", "exact"
        else:
            parsed, exc = core.guarded(utils.parse_into_datetime, val, prec, cons)
            if exc is not None:
                return [("accepted-input-refused", "parse_into_datetime(%r, %s, %s) raised %s" % (val, prec, cons, core.fmt_exc(exc)))]
        out, exc = core.guarded(utils.format_datetime, parsed)
        if exc is not None:
            return [("crash:format_datetime", "%r -> %s" % (val, core.fmt_exc(exc)))]
    else:
        label, ver, clsname, base, prop, prec, cons = [s for s in SLOTS if s[0] == route][0]
        cls = getattr(_mod(ver), clsname)
        kw = dict(base)
        tag = case.get("stixdt_tags")
        if prop == "x_when":
            if case["form"] == "string":
                return None         # text in a custom property is text, not a timestamp the library writes
            if tag and tag[1] == "other":
                tag = [tag[0], "min"]
            if tag and isinstance(val, dt.datetime):
                prec, cons = (prec if tag[0] == "same" else tag[0]), (cons if tag[1] == "same" else tag[1])     # nobody re-cleans: own tags
        if tag and isinstance(val, dt.datetime):
            # an un-normalised STIXdatetime carrying precision tags (e.g. another property's value): the slot must re-clean it
            tp = prec if tag[0] == "same" else tag[0]
            tc = cons if tag[1] == "same" else ("min" if cons == "exact" else "exact") if tag[1] == "other" else tag[1]
            val = utils.STIXdatetime(val, precision=tp, precision_constraint=tc)
        kw[prop] = val
        obj, exc = core.guarded(cls, **kw)
        if exc is not None:
            return [("accepted-input-refused", "%s(%s=%r) raised %s" % (clsname, prop, val, core.fmt_exc(exc)))]
        import json
        text, exc = core.guarded(obj.serialize)
        if exc is not None:
            return [("crash:serialize", "%s(%s=%r).serialize() raised %s" % (clsname, prop, val, core.fmt_exc(exc)))]
        out = json.loads(text)[prop]
        parsed = obj[prop]
    exp = tsref.fmt(tsref.truncate(t, prec, cons), prec, cons)
    if out != exp:
        if not tsref.CANON_RE.match(out):
            key = "not-canonical-form"
            try:
                yr = int(out.split("-")[0])
                if yr < 1000 and len(out.split("-")[0]) < 4:
                    key = "year-not-4-digits"
            except ValueError:
                pass
        else:
            try:
                got_t = tsref.parse(out)[0]
                key = "wrong-instant" if got_t != tsref.truncate(t, prec, cons) and got_t != t else "wrong-fraction-digits"
                if got_t != tsref.parse(exp)[0]:
                    key = "wrong-instant"
            except ValueError:
                key = "not-a-calendar-time"
        fails.append((key, "input %r (%s/%s, %s) written %r, expected %r" % (val, prec, cons, route, out, exp)))
        if key != "year-not-4-digits":
            return fails
    # read back and write again: fixed point, same (truncated) instant
    if route == "utils":
        back, exc = core.guarded(utils.parse_into_datetime, out, prec, cons)
        if exc is not None:
            fails.append(("written-text-not-readable" if out == exp else "year-not-4-digits",
                          "parse_into_datetime(%r) raised %s" % (out, core.fmt_exc(exc))))
            return fails
        out2, exc = core.guarded(utils.format_datetime, back)
        if exc is not None or out2 != out:
            fails.append(("not-fixed-point", "%r -> %r" % (out, out2)))
        import pytz
        back_t = tsref.instant(back.year, back.month, back.day, back.hour, back.minute, back.second, back.microsecond)
        if out == exp and back_t != tsref.parse(exp)[0]:
            fails.append(("reread-instant", "%r read back as %r" % (out, back)))
        # the value the library holds, copied the way the library itself copies values (new_version deep-copies content; a dict
        # version keeps what it gets): the copy is written like the original
        if case["form"] not in ("plain-format",) and out == exp:
            import copy
            for how, fn in (("deepcopy", copy.deepcopy), ("copy", copy.copy)):
                c, exc = core.guarded(fn, parsed)
                o3, exc3 = core.guarded(utils.format_datetime, c) if exc is None else (None, exc)
                if exc3 is not None or o3 != out:
                    fails.append(("copy-written-differently:" + how, "%s of the parsed value of %r (%s/%s) is written %r, the value itself %r" % (how, val, prec, cons, o3 if exc3 is None else core.fmt_exc(exc3), out)))
            # values derived with datetime's own methods (replace, arithmetic) are plain results of the base class; whatever they are
            # written as, a copy of them is written the same way
            import datetime as _dt
            for how, fn in (("replace", lambda v: v.replace(second=v.second)), ("plus-zero", lambda v: v + _dt.timedelta(0))):
                d, exc = core.guarded(fn, parsed)
                if exc is not None:
                    continue
                o4, e4 = core.guarded(utils.format_datetime, d)
                c, e5 = core.guarded(copy.deepcopy, d)
                o5, e6 = core.guarded(utils.format_datetime, c) if e5 is None else (None, e5)
                if e4 is None and (e6 is not None or o5 != o4):
                    fails.append(("copy-of-derived-value:" + how, "deepcopy of parsed(%r).%s is written %r, the derived value itself %r" % (val, how, o5 if e6 is None else core.fmt_exc(e6), o4)))
    return fails


def check_pair(case):
    """a < b  =>  written(a) is not later than written(b), compared as instants (oracle parser)."""
    from stix2 import utils
    fails = []
    a, b = dict(case["a"]), dict(case["b"])
    va, ta = build_input(a)
    vb, tb = build_input(b)
    if va is None or vb is None:
        return None
    prec, cons = case["precision"], case["constraint"]
    outs = []
    for v in (va, vb):
        p, exc = core.guarded(utils.parse_into_datetime, v, prec, cons)
        if exc is not None:
            return [("accepted-input-refused", "parse_into_datetime(%r) raised %s" % (v, core.fmt_exc(exc)))]
        o, exc = core.guarded(utils.format_datetime, p)
        if exc is not None:
            return [("crash:format_datetime", core.fmt_exc(exc))]
        outs.append(o)
    try:
        pa, pb = tsref.parse(outs[0])[0], tsref.parse(outs[1])[0]
    except ValueError:
        return []  # form problems are reported by check_case
    if (ta < tb and pa > pb) or (ta > tb and pa < pb) or (ta == tb and pa != pb):
        fails.append(("order-not-preserved", "%r->%r , %r->%r (%s/%s)" % (va, outs[0], vb, outs[1], prec, cons)))
    return fails


# ---- strategies -----------------------------------------------------------
year = st.one_of(st.integers(1, 999), st.integers(1000, 9999), st.sampled_from([1, 2, 9, 10, 99, 100, 999, 1000, 1582, 1899, 1900, 1969, 1970, 2000, 2020, 2038, 9998, 9999]))
micro = st.one_of(
    st.just(0), st.integers(0, 999999), st.integers(0, 999).map(lambda k: k * 1000), st.integers(1, 999),
    st.sampled_from([999999, 999000, 1, 10, 100, 1000, 10000, 100000, 120000, 123000, 123400, 123450, 123456, 500000, 999, 999499, 999500, 999999, 1999, 499999]),
)
offset = st.one_of(st.none(), st.just("pytz-utc"), st.integers(-14 * 60, 14 * 60), st.sampled_from([0, 330, 345, -210, 765, 840, -720, 1, -1]),
                   st.builds(lambda z, d: {"zone": z, "dst": d}, st.sampled_from(ZONES), st.booleans()),
                   st.builds(lambda n: {"offset_us": n}, st.one_of(st.sampled_from([500, -900, 1500000, -500000, 999999, -1, 1, 86399999999, -86399999999, 3600000001]),
                                                                   st.integers(-86399999999, 86399999999))),
                   st.builds(lambda i, f: {"zoneinfo": i, "fold": f}, st.integers(0, len(AMBIGUOUS) - 1), st.integers(0, 1)))


@st.composite
def moment(draw, forms=("datetime", "datetime", "date", "string", "string", "stixdt", "plain-format")):
    y = draw(year)
    mo = draw(st.integers(1, 12))
    d = draw(st.one_of(st.integers(1, tsref.days_in_month(y, mo)), st.just(tsref.days_in_month(y, mo)), st.just(1)))
    form = draw(st.sampled_from(forms))
    c = {"y": y, "mo": mo, "d": d, "h": draw(st.sampled_from([0, 23, 12]) | st.integers(0, 23)),
         "mi": draw(st.sampled_from([0, 59]) | st.integers(0, 59)), "s": draw(st.sampled_from([0, 59]) | st.integers(0, 59)),
         "us": draw(micro), "form": form}
    if form == "string":
        c["frac_digits"] = draw(st.integers(0, 6))
    if form in ("datetime", "stixdt", "plain-format"):
        c["tz"] = draw(offset)
    return c


@st.composite
def single_case(draw):
    c = draw(moment())
    c["precision"] = draw(st.sampled_from(PRECISIONS))
    c["constraint"] = draw(st.sampled_from(CONSTRAINTS))
    c["route"] = "utils"
    return c


@st.composite
def slot_case(draw):
    c = draw(moment(forms=("datetime", "date", "string")))
    slot = draw(st.sampled_from(SLOTS))
    c["route"] = slot[0]
    c["precision"], c["constraint"] = slot[5], slot[6]
    if c["form"] == "datetime" and draw(st.booleans()):
        c["stixdt_tags"] = draw(st.sampled_from([["same", "same"], ["same", "other"], ["any", "exact"], ["millisecond", "min"], ["second", "min"], ["millisecond", "exact"]]))
    return c


DELTAS = [1, 2, 9, 10, 99, 100, 499, 500, 999, 1000, 1001, 999999, 10 ** 6, 10 ** 6 + 1, 60 * 10 ** 6, 3600 * 10 ** 6, 86400 * 10 ** 6, 365 * 86400 * 10 ** 6]


@st.composite
def pair_case(draw):
    a = draw(moment(forms=("datetime",)))
    a["tz"] = None
    delta = draw(st.sampled_from(DELTAS) | st.integers(1, 2 * 10 ** 6))
    ta = tsref.instant(a["y"], a["mo"], a["d"], a["h"], a["mi"], a["s"], a["us"])
    tb = ta + delta
    if not tsref.in_range(tb):
        tb = ta - delta
    if not tsref.in_range(tb):
        tb = ta
    days, rem = divmod(tb, tsref.US_PER_DAY)
    y, mo, d = tsref.civil_from_days(days)
    secs, us = divmod(rem, 10 ** 6)
    b = {"y": y, "mo": mo, "d": d, "h": secs // 3600, "mi": secs % 3600 // 60, "s": secs % 60, "us": us, "form": "datetime",
         "tz": draw(st.one_of(st.none(), st.integers(-14 * 60, 14 * 60)))}
    # express b in its own offset so that the UTC instant stays tb
    if isinstance(b["tz"], int):
        tl = tb + b["tz"] * 60 * 10 ** 6
        if tsref.in_range(tl):
            days, rem = divmod(tl, tsref.US_PER_DAY)
            y, mo, d = tsref.civil_from_days(days)
            secs, us = divmod(rem, 10 ** 6)
            b.update({"y": y, "mo": mo, "d": d, "h": secs // 3600, "mi": secs % 3600 // 60, "s": secs % 60, "us": us})
        else:
            b["tz"] = None
    return {"pair": True, "a": a, "b": b, "precision": draw(st.sampled_from(PRECISIONS)), "constraint": draw(st.sampled_from(CONSTRAINTS))}


def classes_of(c):
    cl = ["form:" + c["form"], "prec:%s/%s" % (c["precision"], c["constraint"]), "route:" + ("utils" if c.get("route", "utils") == "utils" else "property")]
    if c["y"] < 1000:
        cl.append("year<1000")
    us = c["us"]
    if c["form"] == "date":
        cl.append("us:none")
    elif us == 0:
        cl.append("us:zero")
    elif us % 1000:
        cl.append("us:sub-millisecond")
    elif us % 10 ** 5 == 0 or ("%06d" % us).rstrip("0") != ("%06d" % us)[:3]:
        cl.append("us:trailing-zero")
    else:
        cl.append("us:millis")
    tz = c.get("tz")
    cl.append("tz:" + ("naive" if tz is None else "sub-second-offset" if isinstance(tz, dict) and "offset_us" in tz else
                       "zoneinfo-fold=%d" % tz["fold"] if isinstance(tz, dict) and "zoneinfo" in tz else "zone" if isinstance(tz, dict) else "utc" if tz in (0, "pytz-utc") else "offset"))
    if c.get("stixdt_tags"):
        cl.append("stixdt-tagged:%s/%s" % tuple(c["stixdt_tags"]))
    return cl


def nontrivial(c):
    cl = classes_of(c)
    return any(x in cl for x in ("year<1000", "us:sub-millisecond", "us:trailing-zero", "tz:offset", "tz:zone", "tz:sub-second-offset", "tz:zoneinfo-fold=0", "tz:zoneinfo-fold=1"))


def run(ctx):
    ctx.rule = ("datetimes (naive / fixed offsets -14h..+14h / offsets with a sub-second part / pytz zones / zoneinfo zones at wall-clock times that occur twice, fold 0 and 1), dates, STIXdatetime, plain datetimes and accepted strings "
                "with 0-6 fraction digits; years 1-9999 weighted below 1000; microsecond classes; x 3 precisions x 2 constraints, "
                "through utils.format_datetime(parse_into_datetime()) and through 12 TimestampProperty slots of real types; plus "
                "ordered pairs 1us..1y apart. Non-trivial = sub-millisecond or trailing-zero microseconds, non-UTC offset/zone, or "
                "year < 1000; distinct = distinct (moment, form, precision, constraint, route).")
    ctx.assumptions = ["oracle/tsref.py integer calendar arithmetic (self-tested)", "UTC offsets of pytz zones are taken from pytz itself",
                       "instants whose UTC form leaves years 1..9999 are outside the domain (inherent OverflowError)"]

    def body(c):
        fails = check_case(c)
        if fails is None:
            ctx.exclude("utc-instant-outside-years-1-9999")
            return
        ctx.note(c, nontrivial(c), classes_of(c))
        ctx.handle(c, fails)

    core.run_given(ctx, single_case(), body, ctx.n(8000, 100000), label="c15-utils")
    core.run_given(ctx, slot_case(), body, ctx.n(3000, 40000), label="c15-slots")

    def body_pair(c):
        fails = check_pair(c)
        if fails is None:
            ctx.exclude("utc-instant-outside-years-1-9999")
            return
        ctx.note(c, True, ["pair", "prec:%s/%s" % (c["precision"], c["constraint"])])
        ctx.handle(c, fails)

    core.run_given(ctx, pair_case(), body_pair, ctx.n(2500, 30000), label="c15-pairs")


def replay(case):
    if case.get("pair"):
        return check_pair(case) or []
    return check_case(case) or []


def selftest():
    try:
        tsref.selftest()
    except AssertionError as e:
        raise core.HarnessError("tsref self-test: %s" % e)
