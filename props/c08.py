"""C08 -- a granular-marking selector is valid exactly when it addresses something.

A case is a subject document (SDO/SRO of STIX 2.0/2.1 biased towards falsy values,
repeated list elements, embedded objects, mixed-case dictionary keys; 2.1 file SCO
with hashes and extensions; 2.0 observed-data with an objects container), the form
(library object / plain dict) and a list of near-miss recipes.  *Every* path of the
document (oracle/markmodel.enum_paths over the JSON) must be accepted at construction,
at parse time and by add_markings / is_marked / get_markings / clear_markings /
remove_markings; every near-miss built from those paths must be refused.
"""
import copy
import json

from hypothesis import strategies as st

from gen import subjects as S
from gen.subjects import pick, picks
from harness import core
from oracle import markmodel as mm
from props.c05 import Clock

M = S.MARKING_IDS[0]
FUNCTIONS = ("add_markings", "is_marked", "get_markings", "clear_markings", "remove_markings")
_open_cache = {}


def _open_keys():
    """Keys currently listed as open for C08 (only used to *name* the bucket of a refusal that has several
    candidate causes: the first still-open cause explains it, so a fixed cause never hides behind an open one
    and an open one never reappears under a fixed name)."""
    if "k" not in _open_cache:
        _open_cache["k"] = {e["key"] for e in core.load_known() if e["property"] == "C08" and e["status"] == "open"}
    return _open_cache["k"]


def attribute(features, syntax_refusal):
    """Root-cause bucket of a refused *valid* selector from the features of its path."""
    if syntax_refusal:
        cands = [f for f in ("uppercase-key",) if f in features]
        if not cands:
            return "valid-selector-refused-by-syntax:lower-case-path"
    else:
        cands = [f for f in ("embedded-object", "list-in-list", "repeated-element", "falsy-value") if f in features]
        if not cands:
            return "valid-selector-refused:plain-path"
    keys = ["valid-selector-refused:" + f for f in cands]
    for k in keys:
        if k in _open_keys():
            return k
    return keys[0]


def _is_syntax_refusal(exc):
    from stix2.exceptions import InvalidValueError
    return isinstance(exc, InvalidValueError) and "selector syntax" in str(exc)


def _class_for(doc, version):
    import stix2.v20
    import stix2.v21
    mod = stix2.v20 if version == "2.0" else stix2.v21
    name = {"identity": "Identity", "malware": "Malware", "indicator": "Indicator", "report": "Report", "relationship": "Relationship",
            "campaign": "Campaign", "file": "File", "observed-data": "ObservedData"}[doc["type"]]
    return getattr(mod, name)


def _with_marking(doc, selectors):
    d = copy.deepcopy(doc)
    d["granular_markings"] = [{"marking_ref": M, "selectors": list(selectors)}]
    return d


def _construct(doc, version, how):
    """Build a library object from a JSON document: 'parse' = stix2.parse of the JSON text, 'kwargs' = the class constructor."""
    import stix2
    if how == "parse":
        return core.guarded(stix2.parse, json.dumps(doc), allow_custom=True, version=version)
    kw = copy.deepcopy(doc)
    if how == "kwargs-tuples":
        # the arrays of custom properties handed over as Python tuples (they are written as arrays): their elements are list elements
        def tup(v):
            if isinstance(v, list):
                return tuple(tup(x) for x in v)
            if isinstance(v, dict):
                return {k: tup(x) for k, x in v.items()}
            return v
        kw = {k: (tup(v) if k.startswith("x_") else v) for k, v in kw.items()}
    return core.guarded(_class_for(doc, version), allow_custom=True, **kw)


def _selectors_of(x):
    from props.c05 import ser
    return [s for gm in ser(x).get("granular_markings", []) for s in gm["selectors"]]


def run_case(case):
    clock = Clock()
    try:
        from oracle import tsref
        clock.set(tsref.instant(2021, 6, 1))
        return _run(case)
    finally:
        clock.restore()


def _run(case):
    import stix2
    from stix2 import markings
    from stix2.exceptions import InvalidSelectorError, STIXError, TypeNotVersionableError
    version, form, doc = case["version"], case["form"], case["subject"]
    fails = []
    classes = ["version:" + version, "form:" + form, "type:" + doc["type"]]
    distinct = set()
    counts = {"paths": 0, "near": 0}
    head, exc = _construct(doc, version, "parse")
    if exc is not None:
        raise core.HarnessError("generator produced a subject the library refuses: %s  %s" % (core.fmt_exc(exc), core.short(doc)))
    from props.c05 import ser
    if ser(head) != doc:
        raise core.HarnessError("subject is not a fixed point of parse/serialize: %s" % mm.differing_keys(ser(head), doc, ignore=()))
    if form == "dict":
        head = copy.deepcopy(doc)
    before = ser(head)
    paths = mm.enum_paths(doc)

    def refused_valid(stage, sel, feats, exc):
        if isinstance(exc, (InvalidSelectorError,)) or _is_syntax_refusal(exc):
            key = attribute(feats, _is_syntax_refusal(exc))
            fails.append((key, "%s refuses selector %r of %s %s (%s; value %r; path features %s): %s" % (
                stage, sel, version, doc["type"], form, mm.resolve(doc, sel)[1] if len(repr(mm.resolve(doc, sel)[1])) < 80 else "...",
                sorted(feats & set(mm.QUESTIONED)), core.fmt_exc(exc))))
            return True
        return False

    def other_exc(stage, sel, exc):
        if isinstance(exc, STIXError):
            fails.append(("refused:%s:%s" % (stage.split("(")[0], type(exc).__name__), "%s with selector %r: %s" % (stage, sel, core.fmt_exc(exc))))
        else:
            fails.append(("crash:%s" % type(exc).__name__, "%s with selector %r: %s at %s" % (stage, sel, core.fmt_exc(exc), core.lib_frame(exc))))

    def call(fn, x, sel, marking=True):
        f = getattr(markings, fn)
        if fn in ("add_markings", "remove_markings"):
            return core.guarded(f, x, M, [sel])
        if fn == "is_marked":
            return core.guarded(f, x, M if marking else None, [sel])
        return core.guarded(f, x, [sel])

    def check_marked(stage, x, sel):
        """x carries marking M on sel: the queries must say so."""
        b, e1 = call("is_marked", x, sel)
        lst, e2 = call("get_markings", x, sel)
        feats = mm.path_features(doc, mm.split(sel), "dict" if isinstance(x, dict) else "object")
        for fn, e in (("is_marked", e1), ("get_markings", e2)):
            if e is not None and not refused_valid("%s then %s" % (stage, fn), sel, feats, e):
                other_exc("%s then %s" % (stage, fn), sel, e)
        if e1 is None and b is not True:
            fails.append(("marked-selector-not-reported", "%s: is_marked(x, M, [%r]) = %r" % (stage, sel, b)))
        if e2 is None and list(lst) != [M]:
            fails.append(("marked-selector-not-reported", "%s: get_markings(x, [%r]) = %r" % (stage, sel, lst)))

    # ---- every existing path ----------------------------------------------------------------------------------
    for comps, value in paths:
        sel = mm.join(comps)
        feats = mm.path_features(doc, comps, form)
        counts["paths"] += 1
        vclass = mm.value_class(value)
        q = sorted(feats & set(mm.QUESTIONED))
        for f in q or ["plain"]:
            classes.append("path:" + f)
        classes.append("path-depth:%s" % min(len(comps), 4))
        if len(comps) >= 2 or (feats & {"falsy-value", "repeated-element", "uppercase-key"}):
            distinct.add(core.fingerprint([doc["type"], version, form, mm.path_shape(comps), vclass, q]))
        if form == "object":
            ofeats = feats
            for how in ("parse", "kwargs") + (("kwargs-tuples",) if sel.startswith("x_") and "[" in sel else ()):
                obj, exc = _construct(_with_marking(doc, [sel]), version, how)
                stage = "construction(%s)" % how
                if exc is not None:
                    if not refused_valid(stage, sel, ofeats, exc):
                        other_exc(stage, sel, exc)
                    continue
                if sel not in _selectors_of(obj):
                    fails.append(("selector-lost", "%s accepted %r but the object does not carry it" % (stage, sel)))
                    continue
                if how == "parse":
                    check_marked(stage, obj, sel)
        # marking functions on the unmarked subject
        added = None
        for fn in FUNCTIONS:
            r, exc = call(fn, head, sel, marking=False)
            stage = "%s(%s)" % (fn, form)
            if exc is None:
                if fn == "add_markings":
                    added = r
                continue
            if fn == "add_markings" and isinstance(exc, TypeNotVersionableError) and doc["type"] == "file":
                continue            # the selector passed validation; SCOs cannot be versioned
            if not refused_valid(stage, sel, feats, exc):
                other_exc(stage, sel, exc)
        if added is not None:
            if sel not in _selectors_of(added):
                fails.append(("selector-lost", "add_markings accepted %r but the result does not carry it" % sel))
            else:
                check_marked("add_markings(%s)" % form, added, sel)
                for fn in ("clear_markings", "remove_markings"):
                    r, exc = call(fn, added, sel)
                    stage = "add_markings then %s(%s)" % (fn, form)
                    if exc is not None:
                        if not refused_valid(stage, sel, feats, exc):
                            other_exc(stage, sel, exc)
                    elif sel in _selectors_of(r):
                        fails.append(("marking-not-removed", "%s left %r marked" % (stage, sel)))

    # ---- several existing paths in one call (one granular marking listing them; one marking-function call with a list) -----
    sels_all = [mm.join(c) for c, _ in paths]
    for g in case.get("groups", []):
        if not sels_all:
            break
        first = g["idx"][0] % len(paths)
        if g.get("siblings"):
            parent = paths[first][0][:-1]
            pool = [mm.join(c) for c, _ in paths if c[:-1] == parent or c[:len(parent) + 1][:-1] == parent and len(c) > len(parent)] or sels_all
        else:
            pool = sels_all
        group = []
        for k in g["idx"]:
            s_ = pool[k % len(pool)]
            if s_ not in group:
                group.append(s_)
        if len(group) < 2:
            continue
        if g["order"] == "sorted":
            group = sorted(group)
        elif g["order"] == "reversed":
            group = sorted(group, reverse=True)
        classes.append("group:%s%s" % (g["order"], ":siblings" if g.get("siblings") else ""))
        if sorted(group) != [mm.join(c) for c, _ in paths if mm.join(c) in group]:
            classes.append("group:text-order-differs-from-walk-order")
        distinct.add(core.fingerprint([doc["type"], version, form, "group", sorted(mm.path_shape(mm.split(s_)) for s_ in group)]))

        def group_refused(stage, exc):
            if isinstance(exc, InvalidSelectorError) or _is_syntax_refusal(exc):
                fails.append(("valid-selectors-refused-together", "%s refuses the selectors %r of %s %s (%s) given together although each addresses something: %s" % (
                    stage, group, version, doc["type"], form, core.fmt_exc(exc))))
            else:
                other_exc(stage, group, exc)
        if form == "object":
            for how in ("parse", "kwargs"):
                obj, exc = _construct(_with_marking(doc, group), version, how)
                if exc is not None:
                    group_refused("construction(%s)" % how, exc)
                elif sorted(_selectors_of(obj)) != sorted(group):
                    fails.append(("selector-lost", "construction(%s) accepted %r but the object carries %r" % (how, group, _selectors_of(obj))))
        r, exc = core.guarded(markings.add_markings, head, M, list(group))
        if exc is not None:
            if not (isinstance(exc, TypeNotVersionableError) and doc["type"] == "file"):
                group_refused("add_markings(%s)" % form, exc)
        else:
            if sorted(_selectors_of(r)) != sorted(group):
                fails.append(("selector-lost", "add_markings accepted %r but the result carries %r" % (group, _selectors_of(r))))
            for fn, args in (("is_marked", (r, M, list(group))), ("get_markings", (r, list(group))), ("remove_markings", (r, M, list(group))), ("clear_markings", (r, list(group)))):
                _, exc = core.guarded(getattr(markings, fn), *args)
                if exc is not None:
                    group_refused("add_markings then %s(%s)" % (fn, form), exc)
            # marked one selector at a time: the library merges the selectors into one granular marking
            step = head
            for s_ in group:
                step, exc = core.guarded(markings.add_markings, step, M, [s_])
                if exc is not None:
                    group_refused("add_markings one selector at a time, at %r (%s)" % (s_, form), exc)
                    break
        for fn, args in (("is_marked", (head, None, list(group))), ("get_markings", (head, list(group)))):
            _, exc = core.guarded(getattr(markings, fn), *args)
            if exc is not None:
                group_refused("%s(%s)" % (fn, form), exc)

    # ---- near misses ----------------------------------------------------------------------------------------------
    for spec in case["near"]:
        nm = mm.near_miss(doc, spec["kind"], spec["a"], spec["b"])
        if nm is None:
            continue
        sel, base = nm
        if mm.resolve(doc, sel)[0]:
            raise core.HarnessError("near miss %r addresses something" % sel)
        counts["near"] += 1
        classes.append("near:" + spec["kind"])
        distinct.add(core.fingerprint([doc["type"], version, form, "near", spec["kind"]]))
        if form == "object":
            for how in ("parse", "kwargs"):
                obj, exc = _construct(_with_marking(doc, [sel]), version, how)
                if exc is None:
                    special = doc["type"] == "indicator" and version == "2.0"
                    fails.append(("invalid-selector-accepted:v20-indicator-construction" if special else "invalid-selector-accepted:construction",
                                  "construction(%s) of %s %s accepts selector %r (%s of %r), which addresses nothing" % (how, version, doc["type"], sel, spec["kind"], base)))
                elif not isinstance(exc, STIXError):
                    other_exc("construction(%s)" % how, sel, exc)
            # among valid selectors one bad one must still be refused
            good = [mm.join(c) for c, _ in paths if not (mm.path_features(doc, c, form) & set(mm.QUESTIONED))][:2]
            if good:
                obj, exc = _construct(_with_marking(doc, good[:1] + [sel] + good[1:]), version, "parse")
                if exc is None:
                    fails.append(("invalid-selector-accepted:among-valid-ones", "selectors %r accepted although %r addresses nothing" % (good[:1] + [sel] + good[1:], sel)))
        for fn in FUNCTIONS:
            r, exc = call(fn, head, sel, marking=False)
            if exc is None:
                fails.append(("invalid-selector-accepted:" + fn, "%s(%s %s %s) accepts selector %r (%s of %r), which addresses nothing; returned %s" % (
                    fn, version, doc["type"], form, sel, spec["kind"], base, core.short(repr(r), 200))))
            elif not isinstance(exc, STIXError):
                other_exc(fn, sel, exc)
            elif not isinstance(exc, InvalidSelectorError):
                classes.append("near-refused-by:" + type(exc).__name__)
        # the queries with inherited / descendants flags, also on a subject that carries an object-level marking
        # (a shortcut through the object-level markings must not skip selector validation)
        marked_head, exc0 = core.guarded(markings.add_markings, head, M, None)
        subjects = [(head, "plain")] + ([(marked_head, "object-marked")] if exc0 is None else [])
        for subj, sname in subjects:
            for flags in ({"inherited": True}, {"descendants": True}, {"inherited": True, "descendants": True}):
                probes = [("is_marked", (subj, M, [sel])), ("is_marked", (subj, None, [sel])), ("get_markings", (subj, [sel]))]
                for fn, args in probes:
                    r, exc = core.guarded(getattr(markings, fn), *args, **flags)
                    if exc is None:
                        fails.append(("invalid-selector-accepted:%s:flags" % fn, "%s(%s %s %s, %s, %s) accepts selector %r (%s of %r), which addresses nothing; returned %s" % (
                            fn, version, doc["type"], form, sname, flags, sel, spec["kind"], base, core.short(repr(r), 120))))
                    elif not isinstance(exc, STIXError):
                        other_exc(fn, sel, exc)
        classes.append("near-with-flags")
    if ser(head) != before:
        fails.append(("input-modified", "a marking function changed the object it was given"))
    info = {"classes": classes, "distinct": distinct, "counts": counts}
    # one failure per key and case is enough (details of the first)
    seen, out = set(), []
    for k, d in fails:
        if k not in seen:
            seen.add(k)
            out.append((k, d))
    return out, info


def check_case(case):
    return run_case(case)[0]


# ---- strategies --------------------------------------------------------------------------------------------------

near_spec = st.builds(lambda k, a, b: {"kind": k, "a": a, "b": b}, st.sampled_from(mm.NEAR_KINDS), st.integers(0, 40), st.integers(0, 7))


@st.composite
def a_case(draw):
    which = pick(draw, ["sdo"] * 6 + ["file21"] * 2 + ["od20"] * 2)
    if which == "sdo":
        doc = draw(S.selector_subject())
    elif which == "file21":
        doc = draw(S.file_sco21())
    else:
        doc = draw(S.observed_data20())
    version = "2.1" if doc.get("spec_version") == "2.1" else "2.0"
    form = pick(draw, ["object", "dict"])
    near = draw(st.lists(near_spec, min_size=2, max_size=6))
    group = st.fixed_dictionaries({"idx": st.lists(st.integers(0, 400), min_size=2, max_size=6), "order": st.sampled_from(["given", "sorted", "reversed"]),
                                   "siblings": st.booleans()})
    return {"version": version, "form": form, "subject": doc, "near": near, "groups": draw(st.lists(group, min_size=1, max_size=4))}


def run(ctx):
    ctx.rule = ("subjects: identity / malware / indicator / report / relationship / campaign of STIX 2.0 and 2.1 with falsy values ('' , 0, 0.0, "
                "false, {}), repeated list elements (labels, object_refs, external references, nested custom lists), external references with "
                "hashes, kill-chain phases, custom nested dictionaries with mixed-case keys; 2.1 file SCOs with hashes (MD5, SHA-256 ...) and "
                "ntfs / pebinary / archive extensions; 2.0 observed-data with an objects container; each as library object and as plain dict.  "
                "For each subject every path of its JSON form is tried at construction (parse of the JSON text and class constructor) and in "
                "the five marking functions, followed by queries on the marked result; 1-4 groups of 2-6 existing paths (any / sibling paths, in given, "
                "sorted and reverse-sorted order) are given together in one granular marking and in one marking-function call, and added one at a "
                "time; 2-6 near-misses per subject out of 12 kinds (absent "
                "property / nested key, index = length or far beyond, key or index under a scalar, index on a dictionary, key on a list, "
                "skipped index, misspelled component, character prefix / extension of the last component) are tried the same way.  "
                "Non-trivial = path of depth >= 2 or addressing a falsy value / repeated element / upper-case key, or any near-miss; "
                "distinct = distinct (type, version, form, path shape, value class, features) resp. (type, version, form, near-miss kind).")
    ctx.assumptions = ["oracle/markmodel.py path enumerator and independent resolver (self-tested)",
                       "paths present only in the in-memory object (defaulted optional properties not written to JSON) are in neither set",
                       "dictionary keys are drawn from [A-Za-z0-9_-] (the STIX dictionary-key alphabet); list indices are written [i] without leading zeros",
                       "near-misses may be refused by any exception of the library's STIXError family",
                       "add_markings on an SCO may end in TypeNotVersionableError after the selector passed validation"]

    def body(case):
        fails, info = run_case(case)
        ctx.note(case, False, info["classes"])
        ctx.nontrivial.update(info["distinct"])
        ctx.notes["paths_checked"] = ctx.notes.get("paths_checked", 0) + info["counts"]["paths"]
        ctx.notes["near_misses_checked"] = ctx.notes.get("near_misses_checked", 0) + info["counts"]["near"]
        ctx.handle(case, fails)

    core.run_given(ctx, a_case(), body, ctx.n(480, 2500), label="c08-subjects")
    if not ctx.violations and ctx.evaluations >= 300:
        need = ["path:" + f for f in mm.QUESTIONED + ("plain",)] + ["near:" + k for k in mm.NEAR_KINDS] + \
               ["form:object", "form:dict", "version:2.0", "version:2.1", "type:file", "type:observed-data", "type:indicator",
                "group:given", "group:sorted", "group:reversed", "group:sorted:siblings", "group:text-order-differs-from-walk-order"]
        core.health(ctx, need, share=0.005)


def replay(case):
    return check_case(case)


def selftest():
    try:
        mm.selftest()
    except AssertionError as e:
        raise core.HarnessError("oracle self-test: %r" % (e,))
