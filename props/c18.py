"""C18 -- federated sources and relationship navigation equal a scan of the data.

A case is one JSON value:

    {"pop": [obj, ...],                      # nodes (several versions), relationship objects (several versions), created_by_ref links
     "members": [{"kind": "memory"|"fs", "bundlify": bool}, ...],          # 2-4 member stores
     "place": [mask, ...],                    # per object: non-empty set of members holding a copy (bit i = member i; taken modulo)
     "order": [i, ...], "nest": {"k": n, "front": bool} | null,            # attachment order; the last/first k members wrapped in an inner composite
     "plain": "memory"|"fs",                  # kind of the single store that holds the whole union (route "store"/"source")
     "probes": [{"p": "query"|"rels"|"related"|"creator", ...}, ...],
     "history": [{"m": "detach"|"attach"|"late-add"|"attach-twice", "k": member, "x": pop index}, ...]}   # optional: one live composite across changes

Every case additionally checks get() for every id under every attachment order
(all permutations for <= 3 members), and all_versions()/query() on the drawn
order.  Expected answers come from oracle.storemodel over the union of the
members' contents.
"""
import copy
import itertools
import os

from hypothesis import strategies as st

from gen import stores as G
from harness import core
from oracle import storemodel as M
from props import storecommon as S

NAV_ROUTES = ["composite", "composite", "env", "store", "source"]
REL_TYPES = ["uses", "indicates", "targets", ""]      # the empty string is a storable relationship_type, and a value like any other
ABSENT_NODE = G.oid("campaign", 0x99)


def _masks(case):
    n = len(case["members"])
    out = []
    for i, _ in enumerate(case["pop"]):
        m = case["place"][i % len(case["place"])] % (2 ** n) if case["place"] else 1
        out.append(m or 1)
    return out


def member_items(case):
    n = len(case["members"])
    masks = _masks(case)
    return [[o for o, m in zip(case["pop"], masks) if (m >> k) & 1] for k in range(n)]


def orders_of(case):
    n = len(case["members"])
    base = [i % n for i in case.get("order", [])]
    base = [i for k, i in enumerate(base) if i not in base[:k]] + [i for i in range(n) if i not in base]
    if n <= 3:
        rest = [list(p) for p in itertools.permutations(range(n)) if list(p) != base]
    else:
        rest = [base[::-1], base[1:] + base[:1], base[-1:] + base[:-1]]
    return base, rest


class World(object):
    def __init__(self, case, tmp, fails):
        import stix2
        self.stix2 = stix2
        self.case = case
        self.fails = fails
        self.items = member_items(case)
        self.union = M.ListModel(case["pop"])
        self.ids = self.union.ids()
        self.stores = []
        self.ok = True
        for k, spec in enumerate(case["members"]):
            if spec["kind"] == "fs":
                d = os.path.join(tmp, "m%d" % k)
                os.mkdir(d)
                store = stix2.FileSystemStore(d, allow_custom=True, bundlify=bool(spec.get("bundlify")))
            else:
                store = stix2.MemoryStore()
            if self.items[k]:
                _, bad = self._call("member%d.add" % k, store.add, copy.deepcopy(self.items[k]))
                self.ok = self.ok and not bad
            self.stores.append(store)
        if case.get("plain") == "fs":
            d = os.path.join(tmp, "plain")
            os.mkdir(d)
            self.plain = stix2.FileSystemStore(d, allow_custom=True)
        else:
            self.plain = stix2.MemoryStore()
        if self.union.objs:
            _, bad = self._call("plain.add", self.plain.add, copy.deepcopy(self.union.objs))
            self.ok = self.ok and not bad

    def _call(self, who, fn, *a, **kw):
        out, exc = core.guarded(fn, *a, **kw)
        if exc is not None:
            if core.lib_frame(exc) is None:
                raise exc
            self.fails.append(("crash:%s:%s" % (who, type(exc).__name__), "%s raised %s at %s" % (who, core.fmt_exc(exc), core.lib_frame(exc))))
            return None, True
        return out, False

    # ---- building the federation ------------------------------------------------------------------------------
    def composite(self, order, comp_filters=(), nest=None):
        stix2 = self.stix2
        srcs = [self.stores[i].source for i in order]
        nest = nest if nest is not None else self.case.get("nest")
        if nest and len(srcs) >= 2:
            k = max(1, min(nest["k"], len(srcs) - 1))
            inner = stix2.CompositeDataSource()
            if nest.get("front"):
                inner.add_data_sources(srcs[:k])
                srcs = [inner] + srcs[k:]
            else:
                inner.add_data_sources(srcs[-k:])
                srcs = srcs[:-k] + [inner]
        top = stix2.CompositeDataSource()
        top.add_data_sources(srcs)
        if comp_filters:
            top.filters.add(S.mk_filters(comp_filters))
        return top

    def environment(self, order):
        stix2 = self.stix2
        rest = [self.stores[i].source for i in order[1:]]
        if len(rest) == 1:
            src = rest[0]
        else:
            src = stix2.CompositeDataSource()
            src.add_data_sources(rest)
        return stix2.Environment(store=self.stores[order[0]], source=src)

    def subject(self, route, order):
        if route == "composite":
            return self.composite(order)
        if route == "env":
            return self.environment(order)
        if route == "store":
            return self.plain
        return self.plain.source

    # ---- federation: get / all_versions / query ---------------------------------------------------------------------
    def check_get(self, order, others):
        per_order = {}
        multi = [sid for sid in self.ids if len(self.union.versions(sid)) > 1]
        for od in [order] + others:
            comp = self.composite(od)
            for sid in (self.ids if od is order else multi):   # other orders: only ids for which there is a choice to make
                got, bad = self._call("composite.get", comp.get, sid)
                if bad:
                    continue
                per_order.setdefault(sid, []).append((od, None if got is None else S.plain(got)))
        env = self.environment(order)
        for sid in self.ids:
            got, bad = self._call("Environment.get", env.get, sid)
            if not bad:
                per_order.setdefault(sid, []).append(("env%s" % order, None if got is None else S.plain(got)))
        for sid, answers in per_order.items():
            exp = self.union.latest(sid)
            vs = self.union.versions(sid)
            for od, g in answers:
                if g is not None and M.canon(g) == M.canon(exp):
                    continue
                where = "order %s: get(%s)" % (od, sid)
                holders = [k for k in range(len(self.items)) if any(M.key_of(o) == M.key_of(exp) for o in self.items[k])]
                if g is None:
                    key = "composite:get-missing"
                elif not any(M.canon(g) == M.canon(v) for v in vs):
                    key = "composite:get-foreign-object"
                elif G.is_dict_kept(exp) and G.text_order_differs(vs) and g.get("modified") == max(v["modified"] for v in vs):
                    key = "dict-latest-by-text:composite"
                else:
                    key = "composite:get-not-newest"
                self.fails.append((key, "%s returned modified=%s; newest stored version is modified=%s held by member(s) %s; stored %s; answers per order: %s" % (
                    where, None if g is None else g.get("modified"), exp.get("modified"), holders, [v.get("modified") for v in vs],
                    [(str(o), None if a is None else a.get("modified")) for o, a in answers])))
                break

    def check_all_versions(self, order):
        comp = self.composite(order)
        env = self.environment(order)
        for sid in self.ids + [ABSENT_NODE]:
            for name, sub in (("composite", comp), ("env", env)):
                got, bad = self._call(name + ".all_versions", sub.all_versions, sid)
                if not bad:
                    S.compare_answer("%s.all_versions(%s) order %s" % (name, sid, order), got, self.union.versions(sid), self.fails, "composite:all-versions")
        for name, sub in (("composite", comp), ("env", env)):
            got, bad = self._call(name + ".query", sub.query)
            if not bad:
                S.compare_answer("%s.query() order %s" % (name, order), got, self.union.objs, self.fails, "composite:query-all")

    def probe_query(self, pr, order):
        F = pr["filters"]
        n = len(self.stores)
        by_member = {}
        for f in F:
            if f["route"] == "member":
                by_member.setdefault(f.get("member", 0) % n, []).append(_plainf(f))
        comp_f = [_plainf(f) for f in F if f["route"] == "comp"]
        arg_f = [_plainf(f) for f in F if f["route"] == "arg"]
        exp = M.ListModel()
        for k in range(n):
            for o in self.items[k]:
                if M.matches(by_member.get(k, []) + comp_f + arg_f, o):
                    exp.add(o)
        attached = []
        try:
            for k, fs in by_member.items():
                fl = []
                for f in S.mk_filters(fs):
                    if f not in fl:
                        fl.append(f)
                self.stores[k].source.filters.add(list(fl))
                attached.append((k, fl))
            if pr.get("route") == "env":
                sub = self.environment(order)
                sub.add_filters(S.mk_filters(comp_f)) if comp_f else None
                name = "Environment"
            else:
                sub = self.composite(order, comp_f)
                name = "composite"
            qarg = S.mk_filters(arg_f)
            if pr.get("as_filterset"):
                # the query handed over as a FilterSet object (what the workbench helpers do); the same object is then used again
                qarg = self.stix2.datastore.filters.FilterSet(qarg)
                before = sorted(repr(f) for f in qarg)
            got, bad = self._call(name + ".query", sub.query, qarg)
            if not bad:
                S.compare_answer("%s.query order %s%s" % (name, order, " (FilterSet object)" if pr.get("as_filterset") else ""), got, exp.objs, self.fails, "composite:query",
                                 "arg=%s composite=%s member=%s" % (core.short(arg_f, 200), core.short(comp_f, 200), core.short(by_member, 200)))
            if pr.get("as_filterset") and not bad:
                if sorted(repr(f) for f in qarg) != before:
                    self.fails.append(("query-argument-modified:FilterSet", "%s.query(FilterSet) changed the caller's FilterSet: %s -> %s" % (name, before, sorted(repr(f) for f in qarg))))
                else:
                    got, bad = self._call(name + ".query", sub.query, qarg)
                    if not bad:
                        S.compare_answer("%s.query order %s (same FilterSet object, second call)" % (name, order), got, exp.objs, self.fails, "composite:query:reused-filterset",
                                         "arg=%s composite=%s member=%s" % (core.short(arg_f, 200), core.short(comp_f, 200), core.short(by_member, 200)))
            sid = self.ids[pr.get("probe", 0) % len(self.ids)] if self.ids else None
            if sid and not arg_f:
                got, bad = self._call(name + ".all_versions", sub.all_versions, sid)
                if not bad:
                    S.compare_answer("%s.all_versions(%s) order %s" % (name, sid, order), got, [o for o in exp.objs if o["id"] == sid], self.fails,
                                     "composite:filtered-all-versions", "composite=%s member=%s" % (core.short(comp_f, 200), core.short(by_member, 200)))
        finally:
            for k, fl in attached:
                self.stores[k].source.filters.remove(list(fl))

    # ---- navigation ------------------------------------------------------------------------------------------------------
    def _nav_arg(self, pr):
        """-> (argument handed to the library, object id)"""
        if pr["x"] < 0 or not self.case["pop"]:
            return ABSENT_NODE, ABSENT_NODE
        o = self.case["pop"][pr["x"] % len(self.case["pop"])]
        form = pr.get("argform", "id")
        if form == "id":
            return o["id"], o["id"]
        if form == "dict":
            return copy.deepcopy(o), o["id"]
        return S.to_lib(o), o["id"]

    def probe_nav(self, pr, order):
        route = pr.get("route", "composite")
        sub = self.subject(route, order)
        arg, xid = self._nav_arg(pr)
        kw = {}
        if pr.get("rtype") is not None:
            kw["relationship_type"] = pr["rtype"]
        if pr.get("so"):
            kw["source_only"] = True
        if pr.get("to"):
            kw["target_only"] = True
        exact = True       # through any source, store or environment: the same list a scan implies (each stored relationship once)
        objs = self.union.objs
        nav = dict(relationship_type=pr.get("rtype"), source_only=bool(pr.get("so")), target_only=bool(pr.get("to")))
        what = "%s.%s(%s%s) order %s" % (route, "relationships" if pr["p"] == "rels" else "related_to", xid, "".join(", %s=%r" % kv for kv in sorted(kw.items())), order)
        if pr["p"] == "rels":
            out, exc = core.guarded(sub.relationships, arg, **kw)
        else:
            if pr.get("filters"):
                kw["filters"] = S.mk_filters(pr["filters"])
            out, exc = core.guarded(sub.related_to, arg, **kw)
        if pr.get("so") and pr.get("to"):
            if exc is None:
                self.fails.append(("nav:both-flags-accepted", "%s returned %d objects, ValueError documented" % (what, len(out))))
            elif not isinstance(exc, ValueError):
                if core.lib_frame(exc) is None:
                    raise exc
                self.fails.append(("nav:both-flags-wrong-error", "%s raised %s" % (what, core.fmt_exc(exc))))
            return
        if exc is not None:
            if core.lib_frame(exc) is None:
                raise exc
            self.fails.append(("crash:%s:%s" % (pr["p"], type(exc).__name__), "%s raised %s at %s" % (what, core.fmt_exc(exc), core.lib_frame(exc))))
            return
        got = [S.plain(x) for x in out]
        if pr["p"] == "rels":
            exp = M.relationships(objs, xid, **nav)
            alt = None
        else:
            flt = pr.get("filters") or []
            exp = M.related_to(objs, xid, filters=flt, **nav)
            # named behaviour: navigation evaluated inside each member separately, answers concatenated
            alt = M.ListModel()
            for k in range(len(self.items)):
                for o in M.related_to(self.items[k], xid, filters=flt, **nav):
                    alt.add(o)
            alt = alt.objs
        if exact:
            S.compare_answer(what, got, exp, self.fails, "nav:%s:%s" % (pr["p"], "federated"), "", alt if exact else None, "composite-related-to-evaluated-per-member")
        else:
            g, e = sorted(set(M.multiset(got))), sorted(set(M.multiset(exp)))
            if g != e:
                self.fails.append(("nav:%s:plain:%s" % (pr["p"], "missing" if set(e) - set(g) and not set(g) - set(e) else "extra" if not set(e) - set(g) else "differs"),
                                   "%s (compared as sets): got %s, expected %s" % (what, S.describe(got), S.describe(exp))))

    def probe_creator(self, pr, order):
        route = pr.get("route", "composite")
        sub = self.subject(route, order)
        if not self.case["pop"]:
            return
        o = self.case["pop"][pr["x"] % len(self.case["pop"])]
        arg = copy.deepcopy(o) if pr.get("argform") == "dict" else S.to_lib(o)
        got, bad = self._call("%s.creator_of" % route, sub.creator_of, arg)
        if bad:
            return
        ref = o.get("created_by_ref")
        exp = self.union.latest(ref) if ref else None
        g = None if got is None else S.plain(got)
        if (g is None) != (exp is None) or (g is not None and M.canon(g) != M.canon(exp)):
            vs = self.union.versions(ref) if ref else []
            if g is not None and exp is not None and G.is_dict_kept(exp) and G.text_order_differs(vs) and g.get("modified") == max(v["modified"] for v in vs):
                key = "dict-latest-by-text:composite" if route in ("composite", "env") else "dict-latest-by-text:plain-store"
            else:
                key = "nav:creator-of:%s" % ("missing" if g is None else "phantom" if exp is None else "not-newest")
            self.fails.append((key, "%s.creator_of(%s created_by_ref=%s) order %s returned %s, expected %s" % (
                route, o["id"], ref, order, None if g is None else S.describe([g]), None if exp is None else S.describe([exp]))))

    def run(self):
        order, others = orders_of(self.case)
        self.check_get(order, others)
        self.check_all_versions(order)
        for pr in self.case.get("probes", []):
            od = order
            if pr.get("flip") and others:
                od = others[pr["flip"] % len(others)]
            if pr["p"] == "query":
                self.probe_query(pr, od)
            elif pr["p"] in ("rels", "related"):
                self.probe_nav(pr, od)
            elif pr["p"] == "creator":
                self.probe_creator(pr, od)
            else:
                raise core.HarnessError("unknown probe %r" % pr["p"])
        if self.case.get("history"):
            self.run_history(order)

    # ---- one live composite across membership changes and late additions --------------------------------------------------
    def run_history(self, order):
        """The same CompositeDataSource object (flat, no attached filters) is kept while members are detached by id,
        attached again (in a new position: at the end), attached a second time (documented: ignored) and while a member
        store receives further objects after attachment.  After every step the composite must answer as the union of the
        members attached at that moment."""
        live = self.stix2.CompositeDataSource()
        live.add_data_sources([self.stores[i].source for i in order])
        active = list(order)
        items = [list(x) for x in self.items]
        n = len(self.stores)
        for step, h in enumerate(self.case["history"]):
            k = h.get("k", 0) % n
            m = h["m"]
            src = self.stores[k].source
            if m == "detach":
                if len(active) <= 1 or k not in active:
                    continue            # the last member stays: an empty composite refuses to answer (documented AttributeError)
                _, bad = self._call("remove_data_source", live.remove_data_source, src.id)
                active.remove(k)
            elif m == "attach":
                if k in active:
                    continue
                _, bad = self._call("add_data_source", live.add_data_source, src)
                active.append(k)
            elif m == "attach-twice":
                if k not in active:
                    continue
                _, bad = self._call("add_data_source", live.add_data_source, src)
            elif m == "late-add":
                o = self.case["pop"][h.get("x", 0) % len(self.case["pop"])]
                if any(M.key_of(o) == M.key_of(p) for p in items[k]):
                    continue
                _, bad = self._call("member%d.add" % k, self.stores[k].add, copy.deepcopy(o))
                items[k].append(o)
            elif m == "parent-filter":
                # the live composite is itself a member of a parent (a CompositeDataSource or an Environment, which wraps its source in one)
                # that carries filters: the parent's answer is the filtered union, and afterwards the live composite is what it was
                flt = h.get("filters") or []
                own = h.get("own") or []            # filters attached to the live composite itself while it is a member of the parent
                own_objs = S.mk_filters(own)
                if own:
                    live.filters.add(own_objs)
                if h.get("via") == "env":
                    parent = self.stix2.Environment(source=live)
                    parent.add_filters(S.mk_filters(flt))
                    psrc = parent.source
                else:
                    parent = self.stix2.CompositeDataSource()
                    parent.add_data_source(live)
                    parent.filters.add(S.mk_filters(flt))
                    psrc = parent
                sib_objs = []
                if h.get("sibling"):
                    # a sibling of the live composite, attached AFTER it: the live composite's own filters are none of its business
                    sib_objs = [self.case["pop"][(h.get("x", 0) + j) % len(self.case["pop"])] for j in range(1, 4)]
                    sib = self.stix2.MemorySource(stix_data=[copy.deepcopy(o) for o in sib_objs], allow_custom=True)
                    psrc.add_data_source(sib)
                exp = [o for a in active for o in items[a] if M.matches(own, o)] + sib_objs
                um = M.ListModel()
                for o in exp:
                    if M.matches(flt, o):
                        um.add(o)
                got, bad = self._call("parent.query", parent.query)
                if not bad and not S.compare_answer("parent (%s) of the live composite with attached filters %s: query()" % (h.get("via"), core.short(flt, 200)),
                                                    got, um.objs, self.fails, "history:parent-filter:query"):
                    return
                sid = self.ids[h.get("x", 0) % len(self.ids)] if self.ids else None
                if sid and not bad:
                    got, bad = self._call("parent.all_versions", parent.all_versions, sid)
                    if not bad and not S.compare_answer("parent (%s) of the live composite with attached filters %s: all_versions(%s)" % (h.get("via"), core.short(flt, 200), sid),
                                                        got, [o for o in um.objs if o["id"] == sid], self.fails, "history:parent-filter:all-versions"):
                        return
                if own:
                    live.filters.remove(own_objs)
            else:
                raise core.HarnessError("unknown history step %r" % m)
            if bad:
                return
            got_n, _ = self._call("has_data_sources", live.has_data_sources)
            if got_n is not None and int(got_n) != len(active):
                self.fails.append(("history:member-count", "after %s the live composite reports %s members, %d attached (history step %d: %s)" % (m, got_n, len(active), step, h)))
                return
            union = M.ListModel()
            for a in active:
                for o in items[a]:
                    union.add(o)
            where = "live composite after step %d %s (attached members %s)" % (step, core.short(h, 80), active)
            got, bad = self._call("live.query", live.query)
            if not bad:
                if not S.compare_answer(where + " query()", got, union.objs, self.fails, "history:query-all:after-" + m):
                    return
            all_ids = sorted({o["id"] for it in items for o in it})
            for sid in all_ids:
                got, bad = self._call("live.get", live.get, sid)
                if bad:
                    continue
                exp = union.latest(sid) if union.versions(sid) else None
                g = None if got is None else S.plain(got)
                if (g is None) != (exp is None) or (g is not None and M.canon(g) != M.canon(exp)):
                    vs = union.versions(sid)
                    if g is not None and exp is not None and G.is_dict_kept(exp) and G.text_order_differs(vs) and g.get("modified") == max(v["modified"] for v in vs):
                        key = "dict-latest-by-text:composite"
                    else:
                        key = "history:get:after-%s:%s" % (m, "missing" if g is None else "phantom" if exp is None else "not-newest")
                    self.fails.append((key, "%s get(%s) returned %s, expected %s" % (where, sid, None if g is None else S.describe([g]), None if exp is None else S.describe([exp]))))
                    return
                got, bad = self._call("live.all_versions", live.all_versions, sid)
                if not bad:
                    if not S.compare_answer(where + " all_versions(%s)" % sid, got, union.versions(sid), self.fails, "history:all-versions:after-" + m):
                        return


def _plainf(f):
    return {"prop": f["prop"], "op": f["op"], "value": f["value"]}


def _dedup(fs):
    out = []
    for f in fs:
        if f not in out:
            out.append(f)
    return out


def check_case(case):
    fails = []
    if len(case.get("members", [])) < 1:
        return []
    with S.lib_session(), S.scratch_dir() as tmp:
        S.require_accepted(case["pop"])
        w = World(case, tmp, fails)
        if w.ok:
            w.run()
    seen, out = set(), []
    for k, d in fails:
        if k not in seen:
            seen.add(k)
            out.append((k, d))
    return out


# ---- what a configuration exercises (pure function of the case) ---------------------------------------------------------

def analyse(case):
    cl = set()
    items = member_items(case)
    order, others = orders_of(case)
    n = len(items)
    union = M.ListModel(case["pop"])
    cl.add("members:%d" % n)
    for m in case["members"]:
        cl.add("member:" + m["kind"] + ("+bundlify" if m.get("bundlify") else ""))
    if case.get("nest"):
        cl.add("nested-composite")
    cl.add("orders-checked:%d" % (1 + len(others)))
    holders = {}
    for k in range(n):
        for o in items[k]:
            holders.setdefault(M.key_of(o), set()).add(k)
    newest_not_first = False
    for sid in union.ids():
        vs = union.versions(sid)
        if len(vs) < 2:
            continue
        lat = union.latest(sid)
        if order[0] not in holders[M.key_of(lat)] and any(order[0] in holders[M.key_of(v)] for v in vs):
            newest_not_first = True
    dup = any(len(h) > 1 for h in holders.values())
    split_rel = False
    ids_in = [{o["id"] for o in items[k]} for k in range(n)]
    for k in range(n):
        for o in items[k]:
            if o["type"] == "relationship":
                for end in (o["source_ref"], o["target_ref"]):
                    if end not in ids_in[k] and any(end in s for s in ids_in):
                        split_rel = True
    rels = [o for o in union.objs if o["type"] == "relationship"]
    if any(r["source_ref"] == r["target_ref"] for r in rels):
        cl.add("graph:self-loop")
    pairs = [(r["source_ref"], r["target_ref"]) for r in {r["id"]: r for r in rels}.values()]
    if len(pairs) != len(set(pairs)):
        cl.add("graph:parallel-edges")
    if len({r["id"] for r in rels}) < len(rels):
        cl.add("graph:relationship-with-several-versions")
        byid = {}
        for r in rels:
            byid.setdefault(r["id"], set()).add((r["source_ref"], r["target_ref"]))
        if any(len(v) > 1 for v in byid.values()):
            cl.add("graph:relationship-version-with-other-endpoints")
    cl.add("graph:relationships:%s" % ("0" if not rels else "1-3" if len({r["id"] for r in rels}) <= 3 else "4+"))
    if newest_not_first:
        cl.add("newest-version-not-in-first-member")
    if dup:
        cl.add("copy-in-several-members")
    if split_rel:
        cl.add("relationship-apart-from-endpoint")
    for pr in case.get("probes", []):
        cl.add("probe:" + pr["p"])
        if pr["p"] != "query":
            cl.add("route:" + pr.get("route", "composite"))
            cl.add("argform:" + ("absent-id" if pr.get("x", 0) < 0 else pr.get("argform", "id")))
        if pr["p"] in ("rels", "related"):
            cl.add("nav:" + ("both-flags" if pr.get("so") and pr.get("to") else "source_only" if pr.get("so") else "target_only" if pr.get("to") else "both-directions"))
            cl.add("nav:relationship_type" if pr.get("rtype") is not None else "nav:any-type")
            if pr.get("rtype") == "":
                cl.add("nav:relationship_type-empty")
            if pr.get("filters"):
                cl.add("nav:extra-filters")
        if pr["p"] == "query":
            for f in pr["filters"]:
                cl.add("filter-route:" + f["route"])
            cl.add("query-route:" + pr.get("route", "composite"))
            if pr.get("as_filterset"):
                cl.add("query-as-FilterSet-object")
    for h in case.get("history") or []:
        cl.add("history:" + h["m"])
    if case.get("history"):
        cl.add("history:present")
    cl.update(G.pool_classes(case["pop"]))
    return (newest_not_first and dup and split_rel), sorted(cl)


# ---- strategy ------------------------------------------------------------------------------------------------------------------

@st.composite
def configuration(draw):
    # nodes: at least one identity so that created_by_ref links resolve
    ident_slots = draw(st.lists(st.tuples(st.sampled_from(["identity20", "identity21"]), st.integers(0, 1)), min_size=1, max_size=2, unique=True))
    other_names = [t for t in G.NODE_TEMPLATES if not t.startswith("identity")]
    weighted = other_names + [t for t in other_names if G.TEMPLATES[t][2] == "unreg"]
    other_slots = draw(st.lists(st.tuples(st.sampled_from(weighted), st.integers(0, 1)), min_size=2, max_size=6, unique=True))
    ident_ids = [G.slot_id(t, k) for t, k in ident_slots]
    creators = ident_ids + [G.oid("identity", 0x9a)]
    pop = []
    node_ids = []
    sdo_ids = []
    for t, k in ident_slots + other_slots:
        ov = None
        cls = G.TEMPLATES[t][2]
        if cls in ("sdo", "custom", "unreg") and not t.startswith("identity"):
            c = draw(st.sampled_from(creators + ident_ids + [None]))
            ov = {"created_by_ref": c} if c else None
        vs = draw(G.versions_of(t, k, 3, ov))
        if ov is None and cls in ("sdo", "custom", "unreg") and not t.startswith("identity") and "created_by_ref" in vs[0]:
            for v in vs:
                del v["created_by_ref"]
        pop.extend(vs)
        node_ids.append(vs[0]["id"])
        if cls not in ("sco", "unreg-obs"):
            sdo_ids.append(vs[0]["id"])
    nrel = draw(st.integers(0, 12))
    for r in range(nrel):
        t = draw(st.sampled_from(["relationship20", "relationship21"]))
        # STIX 2.0 relationships connect SDOs only; 2.1 relationships may also point at cyber-observable objects
        ends = st.sampled_from((sdo_ids if t == "relationship20" else node_ids) * 2 + [ABSENT_NODE])
        ov = {"id": G.oid("relationship", 0xa0 + r), "source_ref": draw(ends), "target_ref": draw(ends), "relationship_type": draw(st.sampled_from(REL_TYPES))}
        if draw(st.integers(0, 5)) == 0:
            ov["target_ref"] = ov["source_ref"]
        rvs = draw(G.versions_of(t, 0, 2, ov))
        if len(rvs) > 1 and draw(st.integers(0, 2)) == 0:
            # a later version of the relationship connects other objects (re-targeted or reversed): navigation works on stored VERSIONS
            how = draw(st.sampled_from(["reverse", "retarget", "resource"]))
            for v in rvs[1:]:
                if how == "reverse":
                    v["source_ref"], v["target_ref"] = v["target_ref"], v["source_ref"]
                elif how == "retarget":
                    v["target_ref"] = draw(ends)
                else:
                    v["source_ref"] = draw(ends)
        pop.extend(rvs)
    nm = draw(st.sampled_from([2, 2, 3, 3, 3, 4]))
    members = [{"kind": draw(st.sampled_from(["memory", "memory", "fs"])), "bundlify": draw(st.sampled_from([False, False, True]))} for _ in range(nm)]
    # mostly one holder per (id, version), sometimes several: members then really hold different parts of the graph
    place = [draw(st.one_of(st.integers(0, nm - 1).map(lambda k: 1 << k), st.integers(0, nm - 1).map(lambda k: 1 << k), st.integers(1, 2 ** nm - 1))) for _ in pop]
    order = draw(st.permutations(list(range(nm))))
    nest = draw(st.one_of(st.none(), st.none(), st.fixed_dictionaries({"k": st.integers(1, 3), "front": st.booleans()})))
    ends_used = {e for o in pop if o["type"] == "relationship" for e in (o["source_ref"], o["target_ref"])}
    hot = [i for i, o in enumerate(pop) if o["id"] in ends_used] or list(range(len(pop)))
    xi = st.one_of(st.sampled_from(hot), st.sampled_from(hot), st.sampled_from(hot), st.sampled_from(hot), st.integers(0, len(pop) - 1), st.just(-1))
    flags = st.sampled_from([(False, False), (False, False), (False, False), (True, False), (False, True), (True, True)])
    routes = st.sampled_from(NAV_ROUTES)

    @st.composite
    def nav(draw, kind):
        x = draw(xi)
        xid = pop[x]["id"] if x >= 0 else ABSENT_NODE
        around = M.relationships(pop, xid)
        rtype = draw(st.sampled_from([None, None, None, G.ABSENT_STR] + [r["relationship_type"] for r in around] * 2))
        flt = []
        if kind == "related" and draw(st.booleans()):
            rel = M.related_to(pop, xid)
            flt = draw(G.filter_set(rel or pop, 1, 2, no_ts=True))
        fl = draw(flags)
        return {"p": kind, "x": x, "argform": draw(st.sampled_from(["id", "dict", "object"])), "rtype": rtype, "so": fl[0], "to": fl[1],
                "route": draw(routes), "filters": flt, "flip": draw(st.integers(0, 5))}
    fr = st.sampled_from(["arg", "comp", "member"])
    query = st.builds(lambda fs, rs, ms, route, probe, flip, asfs: {"p": "query", "filters": [dict(f, route=rs[i % len(rs)], member=ms[i % len(ms)]) for i, f in enumerate(fs)],
                                                                     "route": route, "probe": probe, "flip": flip, "as_filterset": asfs},
                      G.filter_set(pop, 1, 3, no_ts=True), st.lists(fr, min_size=1, max_size=3), st.lists(st.integers(0, 3), min_size=1, max_size=3),
                      st.sampled_from(["composite", "composite", "env"]), st.integers(0, 40), st.integers(0, 5), st.sampled_from([False, False, True]))
    creator = st.builds(lambda x, af, route, flip: {"p": "creator", "x": x, "argform": af, "route": route, "flip": flip},
                        st.one_of(st.sampled_from([i for i, o in enumerate(pop) if o.get("created_by_ref")] or [0]), st.integers(0, len(pop) - 1)),
                        st.sampled_from(["dict", "object"]), routes, st.integers(0, 5))
    probes = draw(st.lists(st.one_of(nav("rels"), nav("related"), nav("related"), query, creator), min_size=3, max_size=9))
    hist_step = st.one_of(
        st.fixed_dictionaries({"m": st.sampled_from(["detach", "detach", "attach", "attach", "late-add", "late-add", "attach-twice"]),
                               "k": st.integers(0, nm - 1), "x": st.integers(0, max(0, len(pop) - 1))}),
        st.fixed_dictionaries({"m": st.just("parent-filter"), "via": st.sampled_from(["composite", "env"]), "x": st.integers(0, 40),
                               "filters": G.filter_set(pop, 1, 2, no_ts=True), "own": st.one_of(st.just([]), G.filter_set(pop, 1, 1, no_ts=True)),
                               "sibling": st.booleans()}))
    history = draw(st.one_of(st.just([]), st.lists(hist_step, min_size=2, max_size=7)))
    return {"pop": pop, "members": members, "place": place, "order": list(order), "nest": nest, "plain": draw(st.sampled_from(["memory", "fs"])), "probes": probes,
            "history": history}


REQUIRED_CLASSES = ["newest-version-not-in-first-member", "copy-in-several-members", "relationship-apart-from-endpoint", "nested-composite", "member:fs",
                    "member:memory", "graph:self-loop", "graph:parallel-edges", "graph:relationship-with-several-versions", "graph:relationship-version-with-other-endpoints", "probe:query", "probe:rels",
                    "probe:related", "probe:creator", "route:composite", "route:env", "route:store", "route:source", "argform:id", "argform:dict",
                    "argform:object", "argform:absent-id", "nav:both-flags", "nav:source_only", "nav:target_only", "nav:relationship_type", "nav:extra-filters",
                    "filter-route:arg", "filter-route:comp", "filter-route:member", "query-route:env",
                    "query-as-FilterSet-object", "history:detach", "history:attach", "history:late-add", "history:attach-twice", "history:parent-filter"]


def run(ctx):
    ctx.rule = ("configurations = population (1-2 identities + 2-6 other node ids x 1-3 versions incl. SCOs and dictionary-kept custom types, created_by_ref "
                "links to present/absent identities, 0-12 relationship ids x 1-2 versions incl. self-loops, parallel edges, dangling ends, 3 relationship "
                "types) x 2-4 member stores (memory / filesystem, with bundlify) x placement of every (id, version) in a non-empty subset of members x "
                "attachment order (get() for every id under all permutations when <= 3 members, 4 orders otherwise) x optional nested composite x 3-9 "
                "probes: filtered query (filters as argument / attached to the composite / attached to one member), relationships, related_to (+ extra "
                "filters), creator_of, with object / dict / id-string arguments, through CompositeDataSource, Environment(store=, source=), a plain store "
                "and its source; in half of the cases followed by a history on one live composite (members detached by id, attached again at the end, attached "
                "twice, objects added to a member after attachment, the live composite queried through a filter-carrying parent composite / Environment) with get / all_versions / query re-checked against the union of the currently attached "
                "members after every step. Non-trivial = some id has its newest version outside the first member of the order while that member holds an older "
                "one, some (id, version) is copied to several members, and some relationship sits in a member that lacks one of its (stored) endpoints; "
                "distinct = distinct case.")
    ctx.assumptions = ["copies of one (id, version) are identical; unversioned objects (SCOs, marking-definitions) have one content per id",
                       "relationships()/related_to() through a plain store or source are compared as sets (multiplicity not fixed by the statement); through a composite or Environment exactly once",
                       "related_to() never returns the object itself (docstring: 'except that of the object')",
                       "navigation is probed without filters attached to sources (whether attached filters govern relationships() is not stated)",
                       "get() is probed without attached filters; timestamp-valued filters are left to C12"]

    def body(case):
        fails = check_case(case)
        nt, cl = analyse(case)
        ctx.note(case, nt, cl)
        ctx.handle(case, fails)

    core.run_given(ctx, configuration(), body, ctx.n(300, 2000), label="c18-configurations")
    if ctx.evaluations >= 300:
        core.health(ctx, REQUIRED_CLASSES)
        ctx.notes["generator-health"] = "all %d required classes >= 1%% of evaluations" % len(REQUIRED_CLASSES)


def replay(case):
    return check_case(case)


def selftest():
    S.selftest()
