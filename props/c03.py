"""C03 -- every specification-valid object is accepted in strict mode and its
content preserved (alone, as a bundle member, as an observed-data member).

Generator: gen/objects.py (frozen spec model); every generated document is
first passed through the independent validator (a rejected one is a harness
error, never a library violation).
"""
import json
import re

from hypothesis import strategies as st

from gen import objects as G
from harness import core
from oracle import model as M
from oracle import tsref
from oracle import validator as VAL


# ---- content comparison (model guided) ----------------------------------------------------------------
def cmp_value(inp, out, d, ver, path, diffs):
    k = d["kind"]
    m = M.get(ver)
    if "fixed" in d:
        if inp != out:
            diffs.append((path, "fixed value changed: %r -> %r" % (inp, out)))
        return
    if k == "timestamp":
        try:
            if G.ts_sort_key(inp)[0] != tsref.parse(out)[0]:
                diffs.append((path, "timestamp instant changed: %r -> %r" % (inp, out)))
            elif ver == "2.1" or d.get("precision") != "millisecond":
                # sub-microsecond digits cannot be represented; anything coarser must survive
                pass
        except (ValueError, TypeError):
            diffs.append((path, "timestamp unreadable after round trip: %r -> %r" % (inp, out)))
    elif k == "float":
        if isinstance(out, bool) or not isinstance(out, (int, float)) or float(inp) != float(out):
            diffs.append((path, "number changed: %r -> %r" % (inp, out)))
    elif k == "integer":
        if isinstance(out, bool) or not isinstance(out, int) or inp != out:
            diffs.append((path, "integer changed: %r -> %r" % (inp, out)))
    elif k == "boolean":
        if inp is not out:
            diffs.append((path, "boolean changed: %r -> %r" % (inp, out)))
    elif k == "list":
        if not isinstance(out, list) or len(out) != len(inp):
            diffs.append((path, "list changed: %r -> %r" % (inp, out)))
        else:
            for i, (a, b) in enumerate(zip(inp, out)):
                cmp_value(a, b, d["of"], ver, "%s.[%d]" % (path, i), diffs)
    elif k == "embedded":
        cmp_class(inp, out, d["cls"], ver, path, diffs)
    elif k == "extensions":
        if not isinstance(out, dict) or set(out) != set(inp):
            diffs.append((path, "extension keys changed: %r -> %r" % (sorted(inp), sorted(out) if isinstance(out, dict) else out)))
        else:
            for key in inp:
                if key in m.extensions:
                    cmp_class(inp[key], out[key], m.extensions[key], ver, path + "." + key, diffs)
                elif inp[key] != out[key]:
                    diffs.append((path + "." + key, "extension content changed: %r -> %r" % (inp[key], out[key])))
    elif k == "observable-container":
        if not isinstance(out, dict) or set(out) != set(inp):
            diffs.append((path, "container keys changed"))
        else:
            for key in inp:
                cmp_class(inp[key], out[key], m.observables[inp[key]["type"]], ver, path + "." + key, diffs)
    elif k == "stix-object":
        v2 = VAL.detect_version(inp)
        cmp_top(inp, out, v2, path, diffs)
    elif k == "marking-definition-body":
        if inp != out:
            diffs.append((path, "definition changed: %r -> %r" % (inp, out)))
    else:  # string-like kinds, dictionary, hashes, id, reference, hex, binary, enum, selector, object-ref: exact
        if inp != out or type(inp) is not type(out):
            diffs.append((path, "value changed: %r -> %r" % (inp, out)))


def cmp_class(inp, out, clsname, ver, path, diffs):
    m = M.get(ver)
    props = m.props(clsname)
    if not isinstance(out, dict):
        diffs.append((path, "object became %r" % (out,)))
        return
    for name, val in inp.items():
        p = path + "." + name if path else name
        if name not in out:
            diffs.append((p, "property dropped (input value %r)" % (val,)))
            continue
        if name in props:
            cmp_value(val, out[name], props[name], ver, p, diffs)
        elif val != out[name]:
            diffs.append((p, "extension/unknown property changed: %r -> %r" % (val, out[name])))
    for name in out:
        if name in inp:
            continue
        p = path + "." + name if path else name
        d = props.get(name)
        ok = False
        if d is not None:
            if "default" in d and d["default"] != "$NOW" and out[name] == d["default"]:
                ok = True                                   # optional property at its specification default
            if "fixed" in d and out[name] == d["fixed"] and name == "spec_version":
                ok = True                                   # spec_version is optional on SCOs
            if name == "pattern_version" and inp.get("pattern_type") == "stix" and out[name] == ver:
                ok = True                                   # default pattern_version of STIX patterns = spec version
        if not ok:
            diffs.append((p, "property invented: %r" % (out[name],)))


def cmp_top(inp, out, ver, path, diffs):
    m = M.get(ver)
    cname = m.class_for_type(inp["type"]) or m.observables.get(inp["type"])
    cmp_class(inp, out, cname, ver, path, diffs)


# ---- known-defect classification -----------------------------------------------------------------------
FRAC7 = re.compile(r"\.\d{7,}Z$")


def input_features(doc):
    f = set()

    def walk(x, key=None):
        if isinstance(x, dict):
            for k, v in x.items():
                walk(v, k)
        elif isinstance(x, list):
            for v in x:
                walk(v, key)
        elif isinstance(x, str):
            if tsref.CANON_RE.match(x) and FRAC7.search(x):
                f.add("ts>6digits")
            if x == "" and key in ("relationship_type", "statement"):
                f.add("empty-positional-string")
    walk(doc)
    return f


def selector_feature_set(doc):
    f = set()
    for gm in doc.get("granular_markings", []) if isinstance(doc, dict) else []:
        for sel in gm.get("selectors", []):
            try:
                f |= G.selector_features(doc, sel)
            except (KeyError, IndexError, TypeError):
                f.add("unresolvable")
    return f


def check_case(case):
    import stix2
    from stix2.exceptions import STIXError
    ver, doc, wrap = case["ver"], case["doc"], case["wrap"]
    fails = []
    if wrap == "alone":
        payload = doc
    elif wrap == "bundle":
        payload = {"type": "bundle", "id": "bundle--7e4ba2c2-6b3e-4a0f-9a6e-0e2f5f5d0a11", "objects": [doc]}
        if ver == "2.0":
            payload["spec_version"] = "2.0"
    else:
        payload = case["host"]
    arg = json.dumps(payload) if case.get("text") else payload
    obj, exc = core.guarded(stix2.parse, arg, allow_custom=False)
    feats = input_features(payload)
    if exc is None:
        # naming the content's own version ("locking" the parser) refuses nothing that is valid under that version -- a 2.1 bundle may
        # carry 2.0 members also then
        own = ("2.0" if "spec_version" in payload else "2.1") if payload.get("type") == "bundle" else ver
        obj_v, exc_v = core.guarded(stix2.parse, arg, allow_custom=False, version=own)
        if exc_v is not None:
            fails.append(("valid-refused:own-version-named", "parse(%s, version=%r) raised %s although the same call without a version accepts it" % (
                core.short(payload, 300), own, core.fmt_exc(exc_v))))
        elif type(obj_v) is not type(obj) or core.guarded(obj_v.serialize)[0] != core.guarded(obj.serialize)[0]:
            if "id" in payload or payload.get("type") == "bundle":     # (an id-less 2.1 observable gets a fresh random id on every parse)
                fails.append(("content-changed:own-version-named", "parse(..., version=%r) gives %s, without a version %s" % (own, core.short(str(obj_v), 200), core.short(str(obj), 200))))
    if exc is not None:
        key = "valid-refused"
        msg = str(exc)
        if "ts>6digits" in feats and "timestamp" in msg.lower() or ("ts>6digits" in feats and "recognizable format" in msg):
            key = "valid-refused:timestamp-more-than-6-fraction-digits"
        elif "empty-positional-string" in feats and type(exc).__name__ == "MissingPropertiesError":
            key = "valid-refused:empty-string-for-positional-property"
        elif payload.get("type") == "bundle" and "objects" not in payload and isinstance(exc, KeyError):
            key = "valid-refused:bundle-without-objects"
        elif "selector" in msg.lower() or type(exc).__name__ == "InvalidSelectorError":
            sf = set()
            for d in ([doc] if wrap != "container" else [payload]):
                sf |= selector_feature_set(d)
            named = sorted(sf & {"falsy-value", "dup-element", "through-object", "uppercase"})
            key = "valid-selector-refused:" + ("+".join(named) if named else "plain")
        elif not isinstance(exc, (STIXError, ValueError, TypeError)):
            key = "valid-refused:crash:%s" % type(exc).__name__
        fails.append((key, "parse(%s, allow_custom=False) raised %s" % (core.short(payload, 500), core.fmt_exc(exc))))
        return fails
    out = json.loads(obj.serialize(include_optional_defaults=True))
    diffs = []
    cmp_top(payload, out, VAL.detect_version(payload) if payload.get("type") == "bundle" else ver, "", diffs)
    for p, d in diffs[:3]:
        leaf = re.sub(r"\[\d+\]", "[i]", p).split(".")[-1]
        kind = d.split(":")[0]
        if "timestamp" in kind and "ts>6digits" in feats:
            continue
        fails.append(("content-changed:%s" % kind.replace(" ", "-"), "%s: %s  (input %s)" % (p, d, core.short(payload, 400))))
    return fails


# ---- strategies ---------------------------------------------------------------------------------------------
OPTS = {"ts_max_digits": 9, "selectors": "any", "max_optional": 7, "toplevel_ext": True}
HOST20 = {"type": "observed-data", "id": "observed-data--6e2d1f6a-3b0f-4a5c-8d53-1c0b8b3a9f10", "created": "2020-01-01T00:00:00.000Z",
          "modified": "2020-01-01T00:00:00.000Z", "first_observed": "2020-01-01T00:00:00Z", "last_observed": "2020-01-01T00:00:00Z",
          "number_observed": 1}
HOST21 = dict(HOST20, spec_version="2.1")


@st.composite
def case_strategy(draw):
    ver = draw(st.sampled_from(["2.0", "2.1"]))
    wrap = draw(st.sampled_from(["alone", "alone", "bundle", "container"]))
    text = draw(st.booleans())
    opts = dict(OPTS)
    shape = draw(st.sampled_from(["random", "random", "random", "minimal", "maximal"]))
    if shape != "random":
        opts[shape] = True
    if wrap == "container":
        cont = draw(G.sco_container(ver if ver == "2.0" else "2.1", opts))
        host = dict(HOST20 if ver == "2.0" else HOST21)
        host["objects"] = cont
        return {"ver": ver, "doc": cont, "wrap": wrap, "host": host, "text": text, "shape": shape}
    if draw(st.integers(0, 14)) == 0:
        doc = draw(G.bundle(ver, opts, max_members=3, mixed=True))
        return {"ver": ver, "doc": doc, "wrap": "alone", "text": text, "shape": "bundle"}
    doc = draw(G.valid_object(ver, opts=opts))
    cprops = M.get(ver).props(M.get(ver).class_for_type(doc["type"]) or "")
    if "granular_markings" in cprops and "labels" in cprops and draw(st.integers(0, 9)) == 0:
        # a list of more than ten elements with granular markings on its late elements (index order is not text order: [10] < [2])
        n = draw(st.integers(11, 13))
        doc["labels"] = (list(doc.get("labels") or []) + ["label-%d" % i for i in range(n)])[:n]
        idx = draw(st.lists(st.sampled_from([1, 2, 9, 10, n - 1]), min_size=1, max_size=3, unique=True))
        doc["granular_markings"] = list(doc.get("granular_markings") or []) + [
            {"marking_ref": "marking-definition--613f2e26-407d-48c7-9eca-b8e91df99dc9", "selectors": ["labels.[%d]" % i for i in idx]}]
        shape = "long-list"
    free = [p for p in G.all_paths(doc) if p.split(".")[-1] in FREE_DICTS and isinstance(G.get_path(doc, p), dict)
            and re.match(r"^[a-z0-9_-]{3,250}(\.(\[\d+\]|[a-zA-Z0-9_-]{1,250}))*\Z", p)]
    if "granular_markings" in cprops and free and draw(st.integers(0, 2)) == 0:
        # a free-form dictionary with keys at the length limits (3..256 characters in 2.0, 1..250 in 2.1), each addressed by a selector
        at = draw(st.sampled_from(sorted(free)))
        keys = draw(st.lists(st.sampled_from(["k" * 250, "K" * 256, "kk-" * 85, "abc"] if ver == "2.0" else ["k" * 250, "K" * 249, "k", "Z9"]),
                             min_size=1, max_size=2, unique=True))
        for k in keys:
            G.get_path(doc, at)[k] = draw(st.sampled_from(["v", "", 0, False]))
        doc["granular_markings"] = list(doc.get("granular_markings") or []) + [
            {"marking_ref": "marking-definition--613f2e26-407d-48c7-9eca-b8e91df99dc9", "selectors": ["%s.%s" % (at, k) for k in keys]}]
        shape = "dict-key-limits"
    return {"ver": ver, "doc": doc, "wrap": wrap, "text": text, "shape": shape}


# free-form dictionaries (keys chosen by the producer), by property name
FREE_DICTS = {"environment_variables", "additional_header_fields", "request_header", "exif_tags", "document_info_dict", "ipfix", "startup_info"}


def classes_of(case):
    doc = case["doc"]
    cl = ["ver:" + case["ver"], "wrap:" + case["wrap"], "shape:" + case["shape"], "input:" + ("text" if case.get("text") else "dict")]
    if case["wrap"] != "container":
        cl.append("type:%s/%s" % (case["ver"], doc.get("type")))
    else:
        cl.extend("member:%s" % o["type"] for o in doc.values())
    cl.extend(sorted(G.features(doc)))
    if isinstance(doc, dict):
        for f in selector_feature_set(doc):
            cl.append("selector:" + f)
    return cl


NT = {"val:false", "val:zero", "val:empty-string", "ts:>3-digits", "has:granular_markings", "has:extensions", "selector:nested",
      "val:int>2^53", "val:num:exp-small", "val:num:exp-large", "has:objects"}


def run(ctx):
    ctx.rule = ("objects built by construction from the frozen specification model (every type of 2.0/2.1, drawn/minimal/maximal optional "
                "subsets repaired against the co-constraints, vocabulary entries, legal reference targets, boundary numbers, falsy values, "
                "0-9 fraction digits, granular markings addressing any path), presented alone / in a bundle / as observed-data container "
                "members, as dict or JSON text; up to 3 cases per (version, type) are re-run in fresh processes in four orders (as generated, "
                "reversed, all 2.0 first, all 2.1 first). Non-trivial = carries a falsy value, >3 fraction digits, integer > 2^53, exponent-form "
                "float, granular markings, extensions or a container; distinct = distinct (document, wrapper).")
    ctx.assumptions = ["specmodel/v20.json, v21.json: hand-audited transcription of the STIX 2.0/2.1 property tables (specmodel/AUDIT.md)",
                       "generated documents are pre-checked by oracle/validator.py; a rejected one aborts the run (exit 2)"]

    def body(case):
        payload = case["doc"] if case["wrap"] != "container" else case["host"]
        errs = VAL.validate(payload, case["ver"] if payload.get("type") != "bundle" else None)
        if errs:
            raise core.HarnessError("generator produced a document its own validator rejects: %s in %s" % (errs[:2], core.short(payload, 800)))
        fails = check_case(case)
        cl = classes_of(case)
        ctx.note(case, bool(set(cl) & NT), cl)
        ctx.keep(case, (case["ver"], case["doc"].get("type") if case["wrap"] != "container" else "container", case["wrap"] == "bundle"), per_group=3)
        ctx.handle(case, fails)

    # real documents shipped with the repository (test data, SCO example bundle): fixed seeds, each first passed through the
    # independent validator (documents it rejects -- e.g. 2.0 data with custom content -- are counted and skipped)
    if ctx.worker in (None, 0):
        import glob
        import os
        ctx.collect_only = True
        files = sorted(glob.glob(os.path.join(core.REPO, "stix2", "test", "v2*", "stix2_data", "**", "*.json"), recursive=True))
        files.append(os.path.join(core.REPO, "sco-examples-bundle.json"))
        for fn in files:
            try:
                with open(fn) as f:
                    data = json.load(f)
            except (OSError, ValueError):
                continue
            objs = data if isinstance(data, list) else data.get("objects", [data]) if isinstance(data, dict) and data.get("type") == "bundle" else [data]
            for o in objs:
                if not isinstance(o, dict) or not isinstance(o.get("type"), str):
                    continue
                ver = VAL.detect_version(o)
                if VAL.validate(o, ver):
                    ctx.exclude("corpus-document-not-valid-per-model")
                    continue
                for text in (False, True):
                    case = {"ver": ver, "doc": o, "wrap": "alone", "text": text, "shape": "corpus"}
                    ctx.note(case, True, ["corpus", "type:%s/%s" % (ver, o["type"])])
                    ctx.handle(case, check_case(case))
        ctx.collect_only = False

    core.run_given(ctx, case_strategy(), body, ctx.n(2500, 12000), label="c03-main")
    # acceptance must not depend on what the process handled before (class-level tables, caches): the same cases again in
    # fresh processes, in four orders
    core.order_probe(ctx)


def replay(case):
    return check_case(case)
