"""C12 -- queries return exactly the objects satisfying every filter.

A case is one population plus a list of queries against it:

    {"bundlify": bool, "pop": [obj, ...],
     "queries": [{"filters": [{"prop", "op", "value", "route"}, ...], "via": "direct"|"comp"|"outer", "split": int, "probe": int}, ...]}

route = how the filter reaches the source: "arg" (query argument), "attached"
(source.filters.add), "comp" (attached to a CompositeDataSource holding the
source), "outer" (attached to a second composite holding the first, i.e. it
arrives as _composite_filters at the inner composite).  Subjects: MemorySource,
FileSystemSource over a directory written by FileSystemSink, a composite over
both.  Expected answers: oracle.storemodel (naive evaluation over the population).
"""
import json
from hypothesis import strategies as st

from gen import stores as G
from harness import core
from oracle import storemodel as M
from props import storecommon as S

ROUTES = ["arg", "arg", "attached", "comp", "outer"]


def _plainf(f):
    return {"prop": f["prop"], "op": f["op"], "value": f["value"]}


def _dedup(fs):
    out = []
    for f in fs:
        if f not in out:
            out.append(f)
    return out


class Subjects(object):
    def __init__(self, case, tmp, fails):
        import stix2
        self.stix2 = stix2
        self.fails = fails
        self.pop = case["pop"]
        self.model = M.ListModel(self.pop)
        self.ids = self.model.ids()
        self.ok = True
        self.mem, bad = self._call("MemorySource(stix_data)", lambda: stix2.MemorySource(stix_data=[dict(o) for o in self.pop]))
        sink = stix2.FileSystemSink(tmp, allow_custom=True, bundlify=bool(case.get("bundlify")))
        stage = case.get("stage")
        if stage:
            # the source is alive (and has been asked) while the directory is still filling: objects without timestamps first when
            # asked for, so that a type directory is seen flat before its first <id>/<modified>.json arrives
            order = list(self.pop)
            if stage.get("flat_first"):
                order = [o for o in order if "modified" not in o] + [o for o in order if "modified" in o]
            k = 1 + stage.get("k", 0) % max(1, len(order))
            first, rest = order[:k], order[k:]
            _, bad2 = self._call("FileSystemSink.add", lambda: sink.add([dict(o) for o in first]))
            self.fs = stix2.FileSystemSource(tmp, allow_custom=True)
            if not bad2:
                got, bad2 = self._call("filesystem.query", self.fs.query)
                if not bad2:
                    S.compare_answer("filesystem.query() on the partly filled directory", got, M.ListModel(first).objs, self.fails, "filesystem:staged-query")
                for sid in sorted({o["id"] for o in rest})[:3]:
                    self._call("filesystem.get", self.fs.get, sid)       # asked before it exists
            if rest and not bad2:
                _, bad2 = self._call("FileSystemSink.add", lambda: sink.add([dict(o) for o in rest]))
        else:
            _, bad2 = self._call("FileSystemSink.add", lambda: sink.add([dict(o) for o in self.pop]))
            self.fs = stix2.FileSystemSource(tmp, allow_custom=True)
        self.ok = not (bad or bad2)

    def _call(self, who, fn, *a, **kw):
        out, exc = core.guarded(fn, *a, **kw)
        if exc is not None:
            if core.lib_frame(exc) is None:
                raise exc
            self.fails.append(("crash:%s:%s" % (who, type(exc).__name__), "%s raised %s at %s" % (who, core.fmt_exc(exc), core.lib_frame(exc))))
            return None, True
        return out, False

    # ---- one answer against the model ----------------------------------------------------------------
    def expect(self, where, got, filters, prefix, model=None):
        model = model or self.model
        exp = model.query(filters)
        if got is None:
            return exp
        got = [S.plain(x) for x in got]
        missing, extra = S.diff_multiset(got, exp)
        if not missing and not extra:
            return exp
        # attribute to a named behaviour if (and only if) that behaviour reproduces the answer exactly
        for quirk, keys in ((S.quirk_text, ["dict-kept-timestamp-compared-as-text"]), (S.quirk_parsed_in, ["timestamp-in-list-not-converted"]),
                            (S.quirk_both, ["dict-kept-timestamp-compared-as-text", "timestamp-in-list-not-converted"])):
            alt = model.query(filters, quirk_for=quirk)
            m2, e2 = S.diff_multiset(got, alt)
            if not m2 and not e2:
                for k in keys:
                    self.fails.append((k, "%s with %s: got %s, documented semantics give %s" % (where, core.short(filters, 400), S.describe(got), S.describe(exp))))
                return exp
        S.compare_answer(where, got, exp, self.fails, prefix, "with %s" % core.short(filters, 400))
        return exp

    # ---- routes -----------------------------------------------------------------------------------------
    def routed(self, sources, q, what, probe_id=None):
        """Deliver q's filters by their routes to `sources` (list of leaf sources) and ask `what` at the top."""
        stix2 = self.stix2
        by = {r: _dedup([_plainf(f) for f in q["filters"] if f["route"] == r]) for r in ("arg", "attached", "comp", "outer")}
        via = q.get("via", "direct")
        level = 2 if (by["outer"] or via == "outer") else 1 if (by["comp"] or via == "comp" or len(sources) > 1) else 0
        att = []
        for f in S.mk_filters(by["attached"]):   # two spellings of one instant give equal Filter objects: attach (and later remove) each once
            if f not in att:
                att.append(f)
        try:
            for s in sources:
                s.filters.add(list(att))
            top = sources[0]
            if level >= 1:
                top = stix2.CompositeDataSource()
                top.add_data_sources(list(sources))
                top.filters.add(S.mk_filters(by["comp"]))
            if level == 2:
                outer = stix2.CompositeDataSource()
                outer.add_data_source(top)
                outer.filters.add(S.mk_filters(by["outer"]))
                top = outer
            if what == "query":
                return self._call("query[routes]", top.query, S.mk_filters(by["arg"]))[0]
            if what == "all_versions":
                return self._call("all_versions[routes]", top.all_versions, probe_id)[0]
            return self._call("get[routes]", top.get, probe_id)
        finally:
            for s in sources:
                s.filters.remove(list(att))
                if len(s.filters):
                    self.fails.append(("filters-remove-left-residue", "after removing the attached filters %d remain" % len(s.filters)))
                    s.filters = stix2.datastore.filters.FilterSet()

    # ---- one query --------------------------------------------------------------------------------------------
    def run_query(self, q):
        F = [_plainf(f) for f in q["filters"]]
        fl, exc = core.guarded(S.mk_filters, F)
        if exc is not None:
            if core.lib_frame(exc) is None:
                raise exc
            self.fails.append(("crash:Filter:%s" % type(exc).__name__, "%s: %s" % (core.short(F, 300), core.fmt_exc(exc))))
            return None
        res = {}
        # (1) everything as query argument
        for name, src in (("memory", self.mem), ("filesystem", self.fs)):
            got, _ = self._call("%s.query" % name, src.query, S.mk_filters(F))
            exp = self.expect("%s.query" % name, got, F, name + ":query")
            res[name] = None if got is None else S.keyset([S.plain(x) for x in got])
        # (1b) the caller's own FilterSet object, reused across sources that have attached filters: every answer as before,
        #      and the FilterSet must still hold exactly the filters the caller put in
        import stix2
        FS = stix2.datastore.filters.FilterSet
        fs_obj, exc = core.guarded(lambda: FS(S.mk_filters(F)))
        if exc is None:
            before = sorted(repr(f) for f in fs_obj)
            always = stix2.Filter("type", "!=", "x-no-such-type-anywhere")     # attached, always true: answers must not change
            for src in (self.mem, self.fs):
                src.filters.add(always)
            try:
                for name, src in (("filesystem", self.fs), ("memory", self.mem), ("filesystem", self.fs)):
                    got, _ = self._call("%s.query(FilterSet)" % name, src.query, fs_obj)
                    self.expect("%s.query with a reused FilterSet object" % name, got, F, name + ":query-filterset-object")
                    after = sorted(repr(f) for f in fs_obj)
                    if after != before:
                        self.fails.append(("query-argument-modified:FilterSet", "%s.query(FilterSet) changed the caller's FilterSet: %s -> %s" % (name, before, after)))
                        break
            finally:
                for src in (self.mem, self.fs):
                    src.filters.remove(always)
        # (2) the same filters through their routes
        for name, srcs in (("memory", [self.mem]), ("filesystem", [self.fs]), ("composite", [self.mem, self.fs])):
            got = self.routed(srcs, q, "query")
            self.expect("%s.query via routes %s" % (name, [f["route"] for f in q["filters"]]), got, F, name + ":routed-query")
        # (3) laws on the implementation alone: conjunction = intersection (=> adding a filter can only shrink)
        mask = q.get("split", 0)
        F1 = [f for i, f in enumerate(F) if not (mask >> i) & 1]
        F2 = [f for i, f in enumerate(F) if (mask >> i) & 1]
        sizes = [len(exp)]
        if F1 and F2:
            for name, src in (("memory", self.mem), ("filesystem", self.fs)):
                parts = []
                for Fi in (F1, F2):
                    got, _ = self._call("%s.query" % name, src.query, S.mk_filters(Fi))
                    e = self.expect("%s.query" % name, got, Fi, name + ":query")
                    parts.append(None if got is None else S.keyset([S.plain(x) for x in got]))
                    if name == "memory":
                        sizes.append(len(e))
                if res[name] is not None and None not in parts:
                    inter = sorted(k for k in parts[0] if k in parts[1])
                    if res[name] != inter:
                        self.fails.append(("law:conjunction-is-not-intersection:" + name, "%s: query(%s)=%s but query(%s) ∩ query(%s) = %s" % (
                            name, core.short(F, 200), res[name], core.short(F1, 200), core.short(F2, 200), inter)))
        # (4) attached / passed-down filters also govern all_versions and get
        if self.ids:
            sid = self.ids[q.get("probe", 0) % len(self.ids)]
            nonarg = [_plainf(f) for f in q["filters"] if f["route"] != "arg"]
            vs_all = self.model.versions(sid)
            vs_ok = self.model.versions(sid, nonarg)
            for name, srcs in (("memory", [self.mem]), ("filesystem", [self.fs]), ("composite", [self.mem, self.fs])):
                got = self.routed(srcs, q, "all_versions", sid)
                if got is not None:
                    # same attribution as for queries: all_versions is a query on the id
                    self.expect("%s.all_versions(%s) with attached/passed-down filters" % (name, sid), got,
                                nonarg + [{"prop": "id", "op": "=", "value": sid}], name + ":routed-all-versions")
                got, bad = self.routed(srcs, q, "get", sid)
                if bad:
                    continue
                if got is not None:
                    g = S.plain(got)
                    if not any(M.canon(g) == M.canon(v) for v in vs_all):
                        self.fails.append((name + ":routed-get-foreign", "get(%s) returned %s which was not stored" % (sid, core.short(g, 300))))
                    elif not M.matches(nonarg, [v for v in vs_all if M.canon(v) == M.canon(g)][0]) and not self._ts_quirk_possible(nonarg):
                        self.fails.append((name + ":routed-get-ignores-filters", "get(%s) returned modified=%s although the attached/passed-down filters %s exclude it" % (
                            sid, g.get("modified"), core.short(nonarg, 300))))
                elif len(vs_ok) == len(vs_all) and vs_all and not self._ts_quirk_possible(nonarg):
                    self.fails.append((name + ":routed-get-missing", "get(%s) returned None although every stored version satisfies the attached/passed-down filters %s" % (
                        sid, core.short(nonarg, 300))))
        self.last_result = [[k[0], k[1]] for k in M_keys(exp)]
        return sizes

    @staticmethod
    def _ts_quirk_possible(filters):
        return any(G.PATHS.get(f["prop"]) in ("ts", "ts2") for f in filters)


def M_keys(objs):
    return sorted(M.key_of(o) for o in objs)


def check_case(case, per_query=None):
    fails = []
    with S.lib_session(), S.scratch_dir() as tmp:
        S.require_accepted(case["pop"])
        sub = Subjects(case, tmp, fails)
        if sub.ok:
            for q in case["queries"]:
                n0 = len(fails)
                sizes = sub.run_query(q)
                if per_query is not None:
                    per_query(q, sizes, getattr(sub, "last_result", None) if sizes is not None else None)
    seen, out = set(), []
    for k, d in fails:
        if k not in seen:
            seen.add(k)
            out.append((k, d))
    return out


# ---- classes / non-triviality ---------------------------------------------------------------------------------

def query_classes(pop, q):
    F = q["filters"]
    cl = set(G.filter_classes(F))
    cl.add("filters:%d" % len(F))
    for f in F:
        cl.add("route:" + f["route"])
    if len({f["route"] for f in F}) > 1:
        cl.add("routes-mixed")
    cl.add("via:" + q.get("via", "direct"))
    tf = [f for f in F if f["prop"] == "type"]
    idf = [f for f in F if f["prop"] == "id"]
    if len(tf) > 1:
        cl.add("type-filter-repeated")
    if len(idf) > 1:
        cl.add("id-filter-repeated")
    eq = {}
    for f in F:
        if f["op"] == "=" and f["prop"] not in ("type", "id"):
            eq.setdefault(f["prop"], []).append(json.dumps(f["value"], sort_keys=True))
    if any(len(set(v)) > 1 for v in eq.values()):
        cl.add("equalities-on-one-property")        # satisfiable together for list-valued properties and for respelled timestamps
    for f in tf + idf:
        # value shapes the operator is not "meant" for (still evaluated as Python evaluates them)
        if f["op"] in ("=", "!=") and isinstance(f["value"], list):
            cl.add("type-or-id:%s-with-list-value" % f["op"])
        if f["op"] == "in" and isinstance(f["value"], str):
            cl.add("type-or-id:in-with-text-value")
    usual = lambda f: isinstance(f["value"], list) == (f["op"] == "in")
    if tf and idf:
        cl.add("type-and-id-filters")
        allowed = [set([f["value"]] if f["op"] == "=" else f["value"]) for f in tf if f["op"] in ("=", "in") and usual(f)]
        for f in idf:
            if f["op"] in ("=", "in") and allowed and usual(f):
                for v in ([f["value"]] if f["op"] == "=" else f["value"]):
                    if isinstance(v, str) and any(v.split("--")[0] not in a for a in allowed):
                        cl.add("id-contradicts-type-filter")
    types = {o["type"] for o in pop}
    for f in tf + idf:
        vals = f["value"] if isinstance(f["value"], list) else [f["value"]]
        if any(not isinstance(v, str) for v in vals):
            cl.add("type-or-id:non-text-member")
        vals = [v for v in vals if isinstance(v, str)]
        if any(v in ("..", ".") or "/" in v for v in vals):
            cl.add("type-or-id:path-like-text")
        if f["op"] in ("=", "in", "!=") and any(v.split("--")[0] not in types for v in vals):
            cl.add("type-or-id-of-absent-type")
        if f["op"] == "in" and not vals:
            cl.add("empty-in-list")
    return cl


def _nontrivial(pop, q, sizes):
    F = q["filters"]
    return (len(F) >= 2 and any(f["prop"] in ("type", "id") for f in F) and len({o["type"] for o in pop}) >= 2
            and sizes is not None and any(0 < s < len(pop) for s in sizes))


# ---- strategy -----------------------------------------------------------------------------------------------------

@st.composite
def population_and_queries(draw):
    pop = draw(G.pool(5, 12, 3, 30))
    nq = draw(st.integers(4, 10))
    queries = []
    for _ in range(nq):
        fs = draw(G.filter_set(pop, 0, 5))
        routed = draw(st.integers(0, 3)) > 0
        for f in fs:
            f["route"] = draw(st.sampled_from(ROUTES)) if routed else "arg"
        queries.append({"filters": fs, "via": draw(st.sampled_from(["direct", "direct", "comp", "outer"])),
                        "split": draw(st.integers(0, 31)), "probe": draw(st.integers(0, 40))})
    stage = draw(st.one_of(st.none(), st.fixed_dictionaries({"k": st.integers(0, 30), "flat_first": st.booleans()})))
    return {"bundlify": draw(st.sampled_from([False, False, False, True])), "pop": pop, "queries": queries, "stage": stage}


REQUIRED_CLASSES = ["op:" + o for o in M.OPS] + ["route:arg", "route:attached", "route:comp", "route:outer", "routes-mixed", "kind:type", "kind:id",
                                                 "kind:str", "kind:int", "kind:bool", "kind:ts", "kind:list", "kind:fan", "dotted-path", "value:datetime",
                                                 "value:timestamp-text", "type-filter-repeated", "equalities-on-one-property", "type-and-id-filters", "id-contradicts-type-filter",
                                                 "type-or-id-of-absent-type", "result:empty", "result:proper-subset", "result:everything", "filters:0", "filters:5"]


def run(ctx):
    ctx.rule = ("populations of 5-12 ids x 1-3 versions (<= 30 objects: 2.0/2.1 SDO/SROs incl. hyphenated types, SCOs, marking-definitions, registered "
                "and unregistered custom types, nested and list-valued properties) x 4-10 filter sets of 0-5 filters each; every operator on every "
                "property kind with type-compatible values drawn from the population (type/id filters weighted 40%: repeated, contradictory, `in` "
                "lists, !=, absent types); each filter delivered as query argument / attached to the source / attached to a composite / passed down "
                "by an outer composite; subjects MemorySource, FileSystemSource (written by FileSystemSink, with and without bundlify), composite over "
                "both; in half of the populations the filesystem source exists and has been queried before the second part of the population is written; "
                "plus conjunction=intersection on the implementation alone and all_versions/get under attached filters. One evaluation = one "
                "(population, filter set). Non-trivial = >= 2 filters of which >= 1 on type or id, population of >= 2 types, and 0 < |result| < "
                "|population| for the set or one of its two parts; distinct = distinct (filter-set shape, result).")
    ctx.assumptions = ["a filter on a property the object lacks never holds (filters.py comment and repository tests)",
                       "on list-valued paths only =, in, contains are generated (the documentation does not say whether != / ordering are existential)",
                       "`in` always gets a list; `contains` on a list gets a whole element or an absent word; dictionary values are not generated",
                       "datetime filter values only target properties that no dictionary-kept object carries (str vs datetime is a type-incompatible comparison)",
                       "get() under filters that tell versions of the id apart is only checked for soundness (latest-then-filter vs filter-then-latest is not fixed by the statement)"]

    def body(case):
        notes = []

        def per_query(q, sizes, result):
            cl = query_classes(case["pop"], q)
            if sizes is not None:
                cl.add("result:empty" if sizes[0] == 0 else "result:everything" if sizes[0] == len(case["pop"]) else "result:proper-subset")
            shape = (G.filter_shape(q["filters"]), result)   # distinct = (filter-set shape, expected result)
            notes.append(({"bundlify": case.get("bundlify"), "pop": case["pop"], "queries": [q], "stage": case.get("stage")}, _nontrivial(case["pop"], q, sizes), sorted(cl),
                          core.fingerprint(shape)))
        fails = check_case(case, per_query)
        for sub, nt, cl, fp in notes:
            ctx.note(sub, nt, cl, fp=fp)
        ctx.cls(*["pop-" + c for c in G.pool_classes(case["pop"])])
        ctx.cls("populations", "bundlify" if case.get("bundlify") else "plain-files")
        if case.get("stage"):
            ctx.cls("source-alive-while-directory-fills")
        ctx.handle(case, fails)

    core.run_given(ctx, population_and_queries(), body, ctx.n(300, 1800), label="c12-queries")
    if ctx.evaluations >= 400:
        core.health(ctx, REQUIRED_CLASSES)


def replay(case):
    return check_case(case)


def selftest():
    S.selftest()
