"""C04 -- custom content is admitted only on request and is always detected.

valid object x every injection site x allow_custom in {False, True} x entry point.
Strict: the call must refuse.  Permissive: has_custom == (strict re-parse of the
serialization is refused), both directions; controls have has_custom False.
"""
import json

from hypothesis import strategies as st

from gen import corrupt as C
from gen import objects as G
from harness import core
from oracle import model as M

UUID = "3f2504e0-4f89-41d3-9a0c-0305e82c3301"
FAKE_TOPLEVEL = {"extension-definition--" + UUID: {"extension_type": "toplevel-property-extension"}}


def injections(doc, ver):
    """All custom-content injection edits for a valid top-level document (same edit format as gen/corrupt.py)."""
    m = M.get(ver)
    cname = m.class_for_type(doc["type"])
    out = [
        {"path": ["x_custom_prop"], "op": "add", "kind": "custom-property:top", "value": "v"},
        {"path": ["foo_bar"], "op": "add", "kind": "custom-property:top-unprefixed", "value": 5},
        {"path": ["custom_properties"], "op": "add", "kind": "custom_properties-key", "value": {"x_hidden": 1}},
        # a custom NAME whose value is the library's "absent" (null / empty list are dropped from every object): nothing custom is left in the
        # result, so strict may refuse the request or build the object without it; the flag must still agree with a strict re-parse
        {"path": ["x_void_prop"], "op": "add", "kind": "void:custom-name-with-null", "value": None},
        {"path": ["x_void_list"], "op": "add", "kind": "void:custom-name-with-empty-list", "value": []},
    ]
    for p, val, d, owner in C.walk(doc, cname, ver):
        k = d["kind"]
        if k == "embedded" and isinstance(val, dict):
            out.append({"path": list(p) + ["x_custom_prop"], "op": "add", "kind": "custom-property:embedded:" + d["cls"], "value": "v"})
            if "extensions" not in m.props(d["cls"]):
                # embedded objects cannot be extended: an 'extensions' member claiming a toplevel-property-extension is custom content
                out.append({"path": list(p) + ["extensions"], "op": "add", "kind": "fake-toplevel-extension:embedded:" + d["cls"], "value": dict(FAKE_TOPLEVEL),
                            "also_set": {"foo_bar": 5}})
        elif k == "extensions" and isinstance(val, dict):
            out.append({"path": list(p) + ["x-unknown-ext"], "op": "add", "kind": "unregistered-extension", "value": {"a": 1}})
            if ver == "2.0":   # extension definitions are a 2.1 mechanism; in 2.0 such a key is an unregistered (custom) extension
                out.append({"path": list(p) + ["extension-definition--" + UUID], "op": "add", "kind": "extension-definition-in-2.0",
                            "value": {"extension_type": "property-extension", "a": 1}})
            for key, ev in val.items():
                if key in m.extensions and isinstance(ev, dict):
                    out.append({"path": list(p) + [key, "x_custom_prop"], "op": "add", "kind": "custom-property:extension:" + key, "value": "v"})
        elif k == "hashes" and isinstance(val, dict):
            out.append({"path": list(p) + ["x_custom_hash"], "op": "add", "kind": "custom-hash", "value": "abc123"})
            out.append({"path": list(p) + ["FOO-1"], "op": "add", "kind": "custom-hash:unknown-name", "value": "abc123"})
            other = "SHA-224" if ver == "2.1" else "TLSH"
            out.append({"path": list(p) + [other], "op": "add", "kind": "custom-hash:other-version-name", "value": "a" * (56 if ver == "2.1" else 70)})
        elif k == "reference" and d.get("generics") and isinstance(val, str):
            out.append({"path": list(p), "op": "set", "kind": "ref-to-unregistered-type", "value": "x-unregistered--" + UUID})
            out.append({"path": list(p), "op": "set", "kind": "ref-to-unregistered-type:no-x", "value": "some-new-type--" + UUID})
            # names registered as marking types / extensions are not object types either
            for other in ("tlp", "statement", "archive-ext", "ntfs-ext"):
                out.append({"path": list(p), "op": "set", "kind": "ref-to-unregistered-type:marking-or-extension-name", "value": "%s--%s" % (other, UUID)})
            if ver == "2.0":
                # a type that exists only in the other spec version is an unregistered (custom) type here
                only21 = sorted(set(M.get("2.1").sdo_types) - set(M.get("2.0").sdo_types))
                for t in (only21[0], only21[len(only21) // 2], only21[-1]):
                    # "prime21": the same type referred to by 2.1 content first, where it IS a registered type (nothing learnt there may
                    # be remembered for 2.0)
                    out.append({"path": list(p), "op": "set", "kind": "ref-to-unregistered-type:other-version-type", "value": "%s--%s" % (t, UUID), "prime21": t})
        elif k == "observable-container" and isinstance(val, dict):
            out.append({"path": list(p) + ["99"], "op": "add", "kind": "unregistered-observable-member", "value": {"type": "x-unregistered-sco", "x_a": 1}})
            for key, o in val.items():
                if isinstance(o, dict):
                    out.append({"path": list(p) + [key, "x_custom_prop"], "op": "add", "kind": "custom-property:container-member", "value": "v"})
                    break
    if doc["type"] == "marking-definition" and doc.get("definition_type") == "statement":
        out.append({"path": ["definition_type"], "op": "set", "kind": "unregistered-marking-type", "value": "x-unregistered-marking"})
        # the marking object inside `definition` is content like any embedded object
        out.append({"path": ["definition", "x_custom_prop"], "op": "add", "kind": "custom-property:marking-content", "value": "v"})
        out.append({"path": ["definition", "custom_properties"], "op": "add", "kind": "custom_properties-key:marking-content", "value": {"x_hidden": 1}})
    if "extensions" not in m.props(cname):
        # a type without an 'extensions' property (all of STIX 2.0's SDOs/SROs ...) cannot carry a toplevel-property-extension
        out.append({"path": ["extensions"], "op": "add", "kind": "fake-toplevel-extension:top", "value": dict(FAKE_TOPLEVEL), "also_set": {"foo_bar": 5}})
        out.append({"path": ["extensions"], "op": "add", "kind": "fake-toplevel-extension:top:bare-key", "value": {"abc": {"extension_type": "toplevel-property-extension"}},
                    "also_set": {"foo_bar": 5}})
    if "extensions" in m.props(cname) and "extensions" not in doc:
        out.append({"path": ["extensions"], "op": "add", "kind": "unregistered-extension:only", "value": {"x-unknown-ext": {"a": 1}}})
    return out


CONTROLS = ["none", "open-vocab-outside", "unregistered-extension-definition", "spec-property-via-custom_properties", "registered-toplevel-property-via-custom_properties"]
C04_TOPLEVEL_EXT = "extension-definition--a1b2c3d4-0000-4000-8000-00000000c0f4"
_c04_registered = [False]


def ensure_c04_extension():
    """A registered toplevel-property-extension of the harness's own (property rank_c04)."""
    if _c04_registered[0]:
        return
    import stix2
    from stix2 import registry
    from stix2.properties import IntegerProperty
    if registry.class_for_type(C04_TOPLEVEL_EXT, "2.1", "extensions") is None:
        @stix2.v21.CustomExtension(C04_TOPLEVEL_EXT, [("rank_c04", IntegerProperty())])
        class C04TopLevelExt(object):
            extension_type = "toplevel-property-extension"
    _c04_registered[0] = True


def control_edit(doc, ver, which):
    m = M.get(ver)
    cname = m.class_for_type(doc["type"])
    if which == "open-vocab-outside":
        for p, val, d, owner in C.walk(doc, cname, ver):
            if d["kind"] == "open-vocab" and p[-1] != "pattern_type":
                return {"path": list(p), "op": "set", "kind": "control:open-vocab", "value": "not-in-the-vocabulary"}
        return None
    if which == "spec-property-via-custom_properties":
        # the custom_properties= constructor keyword given nothing but properties the type defines: nothing custom results
        names = [k for k in doc if k in m.props(cname) and k not in ("type", "id", "spec_version", "extensions", "granular_markings")]
        if not names or doc["type"] == "marking-definition":
            return None
        name = names[len(json.dumps(doc, sort_keys=True)) % len(names)]
        return {"path": ["custom_properties"], "op": "add", "kind": "control:spec-property-via-custom_properties", "value": {name: doc[name]},
                "also_del": [name]}
    if which == "registered-toplevel-property-via-custom_properties":
        # a property that a REGISTERED top-level extension defines, handed over through custom_properties=: not custom either
        if ver != "2.1" or "extensions" not in m.props(cname) or doc["type"] == "marking-definition":
            return None
        ext = dict(doc.get("extensions", {}))
        ext[C04_TOPLEVEL_EXT] = {"extension_type": "toplevel-property-extension"}
        return {"path": ["custom_properties"], "op": "add", "kind": "control:registered-toplevel-property-via-custom_properties", "value": {"rank_c04": 5},
                "also_set": {"extensions": ext}}
    if which == "unregistered-extension-definition":
        if ver != "2.1" or "extensions" not in m.props(cname) or doc["type"] == "marking-definition":
            return None
        ext = dict(doc.get("extensions", {}))
        ext["extension-definition--" + UUID] = {"extension_type": "property-extension", "prop": 1}
        return {"path": ["extensions"], "op": "set", "kind": "control:extension-definition", "value": ext}
    return None


def _lib_class(ver, clsname):
    import stix2
    mod = stix2.v20 if ver == "2.0" else stix2.v21
    for m in (mod, getattr(mod, "observables", None), getattr(mod, "common", None), getattr(mod, "sdo", None)):
        if m is not None and hasattr(m, clsname):
            return getattr(m, clsname)
    return None


def prebuild(payload, edit, ver):
    """Replace the dict that received the injected custom property by a library object built with allow_custom=True
    (the documented way to hand embedded objects / extensions / members to a constructor).  Returns None if not applicable."""
    from stix2 import registry
    import copy
    kind = edit["kind"]
    path = edit["path"][:-1]
    if not path:
        return None
    out = copy.deepcopy(payload)
    parent = out
    for comp in path[:-1]:
        parent = parent[comp]
    leaf = path[-1]
    sub = parent[leaf]
    if not isinstance(sub, dict):
        return None
    cls = None
    if kind.startswith("custom-property:extension:"):
        cls = registry.class_for_type(kind.split(":", 2)[2], ver, "extensions")
    elif kind.startswith("custom-property:embedded:"):
        cls = _lib_class(ver, kind.split(":", 2)[2])
    elif kind == "custom-property:marking-content":
        import stix2
        cls = (stix2.v20 if ver == "2.0" else stix2.v21).StatementMarking
    elif kind == "custom-property:container-member":
        cls = registry.class_for_type(sub.get("type"), ver, "observables")
        sub = dict(sub, _valid_refs={"*": "*"}) if ver == "2.0" else sub
    if cls is None:
        return None
    kw = {k: v for k, v in sub.items() if k != "type" or kind.startswith("custom-property:embedded")}
    inst, exc = core.guarded(cls, allow_custom=True, **kw)
    if exc is not None:
        return None
    parent[leaf] = inst
    return out


def call(entry, payload, ver, allow_custom):
    import stix2
    from stix2 import registry
    t = payload.get("type")
    if entry == "bundle-prebuilt":
        cls = registry.class_for_type(t, ver, "objects") or registry.class_for_type(t, ver, "observables")
        kw = {k: v for k, v in payload.items() if k != "type"}
        member, exc = core.guarded(cls, allow_custom=True, **kw)
        if exc is not None:
            return None, exc if allow_custom else None   # cannot even be built permissively: nothing to hand over
        B = stix2.v20.Bundle if ver == "2.0" else stix2.v21.Bundle
        res, exc = core.guarded(B, member, allow_custom=allow_custom)
        if exc is None:
            return res["objects"][0], None
        return None, exc
    if entry == "parse":
        return core.guarded(stix2.parse, payload, allow_custom=allow_custom, version=ver)
    if entry == "parse-text":
        return core.guarded(stix2.parse, json.dumps(payload), allow_custom=allow_custom)
    if entry == "constructor":
        cls = registry.class_for_type(t, ver, "objects") or registry.class_for_type(t, ver, "observables")
        kw = {k: v for k, v in payload.items() if k != "type"}
        return core.guarded(cls, allow_custom=allow_custom, **kw)
    if entry == "bundle":
        B = stix2.v20.Bundle if ver == "2.0" else stix2.v21.Bundle
        res, exc = core.guarded(B, payload, allow_custom=allow_custom)
        if exc is None:
            return res["objects"][0], None
        return None, exc
    if entry == "bundle-dict":
        b = {"type": "bundle", "id": "bundle--" + UUID, "objects": [payload]}
        if ver == "2.0":
            b["spec_version"] = "2.0"
        res, exc = core.guarded(stix2.parse, b, allow_custom=allow_custom)
        if exc is None:
            return res["objects"][0], None
        return None, exc
    if entry == "parse_observable":
        return core.guarded(stix2.parse_observable, payload, allow_custom=allow_custom, version=ver, _valid_refs={"*": "*"} if ver == "2.0" else None)
    if entry.startswith(("fs-source-read", "fs-store-read")):
        # content already on disk (written by a permissive sink, or by another tool): the reading side has the switch of its own
        import shutil
        import tempfile
        tmp = tempfile.mkdtemp(prefix="c04-")
        try:
            _, exc = core.guarded(stix2.FileSystemSink(tmp, allow_custom=True).add, payload)
            if exc is not None:
                return None, exc
            route, _, how = entry.partition(":")
            reader = stix2.FileSystemSource(tmp, allow_custom=allow_custom) if route == "fs-source-read" else stix2.FileSystemStore(tmp, allow_custom=allow_custom)
            if how == "get":
                return core.guarded(reader.get, payload["id"])
            got, exc = core.guarded(reader.query)
            return ((got[0] if got else None), None) if exc is None else (None, exc)
        finally:
            shutil.rmtree(tmp, ignore_errors=True)
    if entry.startswith(("fs-sink", "memory-")):
        import os
        import shutil
        import tempfile
        route, _, form = entry.partition(":")
        form = form or "dict"
        b = {"type": "bundle", "id": "bundle--" + UUID, "objects": [payload]}
        if ver == "2.0":
            b["spec_version"] = "2.0"
        data = {"dict": payload, "json": json.dumps(payload), "list": [payload], "bundle-dict": b, "bundle-json": json.dumps(b),
                "list-of-bundle": [b]}[form if form in ("dict", "json", "list", "bundle-dict", "bundle-json", "list-of-bundle") else "bundle-dict"]
        tmp = tempfile.mkdtemp(prefix="c04-")
        try:
            if route == "fs-sink":
                sink = stix2.FileSystemSink(tmp, allow_custom=allow_custom)
                _, exc = core.guarded(sink.add, data)
                if exc is not None:
                    return None, exc
                src = stix2.FileSystemSource(tmp, allow_custom=True)
                got, exc2 = core.guarded(src.query)
                return ((got[0] if got else None), None) if exc2 is None else (None, None)
            if route == "memory-store":
                store = stix2.MemoryStore(allow_custom=allow_custom)
                _, exc = core.guarded(store.add, data)
            elif route == "memory-sink":
                store = stix2.MemorySink(allow_custom=allow_custom)
                _, exc = core.guarded(store.add, data)
            elif route == "memory-store-ctor":
                store, exc = core.guarded(stix2.MemoryStore, data, allow_custom=allow_custom)
            elif route == "memory-source-ctor":
                store, exc = core.guarded(stix2.MemorySource, data, allow_custom=allow_custom)
            elif route == "memory-load-file":
                fn = os.path.join(tmp, "in.json")
                with open(fn, "w") as f:
                    json.dump(b, f)
                store = stix2.MemoryStore(allow_custom=allow_custom)
                _, exc = core.guarded(store.load_from_file, fn)
            else:
                raise AssertionError(entry)
            if exc is not None:
                return None, exc
            got = list(store._data.values()) if route == "memory-sink" else store.query()
            got = [g.latest_version if hasattr(g, "latest_version") else g for g in got]
            return (got[0] if got else None), None
        finally:
            shutil.rmtree(tmp, ignore_errors=True)
    raise AssertionError(entry)


def check_case(case):
    import stix2
    ensure_c04_extension()
    ver, doc = case["ver"], case["doc"]
    edit = case.get("edit")
    entry = case["entry"]
    allow = case["allow_custom"]
    payload = C.apply(doc, edit) if edit else doc
    fails = []
    if edit and edit.get("prime21"):
        core.guarded(stix2.parse, {"type": "relationship", "spec_version": "2.1", "id": "relationship--" + UUID, "created": "2020-01-01T00:00:00.000Z",
                                   "modified": "2020-01-01T00:00:00.000Z", "relationship_type": "related-to",
                                   "source_ref": "%s--%s" % (edit["prime21"], UUID), "target_ref": "identity--" + UUID}, version="2.1")
    if entry == "constructor-prebuilt":
        pre = prebuild(payload, edit, ver) if edit else None
        if pre is None:
            return None
        res, exc = call("constructor", pre, ver, allow)
    elif entry == "bundle-prebuilt" and not allow and (edit is None or (edit["kind"].startswith("control:"))):
        res, exc = call(entry, payload, ver, allow)
    else:
        res, exc = call(entry, payload, ver, allow)
    if entry == "bundle-prebuilt" and not allow and exc is None and res is None:
        return None
    kind = edit["kind"] if edit else "control:none"
    is_control = kind.startswith("control:")
    site = kind.split(":")[0] + (":" + kind.split(":")[1] if kind.count(":") and not is_control else "")
    if kind in ("control:spec-property-via-custom_properties", "control:registered-toplevel-property-via-custom_properties") and entry != "constructor":
        return None      # `custom_properties` is a keyword of the constructors; in a parsed document it is just an unknown key
    if kind == "custom_properties-key" and entry == "constructor":
        return fails   # the custom_properties= constructor keyword is the documented way to request custom properties
    if not allow and kind.startswith("void:"):
        if exc is None and getattr(res, "has_custom", False):
            fails.append(("control-flagged-custom:%s" % kind, "strict result has_custom True"))
        return fails
    if not allow:
        if is_control:
            if exc is not None:
                fails.append(("control-refused-strict:%s" % kind, "%s(allow_custom=False) refused content that is not custom: %s ; %s" % (entry, core.fmt_exc(exc), core.short(payload, 400))))
            elif getattr(res, "has_custom", False):
                fails.append(("control-flagged-custom:%s" % kind, "has_custom is True for non-custom content"))
            return fails
        if exc is None:
            fails.append(("custom-admitted-strict:%s:%s" % (site, "store" if entry.startswith(("memory-", "fs-sink", "fs-source-read", "fs-store-read")) else "parse/construct"),
                          "%s(allow_custom=False) returned %s for custom content (%s): %s" % (entry, type(res).__name__, kind, core.short(payload, 500))))
        return fails
    # permissive
    if exc is not None:
        if is_control:
            fails.append(("control-refused-permissive:%s" % kind, "%s(allow_custom=True) raised %s" % (entry, core.fmt_exc(exc))))
        return fails   # permissive refusal of injected content is allowed (e.g. 2.1 naming rules)
    if res is None or isinstance(res, dict) or not hasattr(res, "has_custom"):
        return fails   # unknown types come back as plain dicts: no flag to check
    text, exc = core.guarded(res.serialize)
    if exc is not None:
        return fails
    _, exc2 = core.guarded(stix2.parse, text, allow_custom=False)
    refused = exc2 is not None
    if bool(res.has_custom) != refused:
        fails.append(("has_custom-mismatch:%s:%s" % (site if not is_control else kind, "flag-true-but-strict-accepts" if res.has_custom else "flag-false-but-strict-refuses"),
                      "%s(allow_custom=True).has_custom=%s but strict re-parse %s (%s); text %s" % (
                          entry, res.has_custom, "refused: " + core.fmt_exc(exc2) if refused else "accepted", kind, core.short(text, 500))))
    if is_control and res.has_custom:
        fails.append(("control-flagged-custom:%s" % kind, "has_custom True for non-custom content: %s" % core.short(text, 300)))
    return fails


OPTS = {"ts_max_digits": 6, "selectors": "safe", "max_optional": 8, "plain_strings": True}


def entries_for(doc, ver):
    m = M.get(ver)
    t = doc["type"]
    e = ["parse", "parse-text", "constructor", "bundle-dict", "memory-store", "constructor-prebuilt"]
    if t not in m.observables:
        e.append("bundle-prebuilt")
    if "id" in doc:
        # every documented input form of the stores (the switch is applied where content is parsed)
        e.extend(["fs-sink", "memory-store:bundle-dict", "memory-store:json", "memory-store:list", "memory-sink:bundle-json", "memory-store-ctor:bundle-dict",
                  "memory-store-ctor:list", "memory-source-ctor:bundle-json", "memory-source-ctor:dict", "memory-load-file", "fs-sink:bundle-dict",
                  "fs-sink:bundle-json", "fs-sink:list", "fs-sink:json", "memory-store:list-of-bundle",
                  "fs-source-read:query", "fs-source-read:get", "fs-store-read:query", "fs-store-read:get"])
    if t in m.observables and ver == "2.1":
        e.append("parse_observable")
    if t not in m.observables:
        e.append("bundle")
    return e


def run(ctx):
    ctx.level = "fault_enumeration"
    ctx.rule = ("for every type of both versions, generated valid base objects x EVERY injection site derived from the object (top-level "
                "custom property with and without x_ prefix, custom_properties content key, custom property in each embedded object / "
                "registered extension / container member, unregistered extension, custom and foreign-version hash names, references to "
                "unregistered types in category-typed slots, unregistered observable member, unregistered marking type) x allow_custom "
                "False/True x entry point (parse dict/text, constructor, Bundle(), bundle dict, parse_observable, and the stores in every documented "
                "input form: MemoryStore/MemorySink.add and MemoryStore/MemorySource(stix_data) with dict, JSON text, list, bundle dict, bundle text, "
                "list of bundles, load_from_file, FileSystemSink.add with the same forms); plus "
                "controls (no injection, out-of-vocabulary open-vocab value, unregistered extension-definition extension). Non-trivial = "
                "injection below the top level or a control; distinct = (type, version, site kind, entry, switch).")
    ctx.assumptions = ["a pre-built object instance handed to a store is passed through untouched (documented); only parse/construct routes are asserted",
                       "'refused' = any exception from the strict call; which exception class is C17's concern"]
    types = [(v, t) for v in ("2.0", "2.1") for t in G.top_types(v)]
    per_type = max(1, ctx.n(220, 1200) // len(types))

    def body(args):
        ver, doc, seed_i = args
        entries = entries_for(doc, ver)
        edits = injections(doc, ver)
        controls = [None] + [e for e in (control_edit(doc, ver, w) for w in CONTROLS[1:]) if e]
        k = 0
        for n, edit in enumerate(edits + controls):
            if edit and edit["op"] == "add" and (seed_i + n) % 2:
                edit = dict(edit, first=True)       # listed before the members the dictionary already had
            for allow in (False, True):
                # every entry point for strict; two drawn-by-rotation entry points for permissive
                ents = entries if not allow else [entries[(seed_i + k) % len(entries)], entries[(seed_i + k + 1) % len(entries)]]
                if ctx.quick and not allow:
                    ents = [entries[(seed_i + k + j) % len(entries)] for j in range(3)]
                for entry in dict.fromkeys(ents):
                    k += 1
                    case = {"ver": ver, "doc": doc, "edit": edit, "entry": entry, "allow_custom": allow}
                    fails = check_case(case)
                    if fails is None:
                        continue
                    kind = edit["kind"] if edit else "control:none"
                    fp = core.fingerprint([ver, doc["type"], kind, entry, allow])
                    deep = kind.startswith("control:") or (edit is not None and len(edit["path"]) > 1)
                    ctx.note(case, deep, ["site:" + kind.split(":")[0], "entry:" + entry, "allow_custom:%s" % allow] + (["position:listed-first"] if edit and edit.get("first") else []), fp=fp)
                    ctx.keep(case, (ver, doc["type"], kind.split(":")[0], allow), per_group=1, limit=3000)
                    ctx.handle(case, fails)

    ctx.collect_only = True
    for ext_key in ("extension-definition--" + UUID, "extension-definition--zzz", "x-some-ext"):
        for ext_type in (None, "", "foo", "property-extension", "toplevel-property-extension", "new-sdo", "new-sco", "new-sro", "new-", "sdo"):
            for entry in ("parse", "parse-text", "parse-version", "memory-store"):
                case = {"unregistered": True, "ext_key": ext_key, "ext_type": ext_type, "entry": entry}
                ctx.note(case, True, ["unregistered-type", "entry:" + entry], fp=core.fingerprint([ext_key, ext_type, entry]))
                ctx.handle(case, check_unregistered(case))
                for second in ("extension-definition", "extension-definition-nondict", "custom-claiming-new"):
                    if second == "custom-claiming-new" and ext_type in ("new-sdo", "new-sco", "new-sro") and ext_key.startswith("extension-definition--"):
                        continue
                    for second_first in (False, True):
                        case = {"unregistered": True, "ext_key": ext_key, "ext_type": ext_type, "entry": entry, "second": second, "second_first": second_first}
                        ctx.note(case, True, ["unregistered-type:two-extensions", "entry:" + entry], fp=core.fingerprint([ext_key, ext_type, entry, second, second_first]))
                        ctx.handle(case, check_unregistered(case))
    ctx.collect_only = False

    for ver_t in types:
        @st.composite
        def strat(draw, ver_t=ver_t):
            ver, t = ver_t
            opts = dict(OPTS)
            shape = draw(st.sampled_from(["maximal", "random"]))
            if shape != "random":
                opts[shape] = True
            return ver, draw(G.valid_object(ver, type_=t, opts=opts)), draw(st.integers(0, 100))
        core.run_given(ctx, strat(), body, per_type, label="c04-%s-%s" % ver_t, rounds=3)
    _probe(ctx)


def check_unregistered(case):
    """A document of a never-registered type.  STIX 2.1 lets an extension definition introduce a new object type (extension_type
    new-sdo / new-sco / new-sro): only then may a strict parse let the document through (as a dictionary); with any other or no
    extension_type the type is simply unknown, i.e. custom."""
    import stix2
    doc = {"type": "x-never-registered", "spec_version": "2.1", "id": "x-never-registered--" + UUID, "created": "2020-01-01T00:00:00.000Z",
           "modified": "2020-01-01T00:00:00.000Z", "name": "n"}
    body = {"rank": 1}
    if case["ext_type"] is not None:
        body["extension_type"] = case["ext_type"]
    doc["extensions"] = {case["ext_key"]: body}
    if case.get("second"):
        # a second, unrelated extension: the new-object declaration and the extension-definition key must belong to ONE entry
        other = {"extension-definition": ("extension-definition--7e4ba2c2-6b3e-4a0f-9a6e-0e2f5f5d0a11", {"extension_type": "property-extension", "p": 1}),
                 "extension-definition-nondict": ("extension-definition--7e4ba2c2-6b3e-4a0f-9a6e-0e2f5f5d0a11", 5),
                 "custom-claiming-new": ("x-claims-ext", {"extension_type": "new-sdo"})}[case["second"]]
        items = [(case["ext_key"], body), other]
        if case.get("second_first"):
            items.reverse()
        doc["extensions"] = dict(items)
    entry = case["entry"]
    if entry == "parse":
        res, exc = core.guarded(stix2.parse, doc, allow_custom=False)
    elif entry == "parse-text":
        res, exc = core.guarded(stix2.parse, json.dumps(doc), allow_custom=False)
    elif entry == "parse-version":
        res, exc = core.guarded(stix2.parse, doc, allow_custom=False, version="2.1")
    else:
        store = stix2.MemoryStore(allow_custom=False)
        _, exc = core.guarded(store.add, doc)
        res = None if exc is not None else (store.query() or [None])[0]
    new_type = case["ext_type"] in ("new-sdo", "new-sco", "new-sro") and case["ext_key"].startswith("extension-definition--")
    if exc is None and not new_type:
        return [("custom-admitted-strict:unregistered-type-without-new-object-extension", "%s(allow_custom=False) let an object of a never-registered type through (%s) "
                 "although its extension %r has extension_type %r" % (entry, type(res).__name__, case["ext_key"], case["ext_type"]))]
    return []


def _probe(ctx):
    bat = ctx.battery()
    core.order_probe(ctx, cases=bat[::max(1, len(bat) // 240)][:240])


def replay(case):
    if case.get("unregistered"):
        return check_unregistered(case)
    return check_case(case) or []
