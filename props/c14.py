"""C14 -- a requested spec version is honoured everywhere and never alters strictness.

Finite product: entry point x version in {None, 2.0, 2.1} x type x document
flavour x identifier kind.  Reference = stix2.parse(doc, allow_custom=<same>,
version=v) called directly with keywords; every store/source/sink route must
give an object of the same class with the same serialization, or fail likewise.
"""
import json
import os
import re
import shutil
import tempfile
import zlib

from hypothesis import strategies as st

from gen import objects as G
from harness import core
from oracle import model as M

ID_KINDS = {
    "valid": None,
    "nil": "00000000-0000-0000-0000-000000000000",
    "ncs-variant": "3f2504e0-4f89-41d3-1a0c-0305e82c3301",
    "uuid-v1": "e4b1c2d0-7e2c-11ea-bc55-0242ac130003",
}
ENTRIES = ["parse", "parse-text", "env-parse", "memory-store-ctor", "memory-source-ctor", "memory-sink-ctor", "memory-store-add", "memory-sink-add",
           "memory-load-from-file", "fs-sink-add", "fs-source-get", "fs-source-all-versions", "fs-source-query", "memory-bundle-add",
           # the same file read before under the other versions (and none) through the same and another source: no answer may depend on earlier reads
           "fs-source-get-after-reads", "fs-source-query-after-reads",
           # the documented backward-compatible layout: a plain <id>.json directly in a type directory that also holds <id>/<modified>.json directories
           "fs-source-get-flat-legacy", "fs-source-all-versions-flat-legacy", "fs-source-query-flat-legacy",
           # bundles whose members are of both spec versions (legal in 2.1; what v21.Bundle(v20_obj, v21_obj) or save_to_file of a mixed store writes)
           "memory-bundle-add-mixed", "memory-load-from-file-mixed", "memory-store-ctor-bundle-mixed",
           # object files that are bundles (FileSystemSink(bundlify=True)): the identifier under test is the WRAPPER's, the wrapped object is valid
           "fs-source-get-bundlified", "fs-source-all-versions-bundlified", "fs-source-query-bundlified",
           # an already-built object (and a built bundle around it) handed to parse() where dictionaries are usual: the named version must be
           # honoured exactly as for the dictionary the object serializes to
           "parse-built", "parse-built-bundle"]
COMPANION20 = {"type": "identity", "id": "identity--7e4ba2c2-6b3e-4a0f-9a6e-0e2f5f5d0a20", "created": "2020-01-01T00:00:00.000Z", "modified": "2020-01-01T00:00:00.000Z",
               "name": "companion", "identity_class": "individual"}
COMPANION21 = dict(COMPANION20, id="identity--7e4ba2c2-6b3e-4a0f-9a6e-0e2f5f5d0a21", spec_version="2.1")


def mixed_members(doc, v):
    """The document between companions of both versions (a companion that is not valid under the named version is left out)."""
    import copy
    return [copy.deepcopy(COMPANION20), doc] + ([copy.deepcopy(COMPANION21)] if v != "2.0" else [])


def wrapper_for(case):
    """(wrapper bundle, wrapped document): the wrapped document keeps its generated, valid id; the id kind under test goes to the wrapper."""
    doc = dict(case["doc"])
    w = {"type": "bundle", "id": "bundle--" + (ID_KINDS[case["id_kind"]] or "3f2504e0-4f89-41d3-9a0c-0305e82c3301"), "objects": [doc]}
    if "spec_version" not in doc:
        w["spec_version"] = "2.0"       # what v20.Bundle / bundlify writes around 2.0 content
    return w, doc
VERSIONS = [None, "2.0", "2.1"]


def vmod(obj):
    mod = type(obj).__module__
    return "2.0" if ".v20" in mod else "2.1" if ".v21" in mod else "?"


def reference(doc, allow_custom, v):
    import stix2
    return core.guarded(stix2.parse, doc, allow_custom=allow_custom, version=v)


def route(entry, doc, v, allow_custom, tmp, wrapper=None):
    """Returns (obj, exc) the entry point yields for doc under version v."""
    import stix2
    from stix2 import Environment, FileSystemSink, FileSystemSource, MemorySink, MemorySource, MemoryStore
    oid = doc.get("id")

    def pick(objs):
        objs = [o for o in objs if o.get("id") == oid]
        return objs[0] if objs else None

    if entry == "parse":
        return core.guarded(stix2.parse, doc, allow_custom=allow_custom, version=v)
    if entry == "parse-text":
        return core.guarded(stix2.parse, json.dumps(doc), allow_custom=allow_custom, version=v)
    if entry == "parse_observable":
        return core.guarded(stix2.parse_observable, doc, allow_custom=allow_custom, version=v)
    if entry == "env-parse":
        return core.guarded(Environment().parse, doc, allow_custom=allow_custom, version=v)
    members = [doc]
    if entry.endswith("-mixed"):
        entry = entry[:-len("-mixed")]
        members = mixed_members(doc, v)
    if entry == "memory-store-ctor-bundle":
        b = {"type": "bundle", "id": "bundle--3f2504e0-4f89-41d3-9a0c-0305e82c3301", "objects": members}
        s, exc = core.guarded(MemoryStore, stix_data=b, allow_custom=allow_custom, version=v)
        return (pick(s.query()) if exc is None else None), exc
    if entry == "memory-store-ctor":
        s, exc = core.guarded(MemoryStore, stix_data=[doc], allow_custom=allow_custom, version=v)
        return (pick(s.query()) if exc is None else None), exc
    if entry == "memory-source-ctor":
        s, exc = core.guarded(MemorySource, stix_data=[doc], allow_custom=allow_custom, version=v)
        return (pick(s.query()) if exc is None else None), exc
    if entry == "memory-sink-ctor":
        s, exc = core.guarded(MemorySink, stix_data=[doc], allow_custom=allow_custom, version=v)
        if exc is not None:
            return None, exc
        return pick(list(_iter_memory(s))), None
    if entry in ("memory-store-add", "memory-bundle-add"):
        s = MemoryStore(allow_custom=allow_custom)
        payload = doc
        if entry == "memory-bundle-add":
            payload = {"type": "bundle", "id": "bundle--3f2504e0-4f89-41d3-9a0c-0305e82c3301", "objects": members}
        _, exc = core.guarded(s.add, payload, version=v)
        return (pick(s.query()) if exc is None else None), exc
    if entry == "memory-sink-add":
        s = MemorySink(allow_custom=allow_custom)
        _, exc = core.guarded(s.add, doc, version=v)
        return (pick(list(_iter_memory(s))) if exc is None else None), exc
    if entry == "memory-load-from-file":
        path = os.path.join(tmp, "in.json")
        with open(path, "w") as f:
            json.dump({"type": "bundle", "id": "bundle--3f2504e0-4f89-41d3-9a0c-0305e82c3301", "objects": members}, f)
        s = MemoryStore(allow_custom=allow_custom)
        _, exc = core.guarded(s.load_from_file, path, version=v)
        return (pick(s.query()) if exc is None else None), exc
    fsdir = os.path.join(tmp, "fs")
    os.makedirs(fsdir, exist_ok=True)
    if entry == "fs-sink-add":
        sink = FileSystemSink(fsdir, allow_custom=allow_custom)
        _, exc = core.guarded(sink.add, doc, version=v)
        if exc is not None:
            return None, exc
        # what was written must be what a direct parse of the document under v serializes to
        files = [os.path.join(r, f) for r, _, fs in os.walk(fsdir) for f in fs]
        if len(files) != 1:
            return None, AssertionError("expected one file, found %d" % len(files))
        with open(files[0]) as f:
            written = json.load(f)
        return {"$written": written}, None
    # filesystem source routes: put the raw document on disk ourselves, then read it back under version v
    t = doc["type"]
    d = os.path.join(fsdir, t)
    versioned = "modified" in doc
    if entry.endswith("-flat-legacy"):
        entry = entry[:-len("-flat-legacy")]
        if versioned:
            sib = dict(doc, id="%s--%s" % (t, "7e4ba2c2-6b3e-4a0f-9a6e-0e2f5f5d0a11"))
            sd = os.path.join(d, sib["id"])
            os.makedirs(sd, exist_ok=True)
            with open(os.path.join(sd, "".join(ch for ch in doc["modified"] if ch.isdigit()) + ".json"), "w") as f:
                json.dump(sib, f)
            versioned = False       # the document under test goes into the flat file
    if versioned:
        d = os.path.join(d, oid)
        os.makedirs(d, exist_ok=True)
        fn = os.path.join(d, "".join(ch for ch in doc["modified"] if ch.isdigit()) + ".json")
    else:
        os.makedirs(d, exist_ok=True)
        fn = os.path.join(d, oid + ".json")
    if entry.endswith("-bundlified"):
        entry = entry[:-len("-bundlified")]
    with open(fn, "w") as f:
        json.dump(wrapper if wrapper is not None else doc, f)
    src = FileSystemSource(fsdir, allow_custom=allow_custom)
    if entry.endswith("-after-reads"):
        for k, other in enumerate(x for x in (None, "2.0", "2.1") if x != v):
            earlier = src if k == 0 else FileSystemSource(fsdir, allow_custom=allow_custom)
            core.guarded(earlier.get, oid, version=other)
            core.guarded(earlier.query, [stix2.Filter("id", "=", oid)], version=other)
        entry = entry[:-len("-after-reads")]
    if entry == "fs-source-get":
        return core.guarded(src.get, oid, version=v)
    if entry == "fs-source-all-versions":
        res, exc = core.guarded(src.all_versions, oid, version=v)
        return (pick(res) if exc is None else None), exc
    if entry == "fs-source-query":
        res, exc = core.guarded(src.query, [stix2.Filter("id", "=", oid)], version=v)
        return (pick(res) if exc is None else None), exc
    raise AssertionError(entry)


def _iter_memory(obj):
    for v in obj._data.values():
        if hasattr(v, "all_versions"):
            for o in v.all_versions.values():
                yield o
        else:
            yield v


def mk_doc(case):
    doc = dict(case["doc"])
    u = ID_KINDS[case["id_kind"]]
    if u:
        doc["id"] = doc["type"] + "--" + u
    return doc


def norm_random_ids(text):
    """2.1 observables without id-contributing properties get a fresh random UUIDv4 on every parse: mask those (only inside containers,
    where the input carried no id)."""
    import re
    j = json.loads(text)

    def walk(x, in_container):
        if isinstance(x, dict):
            if in_container and isinstance(x.get("id"), str) and re.search(r"--[0-9a-f]{8}-[0-9a-f]{4}-4[0-9a-f]{3}-", x["id"]):
                x = dict(x, id="<random-uuid4>")
            return {k: walk(v, k == "objects" or (in_container and k != "extensions" and False)) if k != "objects" else {kk: walk(vv, True) for kk, vv in v.items()} if isinstance(v, dict) else walk(v, False) for k, v in x.items()}
        if isinstance(x, list):
            return [walk(v, False) for v in x]
        return x
    return json.dumps(walk(j, False), sort_keys=True)


def check_built(case):
    """parse(<built object>, version=v) against parse(<the dictionary it serializes to>, version=v)."""
    import stix2
    doc, v, entry, allow_custom = mk_doc(case), case["version"], case["entry"], case["allow_custom"]
    own, exc = core.guarded(stix2.parse, doc, allow_custom=True, version=case["ver"])
    if exc is not None or isinstance(own, dict):
        return []
    subject = own
    if entry == "parse-built-bundle":
        B = stix2.v21.Bundle if case["ver"] == "2.1" else stix2.v20.Bundle
        subject, exc = core.guarded(B, objects=[own], id="bundle--3f2504e0-4f89-41d3-9a0c-0305e82c3301", allow_custom=True)
        if exc is not None:
            return []
    as_dict = json.loads(subject.serialize())
    ref, rexc = reference(as_dict, allow_custom, v)
    got, gexc = core.guarded(stix2.parse, subject, allow_custom=allow_custom, version=v)
    desc = "%s(version=%r, allow_custom=%s) on a built %s.%s of %s" % (entry, v, allow_custom, type(subject).__module__, type(subject).__name__, core.short(as_dict, 300))
    if rexc is not None:
        if gexc is None:
            return [("accepted-what-direct-parse-refuses:other:parse-built", "%s accepted; the dictionary form is refused (%s)" % (desc, core.fmt_exc(rexc)))]
        return []
    # Under ANOTHER version than the object's own, the mapping a built object presents (defaulted properties included, nested values already
    # instances of the other version's classes) is legitimately not the dictionary it serializes to: there only "never more permissive than
    # the dictionary form" (above) and "the named version is honoured" (below) are asserted.  (First written as full agreement; the thorough
    # tier at seed 11 flagged a 2.1 artifact re-read as 2.0 with `defanged` kept, and an embedded 2.1 instance refused by the 2.0 class --
    # over-reach of this oracle, not defects.)
    cross = v is not None and v != case["ver"]
    if gexc is not None:
        if cross:
            return []
        return [("refused-what-direct-parse-accepts:parse-built", "%s raised %s; the dictionary form is accepted" % (desc, core.fmt_exc(gexc)))]
    fails = []
    if cross:
        pass
    elif type(got) is not type(ref):
        fails.append(("class-differs:parse-built", "%s gives %s.%s, the dictionary form gives %s.%s" % (desc, type(got).__module__, type(got).__name__, type(ref).__module__, type(ref).__name__)))
    elif not isinstance(got, dict) and norm_random_ids(got.serialize()) != norm_random_ids(ref.serialize()):
        fails.append(("serialization-differs:parse-built", "%s: %s / %s" % (desc, core.short(got.serialize(), 200), core.short(ref.serialize(), 200))))
    if v is not None and not isinstance(got, dict) and vmod(got) != v:
        fails.append(("version-not-honoured:parse-built", "%s produced a %s object" % (desc, vmod(got))))
    return fails


def check_case(case):
    if case["entry"].startswith("parse-built"):
        return check_built(case)
    doc = mk_doc(case)
    v = case["version"]
    entry = case["entry"]
    allow_custom = case["allow_custom"]
    fails = []
    wrapper = None
    if entry.endswith("-bundlified"):
        # the file holds a bundle: the wrapper must pass a direct parse under v, and the object asked for is the wrapped document
        # interpreted under v like a file that holds the document itself
        wrapper, doc = wrapper_for(case)
        ref, rexc = reference(wrapper, allow_custom, v)
        if rexc is None:
            ref, rexc = reference(doc, allow_custom, v)
    else:
        ref, rexc = reference(doc, allow_custom, v)
    tmp = tempfile.mkdtemp(prefix="c14-")
    try:
        got, gexc = route(entry, doc, v, allow_custom, tmp, wrapper)
    finally:
        shutil.rmtree(tmp, ignore_errors=True)
    desc = "%s(version=%r, allow_custom=%s) id=%s doc=%s" % (entry, v, allow_custom, case["id_kind"], core.short(doc, 300))
    if isinstance(gexc, AssertionError):
        return [("harness-observation:" + str(gexc), desc)]
    if v is not None and case["id_kind"] != "valid" and gexc is None and hasattr(got, "serialize") and \
            not (vmod(got) == "2.0" and got.get("type") in M.get("2.0").observables):
        # (a library object: content of a type unknown to the named version comes back as the dictionary it was, and a 2.0 observable has
        # no identifier property -- there "id" is a custom property)
        # independent of the library (and of whatever this process validated before): an identifier that is not one under the NAMED
        # version -- nil UUID, non-RFC-4122 variant; a UUIDv1 under 2.0 -- was let through
        from oracle import validator as VAL
        subject_id = (wrapper or doc).get("id")
        why = VAL.id_problem(subject_id, v)
        if why:
            return [("accepted-what-direct-parse-refuses:relaxed-identifier:%s" % entry.split("-")[0],
                     "%s accepted an identifier that is not a STIX %s identifier (%s): %s" % (entry, v, why, desc))]
    if rexc is not None:
        if gexc is None and got is not None:
            relax = "relaxed-identifier" if case["id_kind"] != "valid" else "other"
            fails.append(("accepted-what-direct-parse-refuses:%s:%s" % (relax, entry.split("-")[0]),
                          "%s accepted content the direct parse refuses (%s): %s" % (entry, core.fmt_exc(rexc), desc)))
        return fails
    # direct parse accepted
    if gexc is not None:
        if isinstance(gexc, Exception) and "already exists" in str(gexc):
            return fails
        fails.append(("refused-what-direct-parse-accepts:%s" % entry.split("-")[0], "%s raised %s but direct parse accepts: %s" % (entry, core.fmt_exc(gexc), desc)))
        return fails
    if got is None:
        fails.append(("object-not-returned:%s" % entry.split("-")[0], "%s returned nothing for %s" % (entry, desc)))
        return fails
    if isinstance(got, dict) and "$written" in got:
        # the sink must have written what a direct parse under v serializes to
        exp = json.loads(ref.serialize()) if not isinstance(ref, dict) else ref
        if norm_random_ids(json.dumps(got["$written"])) != norm_random_ids(json.dumps(exp)):
            fails.append(("sink-wrote-other-interpretation", "%s wrote %s, direct parse(version=%r) serializes %s" % (entry, core.short(got["$written"], 250), v, core.short(exp, 250))))
        return fails
    if isinstance(ref, dict) or isinstance(got, dict):
        if type(ref) is not type(got):
            fails.append(("class-differs:%s" % entry.split("-")[0], "%s gives %s, direct parse gives %s: %s" % (entry, type(got).__name__, type(ref).__name__, desc)))
        return fails
    if type(got) is not type(ref):
        fails.append(("class-differs:%s" % entry.split("-")[0], "%s gives %s.%s, direct parse(version=%r) gives %s.%s: %s" % (
            entry, type(got).__module__, type(got).__name__, v, type(ref).__module__, type(ref).__name__, desc)))
    elif norm_random_ids(got.serialize()) != norm_random_ids(ref.serialize()):
        fails.append(("serialization-differs:%s" % entry.split("-")[0], "%s vs direct: %s / %s" % (entry, core.short(got.serialize(), 200), core.short(ref.serialize(), 200))))
    if v is not None and vmod(got) != v:
        fails.append(("version-not-honoured:%s" % entry.split("-")[0], "%s(version=%r) produced a %s object: %s" % (entry, v, vmod(got), desc)))
    return fails


def check_produced(case):
    """No version named: content the library produced for version V is recognised as V."""
    import stix2
    doc, ver = case["doc"], case["ver"]
    obj, exc = core.guarded(stix2.parse, doc, allow_custom=False, version=ver)
    if exc is not None or isinstance(obj, dict):
        return None
    text = obj.serialize()
    back, exc = core.guarded(stix2.parse, text, allow_custom=False)
    if exc is not None:
        return [("produced-content-not-reparsed", "parse(serialize()) raised %s for %s" % (core.fmt_exc(exc), core.short(text, 300)))]
    if vmod(back) != ver or type(back) is not type(obj):
        return [("produced-content-version-misdetected", "library-produced %s content recognised as %s %s: %s" % (ver, vmod(back), type(back).__name__, core.short(text, 300)))]
    return []


OPTS = {"ts_max_digits": 6, "selectors": "none", "max_optional": 2, "plain_strings": True, "no_extensions": True, "min_year": 1971}


def to_flavour(doc, ver, flavour):
    """2.1-shaped doc -> '2.0-shaped' (spec_version removed) where that is meaningful."""
    d = dict(doc)
    if flavour == "no-spec_version":
        d.pop("spec_version", None)
    if flavour == "us-timestamps":
        # 2.0 content whose created / modified carry microseconds: 2.0 keeps milliseconds, 2.1 keeps them all -- whoever interprets the
        # content under another version than the one named, or twice, shows it in these digits
        for k in ("created", "modified"):
            if isinstance(d.get(k), str) and re.search(r"\.\d{3}Z$", d[k]):
                d[k] = d[k][:-1] + "456Z"
    return d


def run(ctx):
    ctx.level = "fault_enumeration"
    ctx.rule = ("product of 16 entry points (parse dict/text, Environment.parse, MemoryStore/Source/Sink construction, store/sink add, bundle add, "
                "load_from_file, FileSystemSink.add, FileSystemSource.get/all_versions/query, and get/query after the same file was read under the other versions) x version in {None,2.0,2.1} x every storable "
                "type of both versions (generated minimal-ish valid documents; 2.1 documents also with spec_version removed = shape valid "
                "under both) x identifier in {valid, nil UUID, non-RFC-4122 variant, UUIDv1} x allow_custom; reference = direct keyword "
                "parse. Plus: every generated object serialized by the library is re-parsed with no version named. Non-trivial = the two "
                "versions or the two strictness levels answer differently for the document; distinct = (entry, version, type, flavour, id kind).")
    ctx.assumptions = ["reference behaviour is stix2.parse(doc, allow_custom=..., version=v) itself (differential against the direct call)",
                       "FileSystemSource routes read a file this harness writes in the documented layout (type/id/modified.json)"]
    types = [(v, t) for v in ("2.0", "2.1") for t in G.top_types(v) if not (v == "2.0" and t in M.get("2.0").observables)]

    def body(args):
        ver, doc, rot = args
        flavours = ["as-is"] + (["no-spec_version"] if ver == "2.1" and "spec_version" in doc else []) + (["us-timestamps"] if ver == "2.0" and "modified" in doc else [])
        k = combo = 0
        for flavour in flavours:
            d = to_flavour(doc, ver, flavour)
            for id_kind in ID_KINDS:
                if doc.get("type") == "marking-definition" and doc.get("definition_type") == "tlp" and id_kind != "valid":
                    continue
                for v in VERSIONS:
                    # does the version / strictness matter for this document?
                    combo += 1      # quick tier: one third of the entry points per combination, the thirds taken in turn
                    entries = ENTRIES if not ctx.quick else [ENTRIES[(rot + combo * 7 + j * 3) % len(ENTRIES)] for j in range(len(ENTRIES) // 3)]
                    if doc["type"] in M.get("2.1").observables and v is not None:
                        entries = list(entries) + ["parse_observable"]     # observables: the dedicated entry point must agree with parse()
                    for entry in dict.fromkeys(entries):
                        k += 1
                        allow = zlib.crc32(("%d:%d:%s" % (rot, combo, entry)).encode()) % 3 == 0     # (arithmetic on k correlates with the entry rotation)
                        case = {"ver": ver, "doc": d, "id_kind": id_kind, "version": v, "entry": entry, "allow_custom": allow, "flavour": flavour}
                        fails = check_case(case)
                        nt = id_kind != "valid" or flavour != "as-is" or (v is not None and v != ver)
                        ctx.note(case, nt, ["entry:" + entry, "version:%s" % v, "id:" + id_kind, "flavour:" + flavour, "docver:" + ver],
                                 fp=core.fingerprint([entry, v, ver, doc["type"], flavour, id_kind]))
                        ctx.keep(case, (entry, v, ver, id_kind != "valid", flavour), per_group=1, limit=4000)
                        ctx.handle(case, fails)
        case = {"produced": True, "ver": ver, "doc": doc}
        fails = check_produced(case)
        if fails is not None:
            ctx.note(case, True, ["produced-content", "docver:" + ver])
            ctx.handle(case, fails)

    per_type = 1 if ctx.quick else 3
    for ver_t in types:
        @st.composite
        def strat(draw, ver_t=ver_t):
            ver, t = ver_t
            return ver, draw(G.valid_object(ver, type_=t, opts=dict(OPTS))), draw(st.integers(0, 1000))
        core.run_given(ctx, strat(), body, per_type, label="c14-%s-%s" % ver_t, rounds=2)

    # no answer may depend on what was parsed or read before under another version / strictness: kept cases in fresh processes, in
    # four orders ("2.0 first" / "2.1 first" by the version NAMED in the call)
    bat = ctx.battery()
    core.order_probe(ctx, cases=bat[::max(1, len(bat) // 120)][:120], version_of=lambda c: c.get("version") or c.get("ver"))

    # produced-content clause over richer objects (all types incl. observables with extensions)
    def body2(args):
        ver, doc = args
        case = {"produced": True, "ver": ver, "doc": doc}
        fails = check_produced(case)
        if fails is None:
            ctx.exclude("not-constructible")
            return
        ctx.note(case, True, ["produced-content-rich", "docver:" + ver])
        ctx.handle(case, fails)

    rich = st.sampled_from(["2.0", "2.1"]).flatmap(lambda v: st.tuples(st.just(v), G.valid_object(v, opts={"selectors": "safe", "max_optional": 5})))
    core.run_given(ctx, rich, body2, ctx.n(400, 3000), label="c14-produced")


def replay(case):
    if case.get("produced"):
        return check_produced(case) or []
    return check_case(case)
