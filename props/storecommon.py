"""Library-side glue shared by the data-store checks C11, C12, C18 (not a property module).

stix2 is imported inside functions only.  Everything that touches process-wide
state (type registries, the library's clock) is wrapped by `lib_session()`,
which snapshots before and restores in a finally.
"""
import contextlib
import copy
import datetime as dt
import json
import shutil
import tempfile

from gen import stores as G
from harness import core
from oracle import storemodel as M
from oracle import tsref

FIXED_NOW = (2022, 2, 2, 2, 2, 2, 222000)


def _registry_snapshot():
    from stix2 import registry
    registry._collect_stix2_mappings()
    return {ver: {cat: dict(m) for cat, m in cats.items()} for ver, cats in registry.STIX2_OBJ_MAPS.items()}


def _registry_restore(snap):
    from stix2 import registry
    for ver in list(registry.STIX2_OBJ_MAPS):
        if ver not in snap:
            del registry.STIX2_OBJ_MAPS[ver]
            continue
        for cat, m in registry.STIX2_OBJ_MAPS[ver].items():
            m.clear()
            m.update(snap[ver].get(cat, {}))


def _register_custom():
    import stix2.v20
    import stix2.v21
    from stix2 import properties as P

    @stix2.v20.CustomObject("x-verif-gadget", [
        ("name", P.StringProperty(required=True)), ("description", P.StringProperty()), ("size", P.IntegerProperty()),
        ("tags", P.ListProperty(P.StringProperty)),
    ])
    class Gadget(object):
        pass

    @stix2.v21.CustomObject("x-verif-widget", [
        ("name", P.StringProperty(required=True)), ("description", P.StringProperty()), ("size", P.IntegerProperty()),
        ("tags", P.ListProperty(P.StringProperty)), ("flag", P.BooleanProperty()), ("meta", P.DictionaryProperty(spec_version="2.1")),
    ])
    class Widget(object):
        pass
    return Gadget, Widget


@contextlib.contextmanager
def lib_session():
    """Registries snapshotted + the two harness custom types registered; clock pinned; all restored afterwards."""
    import pytz
    import stix2.base
    import stix2.utils
    import stix2.versioning
    snap = _registry_snapshot()
    clocks = [(m, m.get_timestamp) for m in (stix2.base, stix2.versioning, stix2.utils)]

    def fixed_now():
        return stix2.utils.STIXdatetime(*FIXED_NOW, tzinfo=pytz.utc)
    try:
        for m, _ in clocks:
            m.get_timestamp = fixed_now
        _register_custom()
        yield
    finally:
        for m, f in clocks:
            m.get_timestamp = f
        _registry_restore(snap)


@contextlib.contextmanager
def scratch_dir():
    d = tempfile.mkdtemp(prefix="verif-store-")
    try:
        yield d
    finally:
        shutil.rmtree(d, ignore_errors=True)


# ---- values in and out ------------------------------------------------------------------

def plain(x):
    """What a source returned -> plain JSON dict."""
    if hasattr(x, "serialize"):
        return json.loads(x.serialize())
    if isinstance(x, dict):
        return x
    raise core.HarnessError("source returned %r" % type(x))


def to_lib(obj):
    """Pool dict -> python-stix2 object (unregistered types stay dictionaries: that is the documented behaviour)."""
    import stix2
    return stix2.parse(copy.deepcopy(obj), allow_custom=True)


def require_accepted(objs):
    """The stored objects are meant to be valid STIX that the library accepts on its own; if it refuses one, the
    generator has left the domain (or parsing is broken, which is C03's business): harness error, never a violation."""
    for o in objs:
        _, exc = core.guarded(to_lib, o)
        if exc is not None:
            raise core.HarnessError("population object refused by stix2.parse (generator outside the domain?): %s -- %s" % (core.fmt_exc(exc), core.short(o, 400)))


def to_dt(text):
    t = M.instant(text)
    days, rem = divmod(t, tsref.US_PER_DAY)
    y, mo, d = tsref.civil_from_days(days)
    secs, us = divmod(rem, 10 ** 6)
    return dt.datetime(y, mo, d, secs // 3600, secs % 3600 // 60, secs % 60, us, tzinfo=dt.timezone.utc)


def mk_filter(f):
    from stix2 import Filter
    v = f["value"]
    if isinstance(v, dict) and "$dt" in v:
        v = to_dt(v["$dt"])
    elif isinstance(v, list):
        v = list(v)
    return Filter(f["prop"], f["op"], v)


def mk_filters(fs):
    return [mk_filter(f) for f in fs]


def bundle_version(items):
    return "2.1" if any("spec_version" in o for o in items) else "2.0"


def as_form(items, form, sub=None, bundle_no=0):
    """The value handed to add() for `items` (list of pool dicts) in the documented input form `form`.
    Single-object forms take items[0]."""
    import stix2.v20
    import stix2.v21
    if form == "object":
        return to_lib(items[0])
    if form == "dict":
        return copy.deepcopy(items[0])
    if form == "json":
        return json.dumps(items[0])
    if form == "list":
        sub = sub or ["dict"]
        return [as_form([o], sub[i % len(sub)]) for i, o in enumerate(items)]
    ver = bundle_version(items)
    bid = G.oid("bundle", 0xb0 + bundle_no % 16)
    if form == "bundle-object":
        cls = stix2.v21.Bundle if ver == "2.1" else stix2.v20.Bundle
        return cls(objects=[to_lib(o) for o in items], id=bid, allow_custom=True)
    b = {"type": "bundle", "id": bid}
    if ver == "2.0":
        b["spec_version"] = "2.0"
    b["objects"] = copy.deepcopy(items)
    if form == "bundle-dict":
        return b
    if form == "bundle-json":
        return json.dumps(b)
    raise core.HarnessError("unknown form %r" % form)


SINGLE_FORMS = ("object", "dict", "json")
MULTI_FORMS = ("list", "bundle-object", "bundle-dict", "bundle-json")


def form_has_json(form, sub, n):
    if form in ("json", "bundle-json"):
        return True
    if form == "list":
        sub = sub or ["dict"]
        return any(sub[i % len(sub)] == "json" for i in range(n))
    return False


# ---- comparing an answer with the model ----------------------------------------------------

def diff_multiset(got, exp):
    """got: list of plain dicts from the library, exp: list of model dicts.  -> (missing, extra) as canon strings."""
    g, e = M.multiset(got), M.multiset(exp)
    missing = list(e)
    extra = []
    for c in g:
        if c in missing:
            missing.remove(c)
        else:
            extra.append(c)
    return missing, extra


def keyset(objs):
    return sorted((o["id"], M.key_of(o)[1] if o.get("modified") else None) for o in objs)


def describe(objs, n=6):
    return "[" + ", ".join("%s@%s" % (o["id"][:o["id"].index("--") + 2] + o["id"][-2:], o.get("modified", "-")) for o in objs[:n]) + (", …" if len(objs) > n else "") + "]"


def compare_answer(where, got_raw, exp, fails, key_prefix, detail_ctx="", alt=None, alt_key=None):
    """Compare a list answer with the model's expectation.  `alt`: expectation under a *named defect hypothesis*
    (e.g. timestamps of dict-kept objects compared as text); if the answer equals `alt` and not `exp`, the
    failure is bucketed under alt_key."""
    got = [plain(x) for x in got_raw]
    missing, extra = diff_multiset(got, exp)
    if not missing and not extra:
        return True
    if alt is not None and alt_key:
        m2, e2 = diff_multiset(got, alt)
        if not m2 and not e2:
            fails.append((alt_key, "%s %s: got %s, documented semantics give %s" % (where, detail_ctx, describe(got), describe(exp))))
            return False
    gk, ek = keyset(got), keyset(exp)
    if gk == ek:
        kind = "content-changed"
    elif len(gk) != len(set(gk)) and sorted(set(gk)) == ek:
        kind = "duplicates"
    elif missing and not extra:
        kind = "missing"
    elif extra and not missing:
        kind = "extra"
    else:
        kind = "differs"
    fails.append(("%s:%s" % (key_prefix, kind), "%s %s: got %s, expected %s; missing=%s extra=%s" % (
        where, detail_ctx, describe(got), describe(exp), core.short(missing, 300), core.short(extra, 300))))
    return False


def quirk_text(obj):
    return "text" if G.is_dict_kept(obj) else None


def quirk_parsed_in(obj):
    return None if G.is_dict_kept(obj) else "parsed-in"


def quirk_both(obj):
    return "text" if G.is_dict_kept(obj) else "parsed-in"


def selftest():
    try:
        tsref.selftest()
        M.selftest()
        G.selftest()
    except AssertionError as e:
        raise core.HarnessError("oracle/generator self-test: %s" % e)
    # the pool must be accepted by the library as written, with no implicit members (see gen/stores.py docstring)
    with lib_session():
        for t in G.ALL_TEMPLATES:
            for k in (0, 1):
                o = G.build(t, k, "1000-01-01T00:00:00.000Z", "2020-01-01T00:00:01.500Z", 1, True)
                p, exc = core.guarded(to_lib, o)
                if exc is not None:
                    raise core.HarnessError("pool template %s refused by the library: %s" % (t, core.fmt_exc(exc)))
                kept = isinstance(p, dict)
                if kept != G.is_dict_kept(o):
                    raise core.HarnessError("pool template %s: dict-kept expectation wrong" % t)
                if not kept:
                    extra = set(p.keys()) - set(o.keys())
                    if extra:
                        raise core.HarnessError("pool template %s: library adds implicit members %s" % (t, sorted(extra)))
        for rt in ("relationship20", "relationship21"):
            for t in G.NODE_TEMPLATES:
                if rt == "relationship20" and G.TEMPLATES[t][2] in ("sco", "unreg-obs"):
                    continue
                o = G.build(rt, 0, "1000-01-01T00:00:00.000Z", "2020-01-01T00:00:01.500Z", 1, True, {"source_ref": G.slot_id(t, 0), "target_ref": G.slot_id(t, 1)})
                _, exc = core.guarded(to_lib, o)
                if exc is not None:
                    raise core.HarnessError("%s with %s endpoints refused by the library: %s" % (rt, t, core.fmt_exc(exc)))
    from stix2 import registry
    if registry.class_for_type("x-verif-widget", "2.1") is not None:
        raise core.HarnessError("registry not restored")
