"""C13 -- library operations never modify their arguments or existing objects;
assignment/deletion is refused; a deep copy is equal and shares no mutable state.

A case is a pool of generated documents plus a sequence of operations that
reuse them (and the objects created along the way).  Before and after every
call (return or exception) every caller-owned container and the serialization
of every object created so far are snapshotted and compared.
"""
import copy
import json
import os
import shutil
import tempfile

from hypothesis import strategies as st

from gen import objects as G
from harness import core
from oracle import model as M

MARKING_IDS = ["marking-definition--613f2e26-407d-48c7-9eca-b8e91df99dc9", "marking-definition--34098fce-860f-48ae-8e50-ebd3cc5e41da",
               "marking-definition--3f2504e0-4f89-41d3-9a0c-0305e82c3301"]


C13_EXT_OBJ = "extension-definition--a1b2c3d4-0000-4000-8000-00000000d001"
C13_EXT_SCO = "extension-definition--a1b2c3d4-0000-4000-8000-00000000d002"
OTHER_EXT = "extension-definition--a1b2c3d4-0000-4000-8000-00000000d003"
_registered = [False]


def ensure_custom():
    """Harness-registered custom types, among them types whose class injects its own defining extension (extension_name=)."""
    if _registered[0]:
        return
    import stix2
    from stix2 import properties as P

    @stix2.v21.CustomObject("x-verif-c13obj", [("prop_str", P.StringProperty(required=True)), ("prop_list", P.ListProperty(P.StringProperty))], extension_name=C13_EXT_OBJ)
    class C13Obj(object):
        pass

    @stix2.v21.CustomObservable("x-verif-c13sco", [("prop_str", P.StringProperty(required=True)), ("prop_dict", P.DictionaryProperty(spec_version="2.1"))], ["prop_str"],
                                extension_name=C13_EXT_SCO)
    class C13Sco(object):
        pass

    @stix2.v20.CustomObject("x-verif-c13obj20", [("prop_str", P.StringProperty(required=True)), ("prop_list", P.ListProperty(P.StringProperty))])
    class C13Obj20(object):
        pass
    _registered[0] = True


def custom_docs(draw):
    """Documents of the harness types.  `extensions` is present in several shapes: absent, holding only a foreign (unregistered)
    extension, holding the type's own extension as its serialization spells it, or both."""
    kind = draw(st.sampled_from(["obj", "obj", "sco", "obj20"]))
    if kind == "obj20":
        return "2.0", {"type": "x-verif-c13obj20", "id": "x-verif-c13obj20--3f2504e0-4f89-41d3-9a0c-0305e82c3301", "created": "2020-01-01T00:00:00.000Z",
                       "modified": "2020-01-02T00:00:00.000Z", "prop_str": "s", "prop_list": ["a", "b"]}
    own = C13_EXT_OBJ if kind == "obj" else C13_EXT_SCO
    if kind == "obj":
        doc = {"type": "x-verif-c13obj", "spec_version": "2.1", "id": "x-verif-c13obj--3f2504e0-4f89-41d3-9a0c-0305e82c3301", "created": "2020-01-01T00:00:00.000Z",
               "modified": "2020-01-02T00:00:00.000Z", "prop_str": "s", "prop_list": ["a", "b"]}
        own_body = {"extension_type": "new-sdo"}
    else:
        doc = {"type": "x-verif-c13sco", "spec_version": "2.1", "id": "x-verif-c13sco--3f2504e0-4f89-41d3-9a0c-0305e82c3301", "prop_str": "s", "prop_dict": {"k": [1, 2]}}
        own_body = {"extension_type": "new-sco"}
    shape = draw(st.sampled_from(["none", "foreign", "foreign", "own", "both"]))
    ext = {}
    if shape in ("foreign", "both"):
        ext[OTHER_EXT] = {"extension_type": "property-extension", "rank": 3, "tags": ["t"]}
    if shape in ("own", "both"):
        ext[own] = own_body
    if shape != "none":
        doc["extensions"] = ext
    return "2.1", doc


def snap(x):
    return json.dumps(x, sort_keys=True, default=lambda o: "<%s %s>" % (type(o).__name__, o.serialize(include_optional_defaults=True) if hasattr(o, "serialize") else repr(o)))


def obj_snap(o):
    try:
        return o.serialize(include_optional_defaults=True)
    except Exception as e:  # noqa -- a previously created object that can no longer be serialized has changed
        return "<unserializable: %s>" % type(e).__name__


def containers(x, acc):
    """ids of mutable containers reachable from x (dicts, lists, library objects' _inner)."""
    if hasattr(x, "_inner"):
        acc.add(id(x._inner))
        for v in x._inner.values():
            containers(v, acc)
    elif isinstance(x, dict):
        acc.add(id(x))
        for v in x.values():
            containers(v, acc)
    elif isinstance(x, list):
        acc.add(id(x))
        for v in x:
            containers(v, acc)
    return acc


def to_mapping_kind(x, kind, depth=0):
    """Caller containers as dict subclasses (OrderedDict / defaultdict), at the top only or at every depth."""
    import collections
    if isinstance(x, dict):
        deep = kind.endswith("-deep")
        items = [(k, to_mapping_kind(v, kind, depth + 1) if deep or depth == 0 else v) for k, v in x.items()]
        if depth == 0 and not deep and kind.startswith("ordered"):
            # top level stays a plain dict (needed for ** expansion semantics to be identical); first nesting level converted
            return dict((k, collections.OrderedDict(v) if isinstance(v, dict) else v) for k, v in items)
        if kind.startswith("ordered"):
            return collections.OrderedDict(items)
        if kind.startswith("default"):
            d = collections.defaultdict(list)
            d.update(items)
            return d
        return dict(items)
    if isinstance(x, list):
        return [to_mapping_kind(v, kind, depth + 1) for v in x]
    return x


def respell_hashes(x):
    """Hash algorithm names in spellings the library accepts and normalises (md5, sha256, sha-1 ...): normalisation must
    happen in the library's own copy, never in the caller's dictionary."""
    if isinstance(x, dict):
        out = {}
        for k, v in x.items():
            if k in ("hashes", "file_header_hashes") and isinstance(v, dict):
                out[k] = {(hk.lower() if i % 2 == 0 else hk.replace("-", "").lower()): hv for i, (hk, hv) in enumerate(v.items())}
            else:
                out[k] = respell_hashes(v)
        return out
    if isinstance(x, list):
        return [respell_hashes(v) for v in x]
    return x


class Machine(object):
    def __init__(self, case):
        self.docs = copy.deepcopy(case["docs"])          # caller-owned argument values
        if case.get("hash_spelling") == "non-canonical":
            self.docs = [respell_hashes(d) for d in self.docs]
        mk = case.get("mapping_kind", "dict")
        if mk != "dict":
            self.docs = [to_mapping_kind(d, mk) for d in self.docs]
        self.vers = case["vers"]
        self.objs = []                                    # library objects created so far
        self.extra = []                                   # other caller-owned containers handed to the library
        self.fails = []
        self.tmp = None

    def doc(self, i):
        return self.docs[i % len(self.docs)]

    def obj(self, i):
        return self.objs[i % len(self.objs)] if self.objs else None

    def guarded_call(self, name, fn, args_desc):
        before_docs = [snap(d) for d in self.docs]
        before_extra = [snap(e) for e in self.extra]
        before_objs = [obj_snap(o) for o in self.objs]
        res, exc = core.guarded(fn)
        how = "returned" if exc is None else "raised %s" % type(exc).__name__
        for i, (b, d) in enumerate(zip(before_docs, self.docs)):
            if snap(d) != b:
                self.fails.append(("argument-modified:%s" % name, "%s (%s) changed caller document #%d: %s -> %s" % (name, how, i, core.short(b, 300), core.short(snap(d), 300))))
        for i, (b, d) in enumerate(zip(before_extra, self.extra)):
            if snap(d) != b:
                self.fails.append(("argument-modified:%s" % name, "%s (%s) changed a caller container: %s -> %s" % (name, how, core.short(b, 300), core.short(snap(d), 300))))
        for i, (b, o) in enumerate(zip(before_objs, self.objs)):
            a = obj_snap(o)
            if a != b:
                self.fails.append(("existing-object-modified:%s" % name, "%s (%s) changed a previously created %s: %s -> %s" % (name, how, type(o).__name__, core.short(b, 300), core.short(a, 300))))
        return res, exc

    def keep(self, res):
        if res is not None and hasattr(res, "serialize") and hasattr(res, "_inner"):
            self.objs.append(res)

    def run_op(self, op):
        import stix2
        from stix2 import markings, versioning
        k = op["op"]
        a, b = op.get("a", 0), op.get("b", 0)
        d = self.doc(a)
        ver = self.vers[a % len(self.vers)]
        if k == "parse":
            res, _ = self.guarded_call(k, lambda: stix2.parse(d, allow_custom=op.get("flag", True), version=ver), None)
            self.keep(res)
        elif k == "parse_observable":
            refs = {"0": "file", "1": "directory"}
            self.extra.append(refs)
            res, _ = self.guarded_call(k, lambda: stix2.parse_observable(d, refs, allow_custom=True, version=ver), None)
            self.keep(res)
        elif k == "constructor":
            from stix2 import registry
            cls = registry.class_for_type(d["type"], ver, "objects") or registry.class_for_type(d["type"], ver, "observables")
            if cls is None:
                return
            kw = {kk: vv for kk, vv in d.items() if kk != "type"}   # values are the caller's nested containers themselves
            cp = {"x_custom": [1, {"a": [2]}], "x_void": {"opts": {}, "tags": [[]]}}
            self.extra.append(cp)
            if op.get("flag"):
                res, _ = self.guarded_call(k, lambda: cls(custom_properties=cp, **kw), None)
            else:
                res, _ = self.guarded_call(k, lambda: cls(allow_custom=True, **kw), None)
            self.keep(res)
        elif k == "bundle":
            members = [self.doc(a), self.doc(b)] + ([self.obj(a)] if self.objs else [])
            members = [m for m in members if m is not None and (hasattr(m, "serialize") or m.get("type") != "bundle")]
            lst = list(members)
            self.extra.append(lst)
            B = stix2.v21.Bundle if ver == "2.1" else stix2.v20.Bundle
            res, _ = self.guarded_call(k, lambda: B(objects=lst, allow_custom=True) if op.get("flag") else B(*lst, allow_custom=True), None)
            self.keep(res)
        elif k == "deepcopy":
            o = self.obj(a)
            if o is None:
                return
            c, exc = self.guarded_call(k, lambda: copy.deepcopy(o), None)
            if exc is not None:
                self.fails.append(("deepcopy-failed", "deepcopy(%s) raised %s" % (type(o).__name__, core.fmt_exc(exc))))
                return
            if type(c) is not type(o) or c != o or obj_snap(c) != obj_snap(o):
                self.fails.append(("deepcopy-not-equal", "deepcopy of %s differs: %s vs %s" % (type(o).__name__, core.short(obj_snap(c), 250), core.short(obj_snap(o), 250))))
            shared = containers(c, set()) & containers(o, set())
            if shared:
                self.fails.append(("deepcopy-shares-state", "deepcopy of %s shares %d mutable container(s) with its original" % (type(o).__name__, len(shared))))
            self.objs.append(c)
        elif k in ("new_version", "new_version_dict"):
            target = self.obj(a) if k == "new_version" else d
            if target is None or (k == "new_version_dict" and "modified" not in d):
                return
            labels = ["l1", "l2"]
            refs = [{"source_name": "s", "external_id": "e"}]
            self.extra.extend([labels, refs])
            kw = {"labels": labels} if op.get("flag") else {"external_references": refs}
            variant = b % 4
            if variant and k == "new_version":
                # changes handed over through the constructor's custom_properties= keyword: a caller-owned dictionary with specification-defined
                # keys, custom keys and nested containers; variant 3 is refused (unmodifiable property) -- the dictionary stays as it was either way
                cp = {1: {"description": "via custom_properties", "x_c": {"k": [1, {"z": []}]}},
                      2: {"modified": "9990-01-01T00:00:00.000Z", "x_c": {"k": [1]}, "labels": ["l3"]},
                      3: {"created_by_ref": "identity--7e4ba2c2-6b3e-4a0f-9a6e-0e2f5f5d0a20", "description": "refused", "x_c": [[], {}]}}[variant]
                self.extra.append(cp)
                kw = dict(kw, custom_properties=cp)
            if k == "new_version":
                res, _ = self.guarded_call(k, lambda: target.new_version(**kw), None)
            else:
                res, _ = self.guarded_call(k, lambda: versioning.new_version(target, allow_custom=True, **kw), None)
            self.keep(res)
        elif k == "revoke":
            o = self.obj(a)
            if o is None:
                return
            res, _ = self.guarded_call(k, lambda: o.revoke(), None)
            self.keep(res)
        elif k == "remove_custom_stix":
            o = self.obj(a)
            if o is None:
                return
            res, _ = self.guarded_call(k, lambda: versioning.remove_custom_stix(o), None)
            self.keep(res)
        elif k.startswith("mark:"):
            fn = getattr(markings, k.split(":")[1])
            target = self.obj(a) if op.get("flag") and self.objs else d
            if target is None:
                return
            sels = [s for s in ("name", "description", "labels", "created") if s in target]
            sel_list = sels[:1 + b % 2] or None
            if sel_list is not None:
                self.extra.append(sel_list)
            mk = [MARKING_IDS[b % 3]]
            self.extra.append(mk)
            name = k.split(":")[1]
            if name in ("add_markings", "remove_markings", "set_markings"):
                res, _ = self.guarded_call(k, lambda: fn(target, mk, sel_list), None)
            elif name == "clear_markings":
                res, _ = self.guarded_call(k, lambda: fn(target, sel_list), None)
            elif name == "get_markings":
                res, _ = self.guarded_call(k, lambda: fn(target, sel_list, inherited=bool(b % 2), descendants=bool(b % 3)), None)
                res = None
            else:
                res, _ = self.guarded_call(k, lambda: fn(target, mk, sel_list, inherited=bool(b % 2)), None)
                res = None
            self.keep(res)
        elif k == "serialize":
            o = self.obj(a)
            if o is None:
                return
            self.guarded_call(k, lambda: o.serialize(pretty=bool(b % 2), include_optional_defaults=bool(b % 3), sort_keys=bool(b % 5)), None)
        elif k in ("memory_add", "fs_add"):
            items = [self.doc(a), self.doc(b)] + ([self.obj(b)] if self.objs else [])
            items = [m for m in items if m is not None]
            self.extra.append(items)
            if k == "memory_add":
                store = stix2.MemoryStore()
            else:
                if self.tmp is None:
                    self.tmp = tempfile.mkdtemp(prefix="c13-")
                sub = tempfile.mkdtemp(dir=self.tmp)
                store = stix2.FileSystemStore(sub, allow_custom=True)
            self.guarded_call(k, lambda: store.add(items if op.get("flag") else items[0]), None)
            got, _ = self.guarded_call(k + ":query", lambda: store.query(), None)
            for o in got or []:
                self.keep(o)
            if k == "memory_add":
                if self.tmp is None:
                    self.tmp = tempfile.mkdtemp(prefix="c13-")
                path = os.path.join(tempfile.mkdtemp(dir=self.tmp), "out.json")
                self.guarded_call("save_to_file", lambda: store.save_to_file(path), None)
                s2 = stix2.MemoryStore()
                self.guarded_call("load_from_file", lambda: s2.load_from_file(path), None)
        elif k == "env_add":
            items = [self.doc(a)] + ([self.obj(b)] if self.objs else [])
            items = [m for m in items if m is not None]
            self.extra.append(items)
            env = stix2.Environment(store=stix2.MemoryStore())
            self.guarded_call(k, lambda: env.add(items if op.get("flag") else items[0]), None)
            got, _ = self.guarded_call(k + ":query", lambda: env.query(), None)
            for o in got or []:
                self.keep(o)
        elif k == "factory":
            omr = [MARKING_IDS[0]]
            ext = [{"source_name": "s", "description": "x"}]
            self.extra.extend([omr, ext])
            f = stix2.ObjectFactory(created="2020-01-01T00:00:00.000Z", external_references=ext, object_marking_refs=omr, list_append=bool(b % 2))
            own = [{"source_name": "mine", "external_id": "1"}]
            own_m = [MARKING_IDS[1]]
            self.extra.extend([own, own_m])
            res, _ = self.guarded_call(k, lambda: f.create(stix2.v21.Malware, name="m", is_family=False, external_references=own, object_marking_refs=own_m), None)
            self.keep(res)
            res, _ = self.guarded_call(k, lambda: f.create(stix2.v21.Malware, name="m2", is_family=False), None)
            self.keep(res)
        elif k == "canonicalize":
            from stix2.canonicalization.Canonicalize import canonicalize
            self.guarded_call(k, lambda: canonicalize(d, utf8=False), None)
        elif k == "mutate":
            o = self.obj(a)
            if o is None:
                return
            names = [n for n in ("name", "description", "labels", "created", "id", "value", "x_new") if True]
            n = names[b % len(names)]
            before = obj_snap(o)
            attempts = {
                "setattr": lambda: setattr(o, n, "changed"),
                "setitem": lambda: o.__setitem__(n, "changed"),
                "delattr": lambda: delattr(o, n),
                "delitem": lambda: o.__delitem__(n),
            }
            how = list(attempts)[op.get("c", 0) % 4]
            _, exc = core.guarded(attempts[how])
            after = obj_snap(o)
            if after != before:
                self.fails.append(("direct-mutation-succeeded:" + how, "%s %r on %s changed it: %s -> %s" % (how, n, type(o).__name__, core.short(before, 200), core.short(after, 200))))
            elif exc is None:
                self.fails.append(("direct-mutation-not-refused:" + how, "%s %r on %s did not raise" % (how, n, type(o).__name__)))
        elif k == "mutate_result":
            # changing a container reached through a *copy* must not affect the original
            o = self.obj(a)
            if o is None:
                return
            c, exc = core.guarded(copy.deepcopy, o)
            if exc is not None:
                return
            before = obj_snap(o)
            for v in c._inner.values():
                if isinstance(v, list):
                    v.append("poison")
                    break
                if isinstance(v, dict):
                    v["poison"] = 1
                    break
            if obj_snap(o) != before:
                self.fails.append(("deepcopy-shares-state", "mutating a container of the copy changed the original %s" % type(o).__name__))
        else:
            raise AssertionError(k)

    def close(self):
        if self.tmp:
            shutil.rmtree(self.tmp, ignore_errors=True)


def check_case(case):
    ensure_custom()
    m = Machine(case)
    try:
        for op in case["ops"]:
            m.run_op(op)
    finally:
        m.close()
    seen, out = set(), []
    for k, d in m.fails:
        if k not in seen:
            seen.add(k)
            out.append((k, d))
    return out


OPS = ["parse", "parse", "constructor", "constructor", "bundle", "deepcopy", "new_version", "new_version_dict", "revoke", "remove_custom_stix",
       "mark:add_markings", "mark:remove_markings", "mark:set_markings", "mark:clear_markings", "mark:get_markings", "mark:is_marked", "serialize",
       "memory_add", "fs_add", "env_add", "factory", "canonicalize", "mutate", "mutate", "mutate_result", "parse_observable"]
OPTS = {"ts_max_digits": 6, "selectors": "safe", "max_optional": 6, "min_year": 1971}


@st.composite
def case_strategy(draw):
    n = draw(st.integers(1, 3))
    vers, docs = [], []
    for _ in range(n):
        if draw(st.integers(0, 5)) == 0:
            ver, doc = custom_docs(draw)
            docs.append(doc)
            vers.append(ver)
            continue
        ver = draw(st.sampled_from(["2.0", "2.1"]))
        t = draw(st.sampled_from([x for x in G.top_types(ver)]))
        opts = dict(OPTS)
        if draw(st.booleans()):
            opts["maximal"] = True
        doc = draw(G.valid_object(ver, type_=t, opts=opts))
        if doc["type"] not in ("marking-definition", "bundle") and draw(st.integers(0, 3)) == 0:
            # custom content holding EMPTY containers at several depths (a copy must not share those either)
            doc["x_hollow"] = draw(st.sampled_from([{}, {"opts": {}, "tags": [[]]}, [[], {}], {"a": {"b": {}}, "c": []}]))
        docs.append(doc)
        vers.append(ver)
    ops = [{"op": "parse", "a": 0, "flag": True}]
    for _ in range(draw(st.integers(3, 8))):
        ops.append({"op": draw(st.sampled_from(OPS)), "a": draw(st.integers(0, 5)), "b": draw(st.integers(0, 11)), "c": draw(st.integers(0, 3)), "flag": draw(st.booleans())})
    return {"docs": docs, "vers": vers, "ops": ops, "mapping_kind": draw(st.sampled_from(["dict", "dict", "ordered", "ordered-deep", "default-deep"])),
            "hash_spelling": draw(st.sampled_from(["canonical", "canonical", "non-canonical"]))}


def run(ctx):
    ctx.rule = ("pools of 1-3 generated documents (all types, both versions, nested lists/dicts, extensions; one in six a harness-registered custom type, "
                "incl. types registered with extension_name whose class adds its own extension, with caller-supplied `extensions` in four shapes) and sequences of 4-9 operations from "
                "a 22-entry catalogue (parse, parse_observable with _valid_refs, constructors with the caller's nested containers and "
                "custom_properties, Bundle, deepcopy, new_version/revoke on objects and dicts, remove_custom_stix, the six marking functions "
                "on objects and dicts, serialize, memory/filesystem store add+query, save/load, ObjectFactory with list defaults, "
                "canonicalize, direct set/del attempts, mutation through a copy) that reuse the same inputs and the objects created "
                "earlier. Non-trivial = sequence with >= 2 operations sharing an argument whose graph has depth >= 2; distinct = distinct case.")
    ctx.assumptions = ["value identity is canonical JSON of the caller's containers and serialize(include_optional_defaults=True) of objects",
                       "aliasing (the library keeping a reference to a caller container) is not modification and is not asserted"]

    def body(case):
        fails = check_case(case)
        depth2 = any(any(isinstance(v, (list, dict)) for v in d.values()) for d in case["docs"])
        cl = ["op:" + o["op"] for o in case["ops"]] + ["custom-type:" + d["type"] for d in case["docs"] if d["type"].startswith("x-verif")] + ["docs:%d" % len(case["docs"]), "containers:" + case.get("mapping_kind", "dict"), "hashes:" + case.get("hash_spelling", "canonical")]
        ctx.note(case, depth2 and len(case["ops"]) >= 3, cl)
        ctx.handle(case, fails)

    core.run_given(ctx, case_strategy(), body, ctx.n(1300, 5000), label="c13-main")

    # previously created Environments / factories are "existing objects" too: configuring one must not reconfigure another (finite)
    ctx.collect_only = True
    for how in ENV_STEPS:
        for second_first in (False, True):
            case = {"special": "environment-isolation", "how": how, "second_first": second_first}
            ctx.note(case, True, ["environment-isolation:" + how])
            ctx.handle(case, check_environment_isolation(case))
    ctx.collect_only = False


ENV_STEPS = ["set_default_creator", "set_default_created", "set_default_external_refs", "set_default_object_marking_refs", "add_filter", "add_to_store"]


def check_environment_isolation(case):
    """Two Environments built the default way (no factory named); one is configured; what the other creates / answers stays as before."""
    import stix2
    mk = lambda: stix2.Environment(store=stix2.MemoryStore())
    a, b = (mk(), mk()) if not case["second_first"] else tuple(reversed((mk(), mk())))
    ident = "identity--311b2d2d-f010-4473-83ec-1edf84858f4c"
    marking = "marking-definition--613f2e26-407d-48c7-9eca-b8e91df99dc9"

    def observe(env):
        o, exc = core.guarded(env.create, stix2.v21.Campaign, name="x", id="campaign--7e4ba2c2-6b3e-4a0f-9a6e-0e2f5f5d0a21", modified="9000-01-01T00:00:00.000Z")
        q, exc2 = core.guarded(env.query, [])
        return (core.short(json.loads(o.serialize()) if exc is None else core.fmt_exc(exc), 600),
                sorted(x["id"] for x in q) if exc2 is None else core.fmt_exc(exc2))
    before = observe(b)
    how = case["how"]
    if how == "set_default_creator":
        a.set_default_creator(ident)
    elif how == "set_default_created":
        a.set_default_created("2019-01-01T00:00:00.000Z")
    elif how == "set_default_external_refs":
        a.set_default_external_refs([{"source_name": "s", "external_id": "e"}])
    elif how == "set_default_object_marking_refs":
        a.set_default_object_marking_refs([marking])
    elif how == "add_filter":
        a.add_filters([stix2.Filter("type", "=", "x-none")])
    elif how == "add_to_store":
        a.add(stix2.v21.Identity(name="i", id=ident))
    after = observe(b)
    # an unconfigured `created` comes from the clock: compared only when this step is about it
    import re
    strip = (lambda t: t[0]) if how == "set_default_created" else (lambda t: re.sub(r'"created": ?"[^"]*"', '"created":"<clock>"', t[0]))
    if how == "set_default_created":
        ok = '"created":"2019-01-01T00:00:00.000Z"' not in after[0].replace(" ", "")
    else:
        ok = strip(before) == strip(after)
    if not ok or before[1] != after[1]:
        return [("existing-object-modified:environment:" + how, "%s on one default-built Environment changed what another one creates / answers: %s -> %s" % (how, before, after))]
    return []


def replay(case):
    if case.get("special") == "environment-isolation":
        return check_environment_isolation(case)
    return check_case(case)
