"""C19 -- custom type registration is exact, exclusive and version-scoped.

A case is a sequence of registrations (valid, duplicate, invalid names; both
versions; all four kinds) interleaved with parses/lookups, interpreted next to
a model registry; the four registry maps of both versions are snapshotted at
the start of every case and restored at its end.
"""
import copy
import json
import signal

from hypothesis import strategies as st

from harness import core

UUID = "3f2504e0-4f89-41d3-9a0c-0305e82c3301"
CATS = {"object": "objects", "observable": "observables", "marking": "markings", "extension": "extensions"}
BUILTIN_SAMPLE = [("2.1", "objects", "identity"), ("2.1", "objects", "indicator"), ("2.1", "observables", "file"), ("2.1", "observables", "ipv4-addr"),
                  ("2.0", "objects", "identity"), ("2.0", "observables", "file"), ("2.1", "markings", "statement"), ("2.1", "extensions", "archive-ext"),
                  ("2.0", "objects", "malware"), ("2.1", "objects", "relationship"), ("2.1", "observables", "url"), ("2.0", "observables", "url")]


class _Timeout(BaseException):
    pass


def _alarm(signum, frame):
    raise _Timeout()


def name_rule(name, ver, kind):
    """'legal' / 'illegal' / 'grey' per the specification's type-name rules (one-directional oracle)."""
    import re
    if kind == "extension" and name.startswith("extension-definition--"):
        u = name[len("extension-definition--"):]
        return "legal" if re.match(r"^[0-9a-f]{8}-[0-9a-f]{4}-4[0-9a-f]{3}-[89ab][0-9a-f]{3}-[0-9a-f]{12}$", u) else "grey"
    if not (3 <= len(name) <= 250):
        return "illegal"
    if re.search(r"[^a-z0-9-]", name):
        return "illegal"
    if "--" in name:
        return "illegal"
    if ver == "2.1" and not re.match(r"^[a-z]", name):
        return "illegal"
    if re.match(r"^[a-z][a-z0-9]*(-[a-z0-9]+)*$", name):
        if kind == "extension" and ver == "2.1" and not name.endswith("-ext"):
            return "grey"      # 2.1 extension names must end in -ext (library rule, spec SHOULD)
        return "legal"
    return "grey"              # leading digit/hyphen in 2.0, trailing hyphen


def prop_rule(pname, ver):
    import re
    if ver == "2.0":
        # 2.0 names are not checked by the library (grey), but a name that satisfies the stricter 2.1 rule is legal in 2.0 as well
        return "legal" if re.match(r"^[a-z][a-z0-9_]{2,249}$", pname) else "grey"
    if re.search(r"[^a-z0-9_]", pname) or not re.match(r"^[a-z]", pname) or not (3 <= len(pname) <= 250):
        return "illegal"
    return "legal"


def make_props(spec):
    from stix2 import properties as P
    out = []
    for pname, kind in spec:
        if kind == "string-required":
            out.append((pname, P.StringProperty(required=True)))
        elif kind == "integer":
            out.append((pname, P.IntegerProperty()))
        elif kind == "string":
            out.append((pname, P.StringProperty()))
        elif kind == "ref":
            out.append((pname, P.ReferenceProperty(valid_types="identity", spec_version="2.1")))
        elif kind == "objref":
            out.append((pname, P.ObjectReferenceProperty(valid_types="file")))
        elif kind == "list-string":
            out.append((pname, P.ListProperty(P.StringProperty)))
        else:
            raise AssertionError(kind)
    return out


def snapshot():
    from stix2 import registry
    return {v: {c: dict(mp) for c, mp in maps.items()} for v, maps in registry.STIX2_OBJ_MAPS.items()}


def restore(snap):
    from stix2 import registry
    for v, maps in snap.items():
        for c, mp in maps.items():
            cur = registry.STIX2_OBJ_MAPS[v][c]
            cur.clear()
            cur.update(mp)


def do_register(op):
    import stix2
    ver, kind, name = op["ver"], op["kind"], op["name"]
    mod = stix2.v20 if ver == "2.0" else stix2.v21
    props = make_props(op["props"])
    cls = type("VerifCustom", (object,), {})
    if kind == "object":
        kw = {}
        if op.get("extension_name") and ver == "2.1":
            kw["extension_name"] = op["extension_name"]
        return mod.CustomObject(name, props, **kw)(cls)
    if kind == "observable":
        kw = {}
        if ver == "2.1":
            kw["id_contrib_props"] = [p for p, _ in op["props"][:1]]
            if op.get("extension_name"):
                kw["extension_name"] = op["extension_name"]
        return mod.CustomObservable(name, props, **kw)(cls)
    if kind == "marking":
        return mod.CustomMarking(name, props)(cls)
    if kind == "extension":
        if op.get("extension_type") and ver == "2.1":
            cls = type("VerifCustomExt", (object,), {"extension_type": op["extension_type"]})
        return mod.CustomExtension(name, props)(cls)
    raise AssertionError(kind)


def sample_doc(ver, kind, name, props):
    d = {"type": name}
    if kind == "object":
        d.update({"id": "%s--%s" % (name, UUID), "created": "2020-01-01T00:00:00.000Z", "modified": "2020-01-01T00:00:00.000Z"})
        if ver == "2.1":
            d["spec_version"] = "2.1"
    elif kind == "observable" and ver == "2.1":
        d["spec_version"] = "2.1"
    for pname, pk in props:
        if pk == "string-required":
            d[pname] = "v"
        elif pk == "integer":
            d[pname] = 5
    return d


class Machine(object):
    def __init__(self):
        self.model = {}          # (ver, category, name) -> class registered during this case
        self.fails = []
        self.base = snapshot()
        self.builtin = {k: self.base[k[0]][k[1]].get(k[2]) for k in BUILTIN_SAMPLE}

    def taken(self, ver, cat, name):
        return name in self.base[ver][cat] or (ver, cat, name) in self.model

    def taken_anywhere(self, ver, name):
        return any(name in self.base[ver][c] or (ver, c, name) in self.model for c in CATS.values())

    def fail(self, key, detail):
        self.fails.append((key, detail))

    def step_register(self, op):
        ver, kind, name = op["ver"], op["kind"], op["name"]
        cat = CATS[kind]
        before = snapshot()
        old = signal.signal(signal.SIGALRM, _alarm)
        signal.setitimer(signal.ITIMER_REAL, 60)
        try:
            try:
                cls, exc = core.guarded(do_register, op)
            finally:
                signal.setitimer(signal.ITIMER_REAL, 0)
                signal.signal(signal.SIGALRM, old)
        except _Timeout:
            self.fail("registration-no-termination", "registering %r (%s, %s) did not return within 60 s" % (name, kind, ver))
            restore(before)
            return
        after = snapshot()
        desc = "register %s %r for %s props=%s ext=%s" % (kind, name, ver, [p for p, _ in op["props"]], op.get("extension_name"))
        nr = name_rule(name, ver, kind)
        prs = [prop_rule(p, ver) for p, _ in op["props"]]
        ref_bad = any((p.endswith("_ref") and k not in ("ref", "objref")) or (p.endswith("_refs")) and k != "list-ref" for p, k in op["props"])
        dup = self.taken(ver, cat, name)
        if exc is not None:
            from stix2.exceptions import DuplicateRegistrationError
            if after != before:
                changed = [(v, c, n) for v in after for c in after[v] for n in set(after[v][c]) ^ set(before[v][c])]
                self.fail("refused-registration-left-traces", "%s raised %s but registries changed: %s" % (desc, core.fmt_exc(exc), changed))
                restore(before)
            if dup and not isinstance(exc, (DuplicateRegistrationError, ValueError)):
                self.fail("duplicate-wrong-error", "%s raised %s" % (desc, core.fmt_exc(exc)))
            if not dup and nr == "legal" and all(p == "legal" for p in prs) and not ref_bad and not op.get("extension_name") and op["props"] \
                    and not self.taken_anywhere(ver, name):
                self.fail("legal-registration-refused", "%s raised %s" % (desc, core.fmt_exc(exc)))
            return
        # accepted
        if dup:
            self.fail("duplicate-accepted", "%s succeeded although the name is taken in %s/%s" % (desc, ver, cat))
        elif kind in ("object", "observable"):
            # objects and observables share one dispatch in parse(): a name taken in the other of the two categories (same version) is taken
            oc = "observables" if kind == "object" else "objects"
            if name in self.base[ver][oc] or (ver, oc, name) in self.model:
                self.fail("name-taken-in-other-category-accepted", "%s succeeded although %r is registered in %s/%s" % (desc, name, ver, oc))
        if nr == "illegal":
            feature = ("double-hyphen" if "--" in name else "length" if not 3 <= len(name) <= 250 else "charset" if any(ch not in "abcdefghijklmnopqrstuvwxyz0123456789-" for ch in name) else "first-char")
            self.fail("illegal-type-name-accepted:%s:%s" % (feature, ver), "%s succeeded" % desc)
        for (p, _), r in zip(op["props"], prs):
            if r == "illegal":
                import re
                feature = ("length" if not 3 <= len(p) <= 250 else "first-char" if not re.match(r"^[a-z]", p) else "charset")
                self.fail("illegal-property-name-accepted:%s" % feature, "%s succeeded with property %r" % (desc, p))
        if ref_bad:
            self.fail("untyped-ref-property-accepted", "%s succeeded" % desc)
        # exactly one entry added (plus the helper extension when extension_name was given)
        added = [(v, c, n) for v in after for c in after[v] for n in set(after[v][c]) - set(before[v][c])]
        removed = [(v, c, n) for v in after for c in after[v] for n in set(before[v][c]) - set(after[v][c])]
        replaced = [(v, c, n) for v in after for c in after[v] for n in before[v][c] if n in after[v][c] and after[v][c][n] is not before[v][c][n]]
        expect = {(ver, cat, name)}
        if op.get("extension_name") and ver == "2.1" and kind in ("object", "observable"):
            expect.add((ver, "extensions", op["extension_name"]))
        if set(added) != expect or removed or replaced:
            self.fail("registration-not-exact", "%s: added %s removed %s replaced %s, expected exactly %s" % (desc, added, removed, replaced, sorted(expect)))
        for k in added:
            self.model[k] = after[k[0]][k[1]][k[2]]
        if (ver, cat, name) in self.model and not dup:
            self.guarantees(op, self.model[(ver, cat, name)])

    def guarantees(self, op, cls):
        """Objects of a registered custom type enjoy round-trip, validation and versioning guarantees."""
        import stix2
        ver, kind, name = op["ver"], op["kind"], op["name"]
        if kind not in ("object", "observable") or name_rule(name, ver, kind) != "legal":
            return
        if any(prop_rule(p, ver) == "illegal" for p, _ in op["props"]):
            return
        doc = sample_doc(ver, kind, name, op["props"])
        if kind == "observable" and ver == "2.0":
            o, exc = core.guarded(stix2.parse_observable, doc, version=ver, allow_custom=False)
        else:
            o, exc = core.guarded(stix2.parse, doc, version=ver, allow_custom=False)
        desc = "%s %r (%s)" % (kind, name, ver)
        if exc is not None:
            if self.other_category_owner(ver, CATS[kind], name):
                return
            self.fail("custom-type-instance-refused", "valid instance of %s refused: %s" % (desc, core.fmt_exc(exc)))
            return
        if type(o) is not cls:
            if not self.other_category_owner(ver, CATS[kind], name):
                self.fail("custom-type-wrong-class", "parse of %s gave %s" % (desc, type(o).__name__))
            return
        text = o.serialize()
        if kind == "object" or ver == "2.1":
            ov = "2.0" if ver == "2.1" else "2.1"
            ambiguous = any((ov, c, name) in self.model or name in self.base[ov][c] for c in CATS.values())
            # a name registered in both versions makes version-less text inherently ambiguous: name the version then
            back, exc = core.guarded(stix2.parse, text, allow_custom=False, **({"version": ver} if ambiguous else {}))
            if exc is not None or type(back) is not cls or back != o or back.serialize() != text:
                self.fail("custom-type-round-trip", "round trip of %s failed: %s" % (desc, core.fmt_exc(exc) if exc else core.short(text, 200)))
        req = [p for p, k in op["props"] if k == "string-required"]
        if req:
            d2 = dict(doc)
            d2.pop(req[0])
            fn = stix2.parse_observable if (kind == "observable" and ver == "2.0") else stix2.parse
            _, exc = core.guarded(fn, d2, version=ver, allow_custom=False)
            if exc is None:
                self.fail("custom-type-required-not-enforced", "%s accepted without required %r" % (desc, req[0]))
        if kind == "object":
            nv, exc = core.guarded(o.new_version, labels=["x"])
            if exc is not None or nv["id"] != o["id"] or not nv["modified"] > o["modified"]:
                self.fail("custom-type-versioning", "new_version of %s: %s" % (desc, core.fmt_exc(exc) if exc else "id/modified wrong"))
        if kind == "observable" and ver == "2.1" and op["props"]:
            d3 = {k: v for k, v in doc.items() if k != "id"}
            a, e1 = core.guarded(stix2.parse, d3, version=ver)
            b, e2 = core.guarded(stix2.parse, d3, version=ver)
            if e1 is None and e2 is None and op["props"][0][1] == "string-required" and a["id"] != b["id"]:
                self.fail("custom-observable-id-not-deterministic", "%s: %s vs %s" % (desc, a["id"], b["id"]))

    def other_category_owner(self, ver, cat, name):
        return any(c != cat and (name in self.base[ver][c] or (ver, c, name) in self.model) for c in ("objects", "observables"))

    def step_parse(self, op):
        """parse a document of a (possibly registered) name in a version: registered there -> that class; else refused / dict."""
        import stix2
        ver, name, kind = op["ver"], op["name"], op["kind"]
        if kind in ("marking", "extension"):
            return self.step_parse_other_kind(op)
        if kind not in ("object", "observable") or (kind == "observable" and ver == "2.0"):
            return
        if name_rule(name, ver, kind) == "illegal":
            return
        cat = CATS[kind]
        doc = sample_doc(ver, kind, name, [("prop_a", "string-required")])
        res, exc = core.guarded(stix2.parse, doc, version=ver, allow_custom=False)
        reg = self.model.get((ver, cat, name)) or self.base[ver][cat].get(name)
        other = self.other_category_owner(ver, cat, name)
        if reg is None and not other:
            if exc is None and not isinstance(res, dict):
                self.fail("unregistered-name-parsed", "parse(type=%r, version=%s) gave %s although the name is not registered for that version" % (name, ver, type(res).__name__))
        elif reg is not None and (ver, cat, name) in self.model and not other:
            if exc is None and type(res) is not reg:
                self.fail("registered-name-wrong-class", "parse(type=%r, version=%s) gave %s, registered class is %s" % (name, ver, type(res).__name__, reg.__name__))
        # version scoping: the other version must not know a name registered only here
        ov = "2.0" if ver == "2.1" else "2.1"
        if (ver, cat, name) in self.model and not any((ov, c, name) in self.model or name in self.base[ov][c] for c in CATS.values()):
            d2 = sample_doc(ov, kind, name, [("prop_a", "string-required")])
            if kind == "observable" and ov == "2.0":
                return
            r2, e2 = core.guarded(stix2.parse, d2, version=ov, allow_custom=False)
            if e2 is None and not isinstance(r2, dict):
                self.fail("registration-leaks-across-versions", "%r registered for %s also parses under %s as %s" % (name, ver, ov, type(r2).__name__))

    def step_parse_other_kind(self, op):
        """Registration is per kind: a name registered (or built in) only as a marking or extension type is not an object type, so a
        top-level document of that type is treated exactly like one of a never-registered type (refused; kept as a dict when custom
        content is allowed)."""
        import stix2
        ver, name = op["ver"], op["name"]
        if any(name in self.base[ver][c] or (ver, c, name) in self.model for c in ("objects", "observables")):
            return
        if not any(name in self.base[ver][c] or (ver, c, name) in self.model for c in ("markings", "extensions")):
            return
        doc = sample_doc(ver, "object", name, [("prop_a", "string-required")])
        twin = sample_doc(ver, "object", "x-verif-never-registered", [("prop_a", "string-required")])
        for allow in (False, True):
            res, exc = core.guarded(stix2.parse, copy.deepcopy(doc), version=ver, allow_custom=allow)
            ref, rexc = core.guarded(stix2.parse, copy.deepcopy(twin), version=ver, allow_custom=allow)
            same = (type(exc) is type(rexc)) and (exc is not None or (isinstance(res, dict) and isinstance(ref, dict)))
            if not same:
                self.fail("marking-or-extension-name-dispatched-as-object",
                          "parse(type=%r, version=%s, allow_custom=%s) -> %s, but a never-registered type name -> %s (%r is registered only as %s)" % (
                              name, ver, allow, core.fmt_exc(exc) if exc else type(res).__name__, core.fmt_exc(rexc) if rexc else type(ref).__name__, name,
                              [c for c in ("markings", "extensions") if name in self.base[ver][c] or (ver, c, name) in self.model]))
                return

    def invariant(self, where):
        from stix2 import registry
        import stix2
        for k, cls in self.builtin.items():
            cur = registry.STIX2_OBJ_MAPS[k[0]][k[1]].get(k[2])
            if cur is not cls:
                self.fail("builtin-registration-replaced", "after %s built-in %s is %s" % (where, k, cur))
        # dispatch of built-in types through parse
        for ver, doc, cat, name in (
            ("2.1", {"type": "file", "spec_version": "2.1", "id": "file--" + UUID, "name": "f"}, "observables", "file"),
            ("2.1", {"type": "identity", "spec_version": "2.1", "id": "identity--" + UUID, "created": "2020-01-01T00:00:00.000Z", "modified": "2020-01-01T00:00:00.000Z", "name": "n"}, "objects", "identity"),
            ("2.0", {"type": "identity", "id": "identity--" + UUID, "created": "2020-01-01T00:00:00.000Z", "modified": "2020-01-01T00:00:00.000Z", "name": "n", "identity_class": "individual"}, "objects", "identity"),
            ("2.1", {"type": "url", "spec_version": "2.1", "id": "url--" + UUID, "value": "http://x"}, "observables", "url"),
        ):
            res, exc = core.guarded(stix2.parse, doc, version=ver, allow_custom=False)
            want = self.base[ver][cat][name]
            if exc is not None or type(res) is not want:
                shadow = [k for k in self.model if k[2] == name and k[0] == ver]
                self.fail("builtin-dispatch-altered" + (":cross-category-shadow" if shadow else ""),
                          "after %s parse of a built-in %s %s gives %s (registered during the case: %s)" % (where, ver, name, type(res).__name__ if exc is None else core.fmt_exc(exc), shadow))


def check_case(case):
    import stix2  # noqa
    m = Machine()
    try:
        for i, op in enumerate(case["ops"]):
            if op["op"] == "register":
                m.step_register(op)
            elif op["op"] == "parse":
                m.step_parse(op)
            m.invariant("step %d (%s %s %r)" % (i, op["op"], op.get("kind"), op.get("name")))
    finally:
        restore(m.base)
    seen, out = set(), []
    for k, d in m.fails:
        if k not in seen:
            seen.add(k)
            out.append((k, d))
    return out


# ---- strategies ---------------------------------------------------------------------------------------------
VALID_NAMES = ["x-verif-a", "x-verif-b", "new-type", "abc", "x-a1-b2", "verif9", "a-b-c-d",
               "x-" + "a" * 248, "x-" + "b" * 247, "x-" + "c" * 200]      # exactly 250 (the upper limit), 249 and 202 characters
BUILTIN_NAMES = ["identity", "file", "statement", "archive-ext", "indicator", "url", "tlp", "bundle", "marking-definition"]
INVALID_NAMES = ["X-Upper", "x_under", "9lead", "-lead", "x--double", "a--", "ab", "a", "x-é", "x verif", "trail-", "x-", "a" * 251, "x.dot", "", "x-verif-A",
                 "a1-", "ab-", "9x9", "x---y", "abc--def-ghi", "x-nl\n", "abc\n", "x-verif-\u0663", "x-\u0430bc", "x-stra\u00dfe", "abc\uff11"]
VALID_PROPS = [[("prop_a", "string-required"), ("p" * 250, "integer")], [("prop_a", "string-required"), ("abc", "integer")],
               [("prop_a", "string-required"), ("prop_b", "integer")], [("prop_a", "string-required")], [("x_foo", "string"), ("prop_a", "string-required")],
               [("prop_a", "string-required"), ("owner_ref", "ref")]]
BAD_PROPS = [[("Prop", "string")], [("a-b", "string")], [("a b", "string")], [("9ab", "string")], [("_ab", "string")], [("ab", "string")], [("p" * 251, "string")],
             [("é_prop", "string")], [("aB", "string")], [("some_ref", "string")], [("some_refs", "list-string")], [("prop_a", "string-required"), ("b_C", "integer")], [("foo\n", "string")], [("prop_a", "string-required"), ("prop_b\n", "integer")],
             # characters that Unicode-aware classes (\\d, \\w, str.isdigit/isalnum/islower) take for digits or lower-case letters
             [("hit_count_\u0663", "string")], [("prop_a", "string-required"), ("rank_\u00b2", "integer")], [("prop_\u00df", "string")], [("\u0430bc", "string")],
             [("prop_a", "string-required"), ("abc\uff11", "integer")]]


@st.composite
def reg_op(draw, used):
    kind = draw(st.sampled_from(["object", "object", "observable", "observable", "marking", "extension"]))
    ver = draw(st.sampled_from(["2.0", "2.1", "2.1"]))
    nclass = draw(st.sampled_from(["valid", "valid", "valid", "used", "builtin", "invalid", "invalid"]))
    if nclass == "valid":
        name = draw(st.sampled_from(VALID_NAMES))
    elif nclass == "used" and used:
        name = draw(st.sampled_from(sorted(used)))
    elif nclass == "builtin":
        name = draw(st.sampled_from(BUILTIN_NAMES))
    else:
        name = draw(st.one_of(st.sampled_from(INVALID_NAMES), st.text(st.sampled_from(list("ab-9_A")), min_size=1, max_size=8)))
    if kind == "extension" and nclass in ("valid", "used") and ver == "2.1":
        if draw(st.integers(0, 3)) == 0:
            name = "extension-definition--" + str(draw(st.uuids(version=4)))
        elif not name.endswith("-ext"):
            name = name + "-ext"
    props = draw(st.sampled_from(VALID_PROPS)) if draw(st.integers(0, 3)) else draw(st.sampled_from(BAD_PROPS))
    if kind == "observable" and ver == "2.0":
        props = [(p, "objref" if k == "ref" else k) for p, k in props]
    op = {"op": "register", "kind": kind, "ver": ver, "name": name, "props": [list(p) for p in props]}
    if kind in ("object", "observable") and ver == "2.1" and draw(st.integers(0, 4)) == 0:
        op["extension_name"] = "extension-definition--" + str(draw(st.sampled_from([UUID, "7e4ba2c2-6b3e-4a0f-9a6e-0e2f5f5d0a11"])))
        if draw(st.integers(0, 3)) == 0:
            # names the extension registry accepts or refuses by its own rules, but that are not extension-definition identifiers
            op["extension_name"] = draw(st.sampled_from(["x-verif-helper-ext", "x-verif-helper", "extension-definition--", "X-Bad-ext", "archive-ext"]))
    if kind == "extension" and ver == "2.1" and draw(st.booleans()):
        op["extension_type"] = draw(st.sampled_from(["property-extension", "toplevel-property-extension", "new-sdo"]))
    used.add(name)
    return op


@st.composite
def case_strategy(draw):
    used = set()
    ops = []
    for _ in range(draw(st.integers(2, 7))):
        if ops and draw(st.integers(0, 2)) == 0:
            ops.append({"op": "parse", "kind": draw(st.sampled_from(["object", "object", "observable", "observable", "marking", "extension"])),
                        "ver": draw(st.sampled_from(["2.0", "2.1"])),
                        "name": draw(st.sampled_from(sorted(used) + VALID_NAMES[:2] + ["never-registered", "statement", "tlp", "archive-ext", "ntfs-ext"]))})
        else:
            ops.append(draw(reg_op(used)))
    return {"ops": ops}


def normalise(case):
    for op in case["ops"]:
        if "props" in op:
            op["props"] = [tuple(p) for p in op["props"]]
    return case


def run(ctx):
    ctx.rule = ("sequences of 2-7 steps: registrations of custom object / observable / marking / extension types (incl. extension-definition ids, "
                "extension_type, extension_name helpers) for 2.0 or 2.1 with names drawn from valid fresh names, names already used in the "
                "sequence, built-in names of the same and of other categories, and strings probing the naming rules (case, underscore, "
                "leading digit/hyphen, doubled/trailing hyphens, lengths 1/2/251, non-ASCII; invalid strings capped at 18 chars except the "
                "251-char probe), property lists probing the 2.1 property-name rules and the _ref/_refs typing rule; interleaved with parses "
                "in both versions (also of names that are registered / built in only as marking or extension types, as top-level object type) and, after each successful registration, a round-trip / required-property / versioning / deterministic-id "
                "pass; built-in dispatch is re-checked after every step. Non-trivial = history with >= 1 accepted and >= 1 refused "
                "registration followed by a dependent parse; distinct = distinct history.")
    ctx.assumptions = ["naming oracle is one-directional: clearly illegal names must be refused, clearly legal ones accepted, the grey zone (leading "
                       "digit/hyphen in 2.0, trailing hyphen, 2.1 extension names without -ext) carries no assertion",
                       "registries are restored from a snapshot after every case"]

    def body(case):
        case = normalise(copy.deepcopy(case))
        fails = check_case(case)
        regs = [o for o in case["ops"] if o["op"] == "register"]
        cl = ["kind:%s/%s" % (o["kind"], o["ver"]) for o in regs] + ["nameclass:" + name_rule(o["name"], o["ver"], o["kind"]) for o in regs]
        cl += ["has-parse"] if any(o["op"] == "parse" for o in case["ops"]) else []
        cl += ["parse-kind:" + o["kind"] for o in case["ops"] if o["op"] == "parse"]
        ctx.note(json.loads(json.dumps(case)), len(regs) >= 2 and any(o["op"] == "parse" for o in case["ops"]), cl)
        ctx.handle(json.loads(json.dumps(case)), fails)

    core.run_given(ctx, case_strategy(), body, ctx.n(4500, 12000), label="c19-main")


def replay(case):
    return check_case(normalise(copy.deepcopy(case)))
