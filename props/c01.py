"""C01 -- serialize/parse round trip is lossless for every object and option set."""
import datetime as dt
import io
import copy
import json

from hypothesis import strategies as st

from gen import objects as G
from gen import values as V
from harness import core
from oracle import model as M
from oracle import tsref
from oracle import validator as VAL

INDENTS = [None, 0, 2, 4]


def all_optsets():
    out = []
    for pretty in (False, True):
        for iod in (False, True):
            for sk in (False, True):
                for ind in INDENTS:
                    for ea in (True, False):
                        for sep in ("default", "compact"):
                            out.append({"pretty": pretty, "iod": iod, "sort_keys": sk, "indent": ind, "ensure_ascii": ea, "sep": sep})
    return out


OPTSETS = all_optsets()   # 128
CORNERS = [
    {"pretty": False, "iod": False, "sort_keys": False, "indent": None, "ensure_ascii": True, "sep": "default"},
    {"pretty": True, "iod": False, "sort_keys": False, "indent": None, "ensure_ascii": True, "sep": "default"},
    {"pretty": False, "iod": True, "sort_keys": True, "indent": None, "ensure_ascii": False, "sep": "compact"},
    {"pretty": True, "iod": True, "sort_keys": True, "indent": 2, "ensure_ascii": False, "sep": "compact"},
]


def kw_of(o):
    kw = {"pretty": o["pretty"], "include_optional_defaults": o["iod"], "sort_keys": o["sort_keys"], "ensure_ascii": o["ensure_ascii"]}
    if o["indent"] is not None:
        kw["indent"] = o["indent"]
    if o["sep"] == "compact":
        kw["separators"] = (",", ":")
    return kw


def default_pairs(ver):
    m = M.get(ver)
    out = set()
    for cname, cls in m.classes.items():
        for n, d in cls["properties"].items():
            if "default" in d and d["default"] != "$NOW" and not isinstance(d["default"], (list, dict)):
                out.add((n, json.dumps(d["default"])))
    return out


def strip_defaults(full, plain, pairs):
    """Remove from `full` the keys absent from `plain` whose value is a specification default."""
    if isinstance(full, dict) and isinstance(plain, dict):
        out = {}
        for k, v in full.items():
            if k not in plain:
                if (k, json.dumps(v)) in pairs:
                    continue
                out[k] = v
            else:
                out[k] = strip_defaults(v, plain[k], pairs)
        return out
    if isinstance(full, list) and isinstance(plain, list) and len(full) == len(plain):
        return [strip_defaults(a, b, pairs) for a, b in zip(full, plain)]
    return full


def to_native(doc, ver, clsname, mode, depth=0):
    """Constructor kwargs with Python-native timestamp values (datetime objects)."""
    m = M.get(ver)
    props = m.props(clsname)
    out = {}
    for k, v in doc.items():
        d = props.get(k)
        if d and d["kind"] == "timestamp" and isinstance(v, str) and mode != "text":
            try:
                t, nd, extra = tsref.parse(v)
            except ValueError:
                out[k] = v
                continue
            if extra:
                out[k] = v
                continue
            days, rem = divmod(t, tsref.US_PER_DAY)
            y, mo, dd = tsref.civil_from_days(days)
            secs, us = divmod(rem, 10 ** 6)
            if mode.startswith("stixdt"):
                # a STIXdatetime instance that carries the property's own precision tags but is NOT normalised
                # (naive, or with more sub-second digits than an exact precision keeps): the library must still clean it
                from stix2.utils import STIXdatetime
                if d.get("constraint") == "exact" and d.get("precision") == "millisecond":
                    us = us - us % 1000 + 456
                elif d.get("constraint") == "exact" and d.get("precision") == "second":
                    us = 123456
                base = dt.datetime(y, mo, dd, secs // 3600, secs % 3600 // 60, secs % 60, us)
                if mode == "stixdt-aware":
                    base = base.replace(tzinfo=dt.timezone.utc)
                elif mode in ("stixdt-other-constraint", "stixdt-own-tags"):
                    # "stixdt-own-tags": the slot's own tags, the library's own UTC object, yet more digits than the slot keeps (a value built
                    # by hand, or by arithmetic on a parsed one): nothing but the digits tells it from a cleaned value
                    import pytz
                    base = base.replace(tzinfo=pytz.utc)        # the very tzinfo object the library's own values carry
                cons = d.get("constraint", "exact")
                if mode == "stixdt-foreign":
                    # a normalised UTC value taken from a slot of ANOTHER precision (identity.created handed to valid_from, a
                    # first_seen handed to created, ...): its formatting tags are the other slot's and must not survive
                    import pytz
                    tags = {"any": ("millisecond", "min"), "millisecond": ("any", "exact"), "second": ("millisecond", "min")}[d.get("precision", "any")]
                    out[k] = STIXdatetime(base.replace(tzinfo=pytz.utc), precision=tags[0], precision_constraint=tags[1])
                    continue
                if mode == "stixdt-other-constraint":
                    # a value taken from a property of the same precision but the other constraint (e.g. a 2.1 created/modified,
                    # millisecond/min, reused for a 2.0 created/modified, millisecond/exact): a normalised, UTC STIXdatetime of another slot
                    cons = "min" if cons == "exact" else "exact"
                out[k] = STIXdatetime(base, precision=d.get("precision", "any"), precision_constraint=cons)
                continue
            val = dt.datetime(y, mo, dd, secs // 3600, secs % 3600 // 60, secs % 60, us)
            if mode == "aware":
                val = val.replace(tzinfo=dt.timezone.utc)
            out[k] = val
        else:
            out[k] = v
    return out


TOPLEVEL_EXT_ID = "extension-definition--a1b2c3d4-0000-4000-8000-00000000c001"
TOPLEVEL_EXT_ID2 = "extension-definition--a1b2c3d4-0000-4000-8000-00000000c003"
_registered = [False]


def ensure_custom():
    """Custom types registered by the harness (C01 covers registered custom content too; C19 covers registration itself)."""
    if _registered[0]:
        return
    import stix2
    from stix2 import properties as P
    props = [("prop_str", P.StringProperty(required=True)), ("prop_int", P.IntegerProperty()), ("prop_float", P.FloatProperty()),
             ("prop_ts", P.TimestampProperty()), ("prop_list", P.ListProperty(P.StringProperty)), ("prop_dict", P.DictionaryProperty(spec_version="2.1")),
             ("prop_bool", P.BooleanProperty(default=lambda: False))]

    @stix2.v21.CustomObject("x-verif-c01obj", props)
    class C01Obj(object):
        pass

    @stix2.v21.CustomObject("x-verif-c01extname", [("prop_str", P.StringProperty(required=True)), ("x_extra", P.IntegerProperty())],
                            extension_name="extension-definition--a1b2c3d4-0000-4000-8000-00000000c002")
    class C01ExtName(object):
        pass

    @stix2.v20.CustomObject("x-verif-c01obj20", [("prop_str", P.StringProperty(required=True)), ("prop_int", P.IntegerProperty()), ("prop_ts", P.TimestampProperty())])
    class C01Obj20(object):
        pass

    @stix2.v21.CustomObservable("x-verif-c01sco", [("prop_str", P.StringProperty(required=True)), ("prop_int", P.IntegerProperty()), ("prop_float", P.FloatProperty())], ["prop_str"])
    class C01Sco(object):
        pass

    @stix2.v21.CustomMarking("x-verif-c01mark", [("level", P.IntegerProperty(required=True)), ("note", P.StringProperty())])
    class C01Mark(object):
        pass

    @stix2.v21.CustomExtension("x-verif-c01-ext", [("ext_a", P.StringProperty(required=True)), ("ext_b", P.IntegerProperty())])
    class C01Ext(object):
        pass

    @stix2.v21.CustomExtension(TOPLEVEL_EXT_ID, [("toplevel_a", P.StringProperty()), ("toplevel_b", P.IntegerProperty())])
    class C01TopExt(object):
        extension_type = "toplevel-property-extension"
    @stix2.v21.CustomExtension(TOPLEVEL_EXT_ID2, [("beta_rank", P.IntegerProperty(default=lambda: 5)), ("beta_note", P.StringProperty())])
    class C01TopExt2(object):
        extension_type = "toplevel-property-extension"
    _registered[0] = True


def build(case):
    """Returns (obj, exc, how)."""
    import stix2
    from stix2 import registry
    ensure_custom()
    ver, doc = case["ver"], case["doc"]
    src = case["source"]
    if case.get("pre"):
        # history: another object is created first (state leaking between objects through shared class tables would show now)
        core.guarded(stix2.parse, case["pre"], allow_custom=False, version=case["ver"])
    allow_custom = bool(case.get("custom")) or case.get("allow_custom", False)
    full = dict(doc)
    full.update(case.get("custom") or {})
    if src == "parsed":
        return core.guarded(stix2.parse, full, allow_custom=allow_custom, version=ver)
    if src == "parsed-text":
        return core.guarded(stix2.parse, json.dumps(full), allow_custom=allow_custom)
    # constructed: class from the registry, python-native values, defaults left to the library
    t = full["type"]
    cls = registry.class_for_type(t, ver, "objects") or registry.class_for_type(t, ver, "observables")
    mcls = M.get(ver).class_for_type(t) or M.get(ver).observables.get(t)
    kw = to_native(full, ver, mcls, case.get("native", "naive")) if mcls else dict(full)
    for k in case.get("drop", []):
        kw.pop(k, None)
    kw.pop("type", None)
    if allow_custom:
        kw["allow_custom"] = True
    clock = case.get("clock")
    saved = []
    if clock is not None:
        import stix2.base
        import stix2.utils
        days, rem = divmod(clock, tsref.US_PER_DAY)
        y, mo, dd = tsref.civil_from_days(days)
        secs, us = divmod(rem, 10 ** 6)
        import pytz
        now = stix2.utils.STIXdatetime(y, mo, dd, secs // 3600, secs % 3600 // 60, secs % 60, us, tzinfo=pytz.utc)
        for mod in (stix2.base, stix2.utils):
            saved.append((mod, mod.get_timestamp))
            mod.get_timestamp = lambda now=now: now
    try:
        return core.guarded(cls, **kw)
    finally:
        for mod, fn in saved:
            mod.get_timestamp = fn


def expected_order(obj_json, ver, custom_names):
    t = obj_json.get("type")
    m = M.get(ver)
    cname = m.class_for_type(t) or m.observables.get(t)
    if cname is None:
        return None, None       # harness-registered custom type: its property order is not specified anywhere
    spec = [k for k in m.props(cname) if k in obj_json]
    rest = [k for k in obj_json if k not in m.props(cname)]
    return spec, rest


UNREGISTERED_YET = [
    {"type": "x-verif-c01obj", "spec_version": "2.1", "id": "x-verif-c01obj--3f2504e0-4f89-41d3-9a0c-0305e82c3301", "created": "2020-01-01T00:00:00.000Z",
     "modified": "2020-01-02T00:00:00.000Z", "prop_str": "early"},
    {"type": "x-verif-c01extname", "spec_version": "2.1", "id": "x-verif-c01extname--3f2504e0-4f89-41d3-9a0c-0305e82c3301", "created": "2020-01-01T00:00:00.000Z",
     "modified": "2020-01-02T00:00:00.000Z", "prop_str": "early"},
    {"type": "x-verif-c01obj20", "id": "x-verif-c01obj20--3f2504e0-4f89-41d3-9a0c-0305e82c3301", "created": "2020-01-01T00:00:00.000Z",
     "modified": "2020-01-02T00:00:00.000Z", "prop_str": "early"},
    {"type": "x-verif-c01sco", "spec_version": "2.1", "id": "x-verif-c01sco--3f2504e0-4f89-41d3-9a0c-0305e82c3301", "prop_str": "early"},
    {"type": "marking-definition", "spec_version": "2.1", "id": "marking-definition--3f2504e0-4f89-41d3-9a0c-0305e82c3301", "created": "2020-01-01T00:00:00.000Z",
     "definition_type": "x-verif-c01mark", "definition": {"level": 1}},
    {"type": "file", "spec_version": "2.1", "id": "file--3f2504e0-4f89-41d3-9a0c-0305e82c3301", "name": "early", "extensions": {"x-verif-c01-ext": {"ext_a": "a"}}},
    {"type": "identity", "spec_version": "2.1", "id": "identity--3f2504e0-4f89-41d3-9a0c-0305e82c3301", "created": "2020-01-01T00:00:00.000Z", "modified": "2020-01-02T00:00:00.000Z",
     "name": "early", "toplevel_a": "a", "extensions": {TOPLEVEL_EXT_ID: {"extension_type": "toplevel-property-extension"}}},
]


def parse_before_registration():
    """History step for the fresh-process order probe: content of the harness's custom types reaches the parser (and the bundle
    and observed-data paths) BEFORE those types are registered -- as it does in any program that receives data first and
    registers its extensions later.  What the parser answers now is not judged; the objects built after registration are."""
    import stix2
    if _registered[0]:
        return
    for doc in UNREGISTERED_YET:
        for allow in (True, False):
            core.guarded(stix2.parse, copy.deepcopy(doc), allow_custom=allow)
            core.guarded(stix2.parse, json.dumps(doc), allow_custom=allow)
            core.guarded(stix2.parse, {"type": "bundle", "id": "bundle--3f2504e0-4f89-41d3-9a0c-0305e82c3301", "objects": [copy.deepcopy(doc)]}, allow_custom=allow)
        if doc["type"] == "x-verif-c01sco":
            core.guarded(stix2.parse_observable, copy.deepcopy(doc), allow_custom=True, version="2.1")


def check_case(case):
    import stix2
    if case.get("special") == "parse-before-registration":
        parse_before_registration()
        return []
    fails = []
    ver = case["ver"]
    obj, exc = build(case)
    if exc is not None:
        return None  # construction refused: C02/C03 territory, not a round-trip case
    if isinstance(obj, dict):
        return None
    has_custom = bool(getattr(obj, "has_custom", False))
    pairs = default_pairs(ver) | default_pairs("2.0" if ver == "2.1" else "2.1") | {("prop_bool", "false")}
    if isinstance(case["doc"].get("extensions"), dict) and TOPLEVEL_EXT_ID2 in case["doc"]["extensions"]:
        pairs = pairs | {("beta_rank", "5")}      # default of the second harness extension: only where that extension is present   # + the harness type's own default
    base_text, exc = core.guarded(obj.serialize)
    if exc is not None:
        return [("serialize-crash:%s" % type(exc).__name__, "serialize() raised %s on %s" % (core.fmt_exc(exc), core.short(case["doc"], 400)))]
    s, exc = core.guarded(str, obj)
    if exc is not None or s != base_text:
        fails.append(("str-differs", "str(obj) != obj.serialize()"))
    try:
        base_json = json.loads(base_text)
    except ValueError as e:
        return [("invalid-json", "serialize() output does not parse: %s: %s" % (e, core.short(base_text, 300)))]
    for o in case["optsets"]:
        kw = kw_of(o)
        tag = "pretty" if o["pretty"] else "plain"
        text, exc = core.guarded(obj.serialize, **kw)
        if exc is not None:
            fails.append(("serialize-crash:%s" % type(exc).__name__, "serialize(%s) raised %s" % (kw, core.fmt_exc(exc))))
            continue
        buf = io.StringIO()
        _, exc = core.guarded(obj.fp_serialize, buf, **kw)
        if exc is not None or buf.getvalue() != text:
            fails.append(("fp_serialize-differs", "fp_serialize(%s) output differs from serialize" % kw))
        try:
            j = json.loads(text)
        except ValueError as e:
            fails.append(("invalid-json", "serialize(%s) output does not parse: %s" % (kw, e)))
            continue
        # (3)/(4) same JSON value up to omitted default-valued optional properties
        cmpj = strip_defaults(j, base_json, pairs) if o["iod"] else j
        if cmpj != base_json:
            fails.append(("options-change-value:" + ("iod" if o["iod"] else tag), "serialize(%s) denotes a different JSON value: %s vs %s" % (kw, core.short(j, 300), core.short(base_json, 300))))
        # (1) parse back without naming the version
        p, exc = core.guarded(stix2.parse, text, allow_custom=has_custom)
        if exc is not None:
            fails.append(("reparse-refused", "parse(serialize(%s)) raised %s; text %s" % (kw, core.fmt_exc(exc), core.short(text, 400))))
            continue
        if type(p) is not type(obj):
            fails.append(("reparse-class", "parse gives %s, original is %s" % (type(p).__name__, type(obj).__name__)))
            continue
        eq, exc = core.guarded(lambda: p == obj)
        if exc is not None or not eq:
            diff = sorted(k for k in set(list(p) + list(obj)) if p.get(k) != obj.get(k))
            sub = ""
            for k in diff:
                a, b = p.get(k), obj.get(k)
                if isinstance(a, dt.datetime) and isinstance(b, dt.datetime):
                    if (a.tzinfo is None) != (b.tzinfo is None):
                        sub = ":naive-datetime"
                    else:
                        sub = ":timestamp-precision"
            fails.append(("reparse-not-equal" + sub, "parse(serialize(%s)) != original on %s: %r vs %r" % (kw, diff[:3], [p.get(k) for k in diff[:3]], [obj.get(k) for k in diff[:3]])))
        # (2) byte-for-byte
        t2, exc = core.guarded(p.serialize, **kw)
        if exc is not None or t2 != text:
            sub2 = ""
            try:
                if json.loads(t2) == json.loads(text) and case.get("toplevel_ext"):
                    sub2 = ":toplevel-extension-order"
            except (ValueError, TypeError):
                pass
            fails.append(("reserialize-differs" + sub2, "second serialization differs (%s): %s vs %s" % (kw, core.short(t2, 300), core.short(text, 300))))
        # (5) pretty: specification order of the top-level properties
        if o["pretty"]:
            keys = list(json.loads(text, object_pairs_hook=lambda kv: kv) and [k for k, _ in json.loads(text, object_pairs_hook=lambda kv: kv)])
            spec, rest = expected_order(j, ver, None)
            if spec is None:
                continue
            got_spec = [k for k in keys if k in spec]
            if got_spec != spec:
                fails.append(("pretty-order:spec", "pretty key order %s, specification order %s" % (got_spec, spec)))
            elif keys[:len(spec)] != spec:
                fails.append(("pretty-order:custom-before-spec", "non-specification keys precede specification keys: %s" % keys))
            else:
                custom = [k for k in keys[len(spec):]]
                if case.get("custom") and not case.get("toplevel_ext") and custom != sorted(custom):
                    fails.append(("pretty-order:custom-unsorted", "custom keys not sorted: %s" % custom))
    # (6) every option set writes the object's PRESENT state: list values can be edited in place (the guide's "immutability issues" say so);
    #     after such an edit -- made on a copy, and after the texts were asked for once -- pretty and plain output still denote one value
    o2, exc = core.guarded(copy.deepcopy, obj)
    if exc is None:
        editable = sorted(k for k in o2 if isinstance(o2[k], list) and o2[k] and isinstance(o2[k][0], str))
        if editable:
            k = editable[0]
            for kw in ({"pretty": True}, {"pretty": True, "include_optional_defaults": True}, {}):
                core.guarded(o2.serialize, **kw)
            o2[k].append(o2[k][0])
            for iod in (False, True):
                a, e1 = core.guarded(o2.serialize, pretty=True, include_optional_defaults=iod)
                b, e2 = core.guarded(o2.serialize, include_optional_defaults=iod)
                if e1 is None and e2 is None and json.loads(a) != json.loads(b):
                    fails.append(("options-change-value:after-in-place-edit", "after %s.append(...) on a copy, pretty and plain output (include_optional_defaults=%s) differ: %s vs %s" % (
                        k, iod, core.short(json.loads(a).get(k), 200), core.short(json.loads(b).get(k), 200))))
    # de-duplicate keys
    seen, out = set(), []
    for k, d in fails:
        if k not in seen:
            seen.add(k)
            out.append((k, d))
    return out


# ---- strategies --------------------------------------------------------------------------------------------
BOUNDARY_INTS = [2 ** 53 - 1, 2 ** 53, 2 ** 53 + 1, -2 ** 53, -2 ** 53 - 1, 2 ** 63, 2 ** 64, 2 ** 31, 10 ** 21, 999999999]
custom_value = st.one_of(V.mixed_text(2), st.integers(-10, 2 ** 60), st.sampled_from(BOUNDARY_INTS), V.any_finite_float.filter(lambda f: abs(f) < 1e300), st.booleans(),
                         st.lists(st.one_of(st.integers(0, 5), st.sampled_from(BOUNDARY_INTS)), min_size=1, max_size=3),
                         st.dictionaries(st.sampled_from(["a", "b_c", "Z", "0", "10", "2", "\u00b2", "\u0663", "x\u00b2"]), st.one_of(st.integers(0, 9), st.sampled_from(BOUNDARY_INTS), st.lists(st.sampled_from(BOUNDARY_INTS), min_size=1, max_size=2)),
                                         min_size=1, max_size=2))
FREE_DICTS_TOP = ["additional_header_fields", "environment_variables", "ipfix"]
custom_name = st.sampled_from(["x_foo", "x_bar", "a_custom", "zzz", "x_0", "foo_bar", "x_name", "name_suffix"])


@st.composite
def registered_custom_case(draw):
    kind = draw(st.sampled_from(["obj21", "obj20", "sco", "marking", "ext", "toplevel-ext", "obj-extname"]))
    ts = lambda ver, prec="any": draw(G.timestamp(ver, {"precision": prec}, {"ts_max_digits": 6}))
    txt = lambda: draw(G.string_value({}))
    uid = lambda: str(draw(st.uuids(version=4)))
    ver = "2.1"
    if kind == "obj21":
        doc = {"type": "x-verif-c01obj", "spec_version": "2.1", "id": "x-verif-c01obj--" + uid(), "created": "2020-01-01T00:00:00.000Z",
               "modified": "2020-01-02T00:00:00.000Z", "prop_str": txt()}
        if draw(st.booleans()):
            doc["prop_int"] = draw(st.integers(-2 ** 63, 2 ** 63))
        if draw(st.booleans()):
            doc["prop_float"] = draw(V.any_finite_float.filter(lambda f: abs(f) < 1e300))
        if draw(st.booleans()):
            doc["prop_ts"] = ts("2.1")
        if draw(st.booleans()):
            doc["prop_list"] = draw(st.lists(V.mixed_text(2), min_size=1, max_size=3))
        if draw(st.booleans()):
            doc["prop_dict"] = draw(G.dictionary_value("2.1", {}))
        if draw(st.booleans()):
            doc["prop_bool"] = draw(st.booleans())
        if draw(st.booleans()):
            doc["labels"] = ["l"]
    elif kind == "obj-extname":
        doc = {"type": "x-verif-c01extname", "spec_version": "2.1", "id": "x-verif-c01extname--" + uid(), "created": "2020-01-01T00:00:00.000Z",
               "modified": "2020-01-02T00:00:00.000Z", "prop_str": txt()}
        if draw(st.booleans()):
            doc["x_extra"] = draw(st.integers(0, 99))
        if draw(st.booleans()):
            doc["labels"] = ["l"]
    elif kind == "obj20":
        ver = "2.0"
        doc = {"type": "x-verif-c01obj20", "id": "x-verif-c01obj20--" + uid(), "created": "2020-01-01T00:00:00.000Z", "modified": "2020-01-02T00:00:00.000Z",
               "prop_str": txt()}
        if draw(st.booleans()):
            doc["prop_ts"] = ts("2.0")
        if draw(st.booleans()):
            doc["prop_int"] = draw(st.integers(-5, 10 ** 12))
    elif kind == "sco":
        doc = {"type": "x-verif-c01sco", "spec_version": "2.1", "id": "x-verif-c01sco--" + uid(), "prop_str": txt()}
        if draw(st.booleans()):
            doc["prop_float"] = draw(V.any_finite_float.filter(lambda f: abs(f) < 1e300))
        if draw(st.booleans()):
            doc.pop("id")
    elif kind == "marking":
        doc = {"type": "marking-definition", "spec_version": "2.1", "id": "marking-definition--" + uid(), "created": ts("2.1", "millisecond"),
               "definition_type": "x-verif-c01mark", "definition": {"level": draw(st.integers(0, 9))}}
        if draw(st.booleans()):
            doc["definition"]["note"] = txt()
    elif kind == "ext":
        doc = {"type": "file", "spec_version": "2.1", "id": "file--" + uid(), "name": txt(), "extensions": {"x-verif-c01-ext": {"ext_a": txt()}}}
        if draw(st.booleans()):
            doc["extensions"]["x-verif-c01-ext"]["ext_b"] = draw(st.integers(0, 2 ** 40))
    else:
        doc = {"type": "identity", "spec_version": "2.1", "id": "identity--" + uid(), "created": "2020-01-01T00:00:00.000Z", "modified": "2020-01-02T00:00:00.000Z",
               "name": txt(), "extensions": {TOPLEVEL_EXT_ID: {"extension_type": "toplevel-property-extension"}}}
        if draw(st.booleans()):
            doc["toplevel_a"] = txt()
        if draw(st.booleans()):
            doc["toplevel_b"] = draw(st.integers(0, 99))
        both = {"type": "identity", "spec_version": "2.1", "id": "identity--" + uid(), "created": "2020-01-01T00:00:00.000Z", "modified": "2020-01-02T00:00:00.000Z",
                "name": "both", "toplevel_a": "a", "beta_note": "n",
                "extensions": dict([(TOPLEVEL_EXT_ID, {"extension_type": "toplevel-property-extension"}), (TOPLEVEL_EXT_ID2, {"extension_type": "toplevel-property-extension"})][::draw(st.sampled_from([1, -1]))])}
        r = draw(st.integers(0, 2))
        if r == 0:
            pre = both                      # an object with both registered extensions was handled earlier
        elif r == 1:
            doc, pre = both, None           # the object under test carries both
            if draw(st.booleans()):
                doc["beta_rank"] = draw(st.integers(0, 9))
        else:
            pre = None
    case = {"ver": ver, "doc": doc, "shape": "registered-custom:" + kind, "allow_custom": False,
            "source": draw(st.sampled_from(["parsed", "parsed-text", "constructed"]))}
    if kind == "toplevel-ext" and pre is not None:
        case["pre"] = pre
    if case["source"] == "constructed":
        case["native"] = "text"
        case["drop"] = []
    k = draw(st.integers(3, 6))
    idx = draw(st.lists(st.integers(0, len(OPTSETS) - 1), min_size=k, max_size=k, unique=True))
    case["optsets"] = CORNERS + [OPTSETS[i] for i in idx]
    return case


@st.composite
def case_strategy(draw):
    if draw(st.integers(0, 7)) == 0:
        return draw(registered_custom_case())
    ver = draw(st.sampled_from(["2.0", "2.1"]))
    opts = {"ts_max_digits": 6, "selectors": "any", "max_optional": 6, "toplevel_ext": True}
    shape = draw(st.sampled_from(["random", "random", "minimal", "maximal"]))
    if shape != "random":
        opts[shape] = True
    kind = draw(st.sampled_from(["object"] * 8 + ["bundle"]))
    if kind == "bundle":
        doc = draw(G.bundle(ver, opts, max_members=3, mixed=True))
    else:
        doc = draw(G.valid_object(ver, opts=opts))
    case = {"ver": ver, "doc": doc, "shape": shape}
    case["source"] = draw(st.sampled_from(["parsed", "parsed-text", "constructed", "constructed"]))
    if kind == "object" and draw(st.integers(0, 2)) == 0 and doc["type"] != "marking-definition":
        names = draw(st.lists(custom_name, min_size=1, max_size=3, unique=True))
        case["custom"] = {n: draw(custom_value) for n in names if n not in doc}
    if kind == "object" and ver == "2.1" and not case.get("custom") and draw(st.integers(0, 7)) == 0 and "extensions" in M.get(ver).props(M.get(ver).class_for_type(doc["type"])):
        ext = dict(doc.get("extensions", {}))
        ext["extension-definition--" + str(draw(st.uuids(version=4)))] = {"extension_type": "toplevel-property-extension"}
        doc["extensions"] = ext
        case["custom"] = {n: draw(custom_value) for n in draw(st.lists(custom_name, min_size=1, max_size=2, unique=True)) if n not in doc}
        case["toplevel_ext"] = True
        doc.pop("granular_markings", None)
    if kind == "object" and doc["type"] != "marking-definition" and draw(st.integers(0, 5)) == 0:
        # echo: an earlier-listed property holds, nested, the same key with an equal value as a later top-level property
        # (a serializer that orders keys by searching for key/value pairs must still find the top-level one)
        box = draw(st.sampled_from(FREE_DICTS_TOP))
        spec = list(M.get(ver).props(M.get(ver).class_for_type(doc["type"])))
        later = [k for k in spec[spec.index(box) + 1:] if isinstance(doc.get(k), str)] if box in doc and box in spec else []
        if later and draw(st.booleans()):
            k = draw(st.sampled_from(later))
            doc[box] = dict(doc[box], **{k: doc[k]})
            case["echo"] = "spec"
        elif not case.get("toplevel_ext"):
            cust = dict(case.get("custom") or {})
            k = draw(st.sampled_from(sorted(n for n in cust if n > "a_box") or ["x_echoed"]))
            cust.setdefault(k, draw(st.one_of(st.integers(0, 9), st.sampled_from(["v", "", False, 0]))))
            if "a_box" not in doc:
                inner = {k: cust[k]}
                cust["a_box"] = draw(st.sampled_from([inner, [inner], {"inner": inner}, {"aaa": 1, "inner": [inner]}]))
                case["custom"] = cust
                case["echo"] = "custom"
    if case["source"] == "constructed":
        case["native"] = draw(st.sampled_from(["naive", "aware", "text", "stixdt-naive", "stixdt-aware", "stixdt-other-constraint", "stixdt-foreign", "stixdt-own-tags"]))
        m = M.get(ver)
        cname = m.class_for_type(doc["type"]) if doc["type"] != "bundle" else "Bundle"
        droppable = [k for k in ("created", "modified", "id", "valid_from", "spec_version") if k in doc and k in m.props(cname)]
        if doc["type"] == "marking-definition" and doc.get("definition_type") == "tlp":
            droppable = []
        case["drop"] = draw(st.lists(st.sampled_from(droppable), unique=True)) if droppable else []
        if "created" in case["drop"] and "modified" not in case["drop"] and "modified" in doc:
            case["drop"].append("modified")
        case["clock"] = draw(G.instant(min_year=1))
        if "modified" in case["drop"] and "created" not in case["drop"] and "created" in doc:
            # default clock must not precede the given created time (C02 territory otherwise)
            case["clock"] = max(case["clock"], tsref.parse(doc["created"])[0])
    k = draw(st.integers(3, 6))
    idx = draw(st.lists(st.integers(0, len(OPTSETS) - 1), min_size=k, max_size=k, unique=True))
    case["optsets"] = CORNERS + [OPTSETS[i] for i in idx]
    return case


def classes_of(case):
    doc = case["doc"]
    cl = ["ver:" + case["ver"], "source:" + case["source"], "type:%s/%s" % (case["ver"], doc.get("type")), "shape:" + case["shape"]]
    if case.get("custom"):
        cl.append("custom:toplevel-ext" if case.get("toplevel_ext") else "custom:properties")
    if case.get("drop"):
        cl.append("defaults-from-clock")
    if case.get("echo"):
        cl.append("echo:" + case["echo"])
    if case.get("native"):
        cl.append("native:" + case["native"])
    cl.extend(sorted(G.features(doc)))
    return cl


NT = {"str:astral", "str:control", "str:bmp-nonascii", "ts:>3-digits", "ts:trailing-zero", "val:int>2^53", "val:false", "custom:properties",
      "custom:toplevel-ext", "defaults-from-clock", "val:num:exp-small", "val:num:exp-large"}


def run(ctx):
    ctx.rule = ("objects of every type of both versions from the spec-model generator (parsed from dict / text, or built through the class "
                "constructor with datetime values and clock-supplied defaults), optionally with custom properties or an unregistered "
                "toplevel-property-extension, bundles incl. empty and mixed-version; each checked under the 4 corner option sets + 3-6 "
                "drawn from the full 128-combination product of pretty x include_optional_defaults x sort_keys x indent x ensure_ascii x "
                "separators; up to 3 cases per (version, type) re-run in fresh processes in four orders after content of the not-yet-registered "
                "harness types has been parsed. Non-trivial = nested structure with a non-plain value class (non-ASCII/control string, >3-digit or "
                "trailing-zero fraction, integer > 2^53, false default, custom content, clock default); distinct = distinct case.")
    ctx.assumptions = ["specification property order and default values come from the frozen model (specmodel/)",
                       "equality is the library's Mapping equality plus byte identity of the re-serialization"]
    seen_opts = set()

    def body(case):
        fails = check_case(case)
        if fails is None:
            ctx.exclude("construction-refused-or-dict-result")
            return
        cl = classes_of(case)
        for o in case["optsets"]:
            seen_opts.add(json.dumps(o, sort_keys=True))
        ctx.note(case, ("nested" in cl) and bool(set(cl) & NT), cl)
        ctx.keep(case, (case["ver"], case["doc"].get("type"), case["shape"].startswith("registered-custom")), per_group=3)
        ctx.handle(case, fails)

    core.run_given(ctx, case_strategy(), body, ctx.n(1500, 6000), label="c01-main")
    # the round trip must not depend on what the process did before: the kept cases again in fresh processes in four orders, each
    # preceded by parses of the harness's custom types at a moment when they are not registered yet
    core.order_probe(ctx, first=[{"special": "parse-before-registration", "ver": None}])
    ctx.notes["option_sets_covered"] = len(seen_opts)
    ctx.notes["option_sets_total"] = len(OPTSETS)


def replay(case):
    return check_case(case) or []
