"""C02 -- whatever the library emits in strict mode is valid STIX.

(a) systematic: every (path, corruption kind) single-point edit of valid base
objects (gen/corrupt.py) fed to parse(allow_custom=False) and to the class
constructor; (b) the valid objects themselves and multi-point corruptions.
Oracle: accepted => oracle/validator.py finds nothing in json.loads(obj.serialize()).
"""
import json
import re

from hypothesis import strategies as st

from gen import corrupt as C
from gen import objects as G
from harness import core
from oracle import model as M
from oracle import validator as VAL


def rule_key(rule, path, msg, out):
    leaf = [c for c in path.split(".") if c and not c.startswith("[")]
    leaf = leaf[-1] if leaf else ""
    if rule.startswith("constraint:") and ":order:" in rule:
        # created/modified ordering is one root cause for every type
        if rule.endswith(":modified"):
            return "invalid-emitted:order:modified-before-created"
        return "invalid-emitted:" + rule
    if rule in ("id-syntax", "ref-syntax"):
        m = re.search(r"UUID part '([^']*)'", msg)
        form = "other"
        if m:
            u = m.group(1)
            if u.startswith("{"):
                form = "braces"
            elif u.lower().startswith("urn:"):
                form = "urn"
            elif re.match(r"^[0-9a-fA-F]{32}$", u):
                form = "no-hyphens"
            elif u != u.strip() or "\n" in u:
                form = "whitespace"
        elif "variant" in msg:
            form = "variant"
        elif "UUIDv4" in msg:
            form = "not-v4"
        return "invalid-emitted:%s:%s" % (rule, form)
    if rule in ("object-ref-unresolved", "object-ref-type"):
        comps = [c for c in path.split(".") if c and not c.startswith("[")]
        if comps[:1] == ["objects"]:
            comps = comps[2:]      # objects.<key>.  (a bare observable parsed on its own has no such prefix)
        # <prop> is a property of the observable itself; anything deeper sits in an embedded object or extension
        return "invalid-emitted:%s:%s" % (rule, "nested-in-embedded-or-extension" if len(comps) > 1 else "member-property")
    if rule == "unknown-extension":
        return "invalid-emitted:unknown-extension" + (":extension-definition-in-2.0" if "'extension-definition--" in msg else "")
    if rule == "out-of-range":
        return "invalid-emitted:out-of-range:" + leaf
    if rule == "ref-type":
        m = re.search(r"reference to '([^']*)'", msg)
        t = m.group(1) if m else "?"
        m21 = M.get("2.1")
        cat = ("SDO" if t in m21.sdo_types else "SCO" if t in m21.sco_types else "SRO" if t in m21.sro_types else
               t if t in m21.meta_types or t == "bundle" else "unknown-type")
        return "invalid-emitted:ref-type:%s->%s" % (leaf, cat)
    if rule in ("empty-dict", "empty-list", "null", "base64", "hex", "hash-value", "hash-key", "dict-key", "timestamp-syntax", "enum", "ts-precision-20"):
        return "invalid-emitted:%s:%s" % (rule, leaf)
    return "invalid-emitted:" + rule


def judge(obj, ver, what):
    """obj: library object accepted in strict mode.  Returns failures."""
    fails = []
    text, exc = core.guarded(obj.serialize)
    if exc is not None:
        return []   # serialization refusal is not "emitted"
    out = json.loads(text)
    # validate against the version the library interpreted the content as (auto-detection may differ from the base document's)
    over = "2.0" if ".v20." in type(obj).__module__ + "." else "2.1"
    if over == "2.0" and out.get("type") in M.get("2.0").observables:
        errs = VAL.validate(out, "2.0", container=True)      # a bare 2.0 observable (no id): judged as a container member
    else:
        errs = VAL.validate(out, over if out.get("type") != "bundle" else None)
    full = None
    seen = set()
    for rule, path, msg in errs:
        if rule == "selector-unresolved":
            # selectors may address optional properties at their default, which the plain serialization omits
            if full is None:
                full = json.loads(obj.serialize(include_optional_defaults=True))
            sel = msg.split("'")[1]
            if VAL.resolve_selector(full, sel):
                continue
        key = rule_key(rule, path, msg, out)
        if key in seen:
            continue
        seen.add(key)
        fails.append((key, "%s accepted in strict mode and emitted invalid %s at %s: %s ; output %s" % (what, rule, path or "<top>", msg, core.short(out, 500))))
    return fails


def stixdt_kwargs(doc, ver):
    """Constructor keyword arguments in which every top-level timestamp is an already-built STIXdatetime that carries
    *foreign* precision tags and sub-millisecond digits (e.g. the created/modified of a 2.1 object handed to a 2.0
    constructor): the slot must re-clean it."""
    from stix2.utils import STIXdatetime
    import datetime as dt
    import pytz
    from oracle import tsref
    m = M.get(ver)
    cname = m.class_for_type(doc["type"]) or m.observables.get(doc["type"])
    props = m.props(cname)
    kw = {}
    for k, v in doc.items():
        d = props.get(k)
        if d and d["kind"] == "timestamp" and isinstance(v, str):
            try:
                t, _, extra = tsref.parse(v)
            except ValueError:
                kw[k] = v
                continue
            days, rem = divmod(t, tsref.US_PER_DAY)
            y, mo, dd = tsref.civil_from_days(days)
            secs, us = divmod(rem, 10 ** 6)
            us = us - us % 1000 + 456
            kw[k] = STIXdatetime(y, mo, dd, secs // 3600, secs % 3600 // 60, secs % 60, us, tzinfo=pytz.utc, precision="millisecond", precision_constraint="min")
        elif k != "type":
            kw[k] = v
    return kw


FOREIGN_UUIDS = ["e4b1c2d0-7e2c-11ea-bc55-0242ac130003", "a2c1f5a0-1d2c-11ec-9621-0242ac130002", "886313e1-3b8a-5372-9b90-0c9aee199e5d",
                 "6fa459ea-ee8a-3ca4-894e-db77e160355e"]       # UUIDv1, v1, v5, v3: legal in 2.1 identifiers, not in 2.0


def run_library(doc, ver, route, targets=None):
    import stix2
    from stix2 import registry
    if route == "constructor-marking-object":
        # `definition` handed over as an already-built marking object (the guide's form): of the class definition_type names, or of another
        import stix2.v20
        import stix2.v21
        mod = stix2.v20 if ver == "2.0" else stix2.v21
        mo = (targets or {}).get("marking_obj")
        inner, exc = core.guarded(getattr(mod, mo["cls"]), **mo["kw"])
        if exc is not None:
            return None, exc
        kw = {k: v for k, v in doc.items() if k not in ("type", "definition")}
        return core.guarded(mod.MarkingDefinition, definition=inner, **kw)
    if route == "constructor-built-refs":
        # every reference listed in `targets` handed over as the already-built 2.1 object it names (reference properties take objects)
        built = {}
        for tid, tdoc in (targets or {}).items():
            o, exc = core.guarded(stix2.parse, tdoc, allow_custom=False, version="2.1")
            if exc is not None or isinstance(o, dict):
                return None, ValueError("target not constructible")
            built[tid] = o
        t = doc.get("type")
        cls = registry.class_for_type(t, ver, "objects") or registry.class_for_type(t, ver, "observables")
        if cls is None:
            return None, ValueError("no class")
        kw = {}
        for k, v in doc.items():
            if k == "type":
                continue
            if isinstance(v, str) and v in built:
                v = built[v]
            elif isinstance(v, list):
                v = [built.get(x, x) if isinstance(x, str) else x for x in v]
            kw[k] = v
        return core.guarded(cls, **kw)
    if route == "constructor-stixdt":
        t = doc.get("type")
        cls = registry.class_for_type(t, ver, "objects") or registry.class_for_type(t, ver, "observables")
        if cls is None:
            return None, ValueError("no class")
        return core.guarded(cls, **stixdt_kwargs(doc, ver))
    if route == "parse":
        return core.guarded(stix2.parse, doc, allow_custom=False, version=ver)
    if route == "parse-auto":
        return core.guarded(stix2.parse, doc, allow_custom=False)
    t = doc.get("type") if isinstance(doc, dict) else None
    if not isinstance(t, str):
        return None, ValueError("no type")
    cls = registry.class_for_type(t, ver, "objects") or registry.class_for_type(t, ver, "observables")
    if cls is None:
        return None, ValueError("no class")
    kw = {k: v for k, v in doc.items() if k != "type"}
    if any(not isinstance(k, str) for k in kw):
        return None, ValueError("bad key")
    if route == "constructor-tuples":
        # every JSON array handed over as a Python tuple (the constructors take any sequence; it is written as an array)
        def tup(v):
            if isinstance(v, list):
                return tuple(tup(x) for x in v)
            if isinstance(v, dict):
                return {k: tup(x) for k, x in v.items()}
            return v
        kw = {k: tup(v) for k, v in kw.items()}
    return core.guarded(cls, **kw)


def check_case(case):
    ver, doc = case["ver"], case["doc"]
    cur = doc
    for c in case.get("corruptions", []):
        try:
            cur = C.apply(cur, c)
        except (KeyError, IndexError, TypeError):
            return None
    route = case.get("route", "parse")
    import pytz
    import stix2.base
    import stix2.utils
    now = stix2.utils.STIXdatetime(2020, 6, 1, 12, 0, 0, 123456, tzinfo=pytz.utc)   # fixed clock for defaulted timestamps
    saved = [(mod, mod.get_timestamp) for mod in (stix2.base, stix2.utils)]
    for mod, _ in saved:
        mod.get_timestamp = lambda now=now: now
    try:
        obj, exc = run_library(cur, ver, route, case.get("targets"))
    finally:
        for mod, fn in saved:
            mod.get_timestamp = fn
    if exc is not None or obj is None or isinstance(obj, dict):
        return []
    what = "%s(%s)" % (route, "+".join(c["kind"] for c in case.get("corruptions", [])) or "valid")
    return judge(obj, ver, what)


def library_vocab_candidates(doc, ver, cname):
    """Dictionary-guided candidates: every string in the library's own `allowed` list of an enum slot that the frozen
    specification vocabulary does not contain (the library's tables are used as a source of *inputs*, never as the answer)."""
    import stix2.properties as P
    from stix2 import registry
    out = []
    t = doc.get("type")
    top = registry.class_for_type(t, ver, "objects") or registry.class_for_type(t, ver, "observables")
    if top is None:
        return out
    for p, val, d, owner in C.walk(doc, cname, ver):
        if d["kind"] != "enum":
            continue
        cls, prop = top, None
        try:
            i = 0
            while i < len(p):
                comp = p[i]
                if isinstance(comp, int):
                    i += 1
                    continue
                prop = cls._properties[comp]
                if isinstance(prop, P.ListProperty):
                    prop = prop.contained
                if isinstance(prop, P.ExtensionsProperty):
                    cls = registry.class_for_type(p[i + 1], ver, "extensions")
                    i += 2
                    continue
                if isinstance(prop, P.EmbeddedObjectProperty):
                    cls = prop.type
                elif isinstance(prop, type) and hasattr(prop, "_properties"):
                    cls = prop
                i += 1
        except (KeyError, AttributeError, IndexError, TypeError):
            continue
        allowed = getattr(prop, "allowed", None)
        if not allowed:
            continue
        for cand in allowed:
            if isinstance(cand, str) and cand not in d["allowed"]:
                out.append({"path": list(p), "op": "set", "kind": "vocab:library-only-entry", "value": cand})
    return out


# ---- strategies -----------------------------------------------------------------------------------------------
OPTS = {"ts_max_digits": 6, "selectors": "any", "max_optional": 8, "toplevel_ext": True}


@st.composite
def base_doc(draw):
    ver = draw(st.sampled_from(["2.0", "2.1"]))
    opts = dict(OPTS)
    shape = draw(st.sampled_from(["random", "maximal", "maximal", "minimal"]))
    if shape != "random":
        opts[shape] = True
    return ver, draw(G.valid_object(ver, opts=opts)), shape


@st.composite
def built_refs_case(draw):
    """A valid 2.0 object whose top-level references are re-pointed at 2.1 objects that carry identifiers legal only in 2.1."""
    import re
    doc = draw(G.valid_object("2.0", opts=dict(OPTS, maximal=True)))
    types21 = set(G.top_types("2.1"))
    targets = {}
    out = {}
    idre = re.compile(r"^([a-z][a-z0-9-]*)--[0-9a-fA-F-]{36}$")

    def repoint(x):
        m = idre.match(x) if isinstance(x, str) else None
        if not m or m.group(1) not in types21:
            return x
        t = m.group(1)
        nid = "%s--%s" % (t, draw(st.sampled_from(FOREIGN_UUIDS)))
        if nid not in targets:
            tdoc = draw(G.valid_object("2.1", type_=t, opts=dict(OPTS, minimal=True)))
            if tdoc.get("definition_type") == "tlp":
                return x
            tdoc = dict(tdoc, id=nid)
            tdoc.pop("granular_markings", None)
            targets[nid] = tdoc
        return nid
    for k, v in doc.items():
        if k.endswith("_ref") and k != "id":
            out[k] = repoint(v)
        elif k.endswith("_refs") and isinstance(v, list):
            out[k] = [repoint(x) for x in v]
        else:
            out[k] = v
    return {"ver": "2.0", "doc": out, "corruptions": [], "route": "constructor-built-refs", "targets": targets}


BARE_SCO_TYPES = ["mutex", "url", "ipv4-addr", "software", "artifact", "mac-addr", "autonomous-system", "x509-certificate", "user-account", "file", "directory"]


@st.composite
def bundle_foreign_member_case(draw):
    """A valid bundle of either version plus one member that is no top-level object of any version: a STIX 2.0 cyber observable
    on its own (no id; such objects exist only inside an observed-data container)."""
    ver = draw(st.sampled_from(["2.0", "2.1"]))
    doc = draw(G.bundle(ver, opts=dict(OPTS, minimal=True), min_members=0, max_members=2))
    t = draw(st.sampled_from(BARE_SCO_TYPES))
    bare = draw(G.sco_container("2.0", dict(OPTS, member_types=[t], no_extensions=True)))["0"]
    members = list(doc.get("objects", []))
    members.insert(draw(st.integers(0, len(members))), bare)
    doc = dict(doc, objects=members)
    return {"ver": ver, "doc": doc, "corruptions": [], "route": draw(st.sampled_from(["parse", "parse-auto", "constructor"])), "foreign": t}


def run(ctx):
    ctx.level = "fault_enumeration"
    ctx.rule = ("valid base objects of every type/version from the spec-model generator (minimal / maximal / random) x EVERY single-point "
                "corruption the engine derives for that object (remove, null, 16 wrong JSON kinds, bound-1/+1, out-of-vocabulary, every "
                "known type name as reference prefix, malformed id/timestamp catalogues, dictionary/hash/hex/base64/selector/pattern/"
                "extension faults, unknown and case-duplicate properties, each co-constraint broken, wrong type/spec_version), through "
                "parse(strict, version named), parse(strict, auto-detect) and the class constructor; plus the uncorrupted objects and 2-4 "
                "point corruptions. Non-trivial = validator flags the corrupted input and the library's answer was observed; "
                "distinct = distinct (type, version, path shape, corruption kind, route).")
    ctx.assumptions = ["oracle/validator.py + specmodel/: only specification rules held with high confidence (specmodel/AUDIT.md); doubtful rules are off",
                       "third-party stix2patterns validator decides STIX pattern validity"]
    per_doc = 25 if ctx.quick else 400
    per_doc_box = [per_doc]
    ndocs = ctx.n(240, 600)
    accepted = [0]

    def body(args):
        (ver, doc, shape), idx_seed, route = args
        cname = M.get(ver).class_for_type(doc["type"])
        cs = C.corruptions(doc, ver, cname)
        # the uncorrupted object first
        case0 = {"ver": ver, "doc": doc, "corruptions": [], "route": route}
        fails = check_case(case0)
        ctx.note(case0, False, ["valid-base", "type:%s/%s" % (ver, doc["type"])])
        ctx.handle(case0, fails)
        # the same object through the constructor with STIXdatetime values carrying foreign precision tags
        case1 = {"ver": ver, "doc": doc, "corruptions": [], "route": "constructor-stixdt"}
        fails = check_case(case1)
        ctx.note(case1, True, ["valid-base:stixdt-values", "type:%s/%s" % (ver, doc["type"])])
        ctx.handle(case1, fails)
        # deterministic stratified subset: every k-th corruption starting at a drawn offset (all of them when few)
        sampled_prefixes = ("kind:", "ref:", "ts:", "id:", "remove", "hash:")
        targeted = [c for c in cs if not c["kind"].startswith(sampled_prefixes)]
        chosen = list(targeted)
        for pref in sampled_prefixes:
            grp = [c for c in cs if c["kind"].startswith(pref)]
            step = max(1, len(grp) // per_doc)
            chosen.extend(grp[idx_seed % step::step])
        chosen.extend(library_vocab_candidates(doc, ver, cname))
        # an array is an array whichever Python sequence type carried it: the corruptions of free-form values (dictionaries, unregistered
        # extension bodies -- values no property class converts) also as tuples
        chosen = [(c, route) for c in chosen] + [(c, "constructor-tuples") for c in chosen if c["kind"].startswith(("dict:", "ext:")) and route != "constructor-tuples"]
        for c, route in chosen:
            case = {"ver": ver, "doc": doc, "corruptions": [c], "route": route}
            cur = C.apply(doc, c)
            in_errs = VAL.validate(cur, ver) if isinstance(cur, dict) else [("x", "", "")]
            fails = check_case(case)
            if fails is None:
                continue
            pshape = ".".join("[i]" if isinstance(x, int) else str(x) for x in c["path"])
            fp = core.fingerprint([ver, doc["type"], pshape, c["kind"], route])
            ctx.note(case, bool(in_errs), ["kind:" + c["kind"].split("=")[0].split(":")[0], "route:" + route, "input-flagged" if in_errs else "input-still-valid"], fp=fp)
            if c["kind"].startswith(("id:", "ref:", "vocab:", "bound:")):
                ctx.keep(case, (ver, doc["type"], c["kind"].split(":")[0]), per_group=1, limit=2000)
            ctx.handle(case, fails)

    # every type of both versions gets its share: the type is drawn first, uniformly
    types = [(v, t) for v in ("2.0", "2.1") for t in G.top_types(v)]

    def body_built(case):
        if not case["targets"]:
            ctx.exclude("no-repointable-reference")
            return
        fails = check_case(case)
        ctx.note(case, True, ["route:constructor-built-refs", "type:2.0/%s" % case["doc"]["type"], "targets:%d" % min(3, len(case["targets"]))],
                 fp=core.fingerprint([case["doc"]["type"], sorted(k for k, v in case["doc"].items() if k.endswith(("_ref", "_refs")))]))
        ctx.handle(case, fails)

    @st.composite
    def typed_doc(draw, ver_t):
        ver, t = ver_t
        opts = dict(OPTS)
        shape = draw(st.sampled_from(["maximal", "maximal", "random", "minimal"]))
        if shape != "random":
            opts[shape] = True
        if t == "observed-data" and ver == "2.0" and draw(st.integers(0, 3)):
            opts["ref_rich"] = True
            opts["maximal"] = True
        return ver, draw(G.valid_object(ver, type_=t, opts=opts)), shape

    per_type = max(2, ndocs // len(types))
    for ver_t in types + [("2.0", "observed-data")] * 6:      # (single- and list-valued object references of every member type need several containers)
        strat = st.tuples(typed_doc(ver_t), st.integers(0, 10 ** 6), st.sampled_from(["parse", "parse", "parse", "parse-auto", "parse-auto", "constructor", "constructor", "constructor-tuples"]))
        core.run_given(ctx, strat, body, per_type, label="c02-systematic-%s-%s" % ver_t, rounds=3)

    # 2.0 objects referring to already-built 2.1 objects whose identifiers are legal only in 2.1
    core.run_given(ctx, built_refs_case(), body_built, ctx.n(150, 1500), label="c02-built-refs")

    # bundles with a member that is not a top-level object (a bare 2.0 observable)
    def body_bundle(case):
        fails = check_case(case)
        ctx.note(case, True, ["bundle-foreign-member:" + case["foreign"], "route:" + case["route"], "bundle:" + case["ver"]],
                 fp=core.fingerprint([case["ver"], case["foreign"], case["route"], len(case["doc"]["objects"])]))
        ctx.handle(case, fails)
    core.run_given(ctx, bundle_foreign_member_case(), body_bundle, ctx.n(120, 1200), label="c02-bundle-foreign-member")

    # marking definitions whose `definition` is an already-built marking object, of the right and of the wrong class (finite)
    ctx.collect_only = True
    for ver in ("2.0", "2.1"):
        m = M.get(ver)
        base = {"type": "marking-definition", "id": "marking-definition--3f2504e0-4f89-41d3-9a0c-0305e82c3301", "created": "2020-01-01T00:00:00.000Z"}
        if ver == "2.1":
            base["spec_version"] = "2.1"
        tlp_white = dict(base, id=m.tlp["white"], created=m.tlp_created, **({"name": "TLP:WHITE"} if ver == "2.1" else {}))
        objs = {"tlp": {"cls": "TLPMarking", "kw": {"tlp": "white"}}, "statement": {"cls": "StatementMarking", "kw": {"statement": "s"}}}
        for dtype, holder in (("statement", base), ("tlp", tlp_white)):
            for given in ("tlp", "statement"):
                doc = dict(holder, definition_type=dtype, definition=dict(objs[given]["kw"]))
                case = {"ver": ver, "doc": doc, "corruptions": [], "route": "constructor-marking-object", "targets": {"marking_obj": objs[given]}}
                fails = check_case(case)
                ctx.note(case, dtype != given, ["route:constructor-marking-object", "marking-object:%s-as-%s" % (given, dtype)], fp=core.fingerprint([ver, dtype, given]))
                ctx.handle(case, fails)
    ctx.collect_only = False

    # the eight fixed TLP instances, every corruption, every route (finite: enumerated completely)
    ctx.collect_only = True
    for ver in ("2.0", "2.1"):
        m = M.get(ver)
        for color in sorted(m.tlp):
            doc = {"type": "marking-definition", "id": m.tlp[color], "created": m.tlp_created, "definition_type": "tlp", "definition": {"tlp": color}}
            if ver == "2.1":
                doc.update({"spec_version": "2.1", "name": "TLP:" + color.upper()})
            for route in ("parse", "constructor"):
                saved = per_doc
                body(((ver, doc, "tlp"), 0, route))
    ctx.collect_only = False

    # multi-point corruptions
    def body_multi(args):
        (ver, doc, shape), picks, route = args
        cname = M.get(ver).class_for_type(doc["type"])
        cs = C.corruptions(doc, ver, cname)
        chosen = []
        for i in picks:
            c = cs[i % len(cs)]
            if all(c["path"][:1] != o["path"][:1] for o in chosen):
                chosen.append(c)
        case = {"ver": ver, "doc": doc, "corruptions": chosen, "route": route}
        fails = check_case(case)
        if fails is None:
            return
        ctx.note(case, len(chosen) > 1, ["multi-point:%d" % len(chosen), "route:" + route])
        ctx.handle(case, fails)

    strat2 = st.tuples(base_doc(), st.lists(st.integers(0, 10 ** 6), min_size=2, max_size=4), st.sampled_from(["parse", "constructor", "constructor-tuples"]))
    core.run_given(ctx, strat2, body_multi, ctx.n(800, 6000), label="c02-multi")
    # a verdict must not depend on what the process accepted or refused before (memo of validated identifiers, tables filled by the
    # first spec version ...): kept cases again in fresh processes, in four orders
    bat = ctx.battery()
    core.order_probe(ctx, cases=bat[::max(1, len(bat) // 240)][:240])


def replay(case):
    return check_case(case) or []
