"""C05 -- new versions are strictly newer, identity-preserving and exact.

A case is one history: a subject document (STIX 2.0 / 2.1; library object or plain
dict) and a list of operations (new_version with change sets, caller-supplied
modified, attempts on unmodifiable / id-contributing properties, revoke, marking
operations, serialize->parse, in-place edit of a result dict).  Before every
operation the library's clock is replaced by a generated reading taken relative
to the previous `modified`.  The reference model is oracle/markmodel.py (Chain,
expected_after) with oracle/tsref.py for the timestamps.
"""
import copy
import json

from hypothesis import strategies as st

from gen import subjects as S
from gen.subjects import pick, picks
from harness import core
from oracle import markmodel as mm
from oracle import tsref

CLOCK_RELS = ("earlier", "equal", "sub-ms", "one-ms", "later")
DAY = 86400 * 10 ** 6


def clock_rel(delta):
    if delta < 0:
        return "earlier"
    if delta == 0:
        return "equal"
    if delta < 1000:
        return "sub-ms"
    if delta == 1000:
        return "one-ms"
    return "later"


# ---- library access -----------------------------------------------------------------------------------------

class Clock(object):
    """Replaces the library's clock source; restore() puts the originals back."""

    def __init__(self):
        import stix2.base
        import stix2.utils
        import stix2.versioning
        self.mods = [stix2.versioning, stix2.base, stix2.utils]
        self.saved = [m.get_timestamp for m in self.mods]
        self.now = None
        for m in self.mods:
            m.get_timestamp = self.read

    def read(self):
        if self.now is None:
            raise core.HarnessError("clock read before it was set")
        return self.now

    def set(self, t):
        import pytz
        from stix2.utils import STIXdatetime
        t = max(tsref.MIN_INSTANT, min(t, S.LAST_ALLOWED))
        days, rem = divmod(t, tsref.US_PER_DAY)
        y, mo, d = tsref.civil_from_days(days)
        secs, us = divmod(rem, 10 ** 6)
        self.now = STIXdatetime(y, mo, d, secs // 3600, secs % 3600 // 60, secs % 60, us, tzinfo=pytz.UTC)
        return t

    def restore(self):
        for m, f in zip(self.mods, self.saved):
            m.get_timestamp = f


def ser(x):
    """JSON document of an object or of a dict version (the library's serializer writes the timestamps)."""
    from stix2.serialization import serialize
    if isinstance(x, dict):
        return json.loads(serialize(x))
    return json.loads(x.serialize())


def build(subject, version, form):
    import stix2
    if form == "dict":
        return copy.deepcopy(subject)
    obj, exc = core.guarded(stix2.parse, subject, allow_custom=True, version=version)
    if exc is not None:
        raise core.HarnessError("generator produced a subject the library refuses: %s  %s" % (core.fmt_exc(exc), core.short(subject)))
    return obj


def has_custom(doc):
    return any(k.startswith("x_") for k in doc) or (doc.get("type") == "file" and "created" in doc)


def _stix_error(exc):
    from stix2.exceptions import STIXError
    return isinstance(exc, STIXError)


# ---- the machine ----------------------------------------------------------------------------------------------

def run_case(case):
    """-> (fails, info).  info: classes (labels), nontrivial (bool)."""
    import stix2.versioning
    clock = Clock()
    try:
        return _run(case, clock, stix2.versioning)
    finally:
        clock.restore()


def _modified_value(op):
    """The caller's modified time in the form the case names: timestamp text (usual), or the same instant as an aware datetime (UTC or
    another offset) or as a STIXdatetime -- new_version documents a timestamp, and the constructors take all of these."""
    text = op["_modified_text"]
    how = op.get("as", "text")
    if how == "text":
        return text
    import datetime as dt
    import pytz
    from stix2.utils import STIXdatetime
    t = tsref.parse(text)[0]
    days, rem = divmod(t, tsref.US_PER_DAY)
    y, mo, d = tsref.civil_from_days(days)
    secs, us = divmod(rem, 10 ** 6)
    fields = (y, mo, d, secs // 3600, secs % 3600 // 60, secs % 60, us)
    if how == "stixdt":
        return STIXdatetime(*fields, tzinfo=pytz.utc, precision="millisecond", precision_constraint="min")
    if how == "datetime-utc":
        return dt.datetime(*fields, tzinfo=dt.timezone.utc)
    if how == "datetime-naive":
        return dt.datetime(*fields)
    off = dt.timezone(dt.timedelta(hours=5, minutes=30))
    try:
        return dt.datetime(*fields, tzinfo=dt.timezone.utc).astimezone(off)
    except OverflowError:
        return dt.datetime(*fields, tzinfo=dt.timezone.utc)


def _apply(head, form, op, versioning, markings):
    """Perform one versioning call; returns (result, exc)."""
    kind = op["op"]
    fn_api = form == "dict" or op.get("api") == "function" or not hasattr(head, "add_markings")
    if kind in ("new_version", "custom", "set_modified", "unmodifiable"):
        kw = dict(op.get("changes") or {})
        via_cp = op.get("via") == "custom_properties" and form != "dict"
        if kind == "custom":
            if via_cp:
                # the constructor's documented keyword for custom properties, handed through new_version's **kwargs
                kw["custom_properties"] = {op["name"]: op["value"]}
            else:
                kw[op["name"]] = op["value"]
            if op.get("allow_custom") is not None:
                kw["allow_custom"] = op["allow_custom"]
        elif kind == "set_modified":
            mval = _modified_value(op)
            if via_cp:
                kw["custom_properties"] = {"modified": mval}
            else:
                kw["modified"] = mval
        elif kind == "new_version" and via_cp and kw:
            # ordinary (specification-defined) changes handed over through the constructor's custom_properties= keyword: honoured like plain
            # keywords (removals stay plain keywords: None)
            cp = {k: v for k, v in kw.items() if v is not None}
            kw = {k: v for k, v in kw.items() if v is None}
            if cp:
                kw["custom_properties"] = cp
        elif kind == "new_version" and op.get("modified_none"):
            kw["modified"] = None        # "no modified time given", spelled out: the library's clock decides, as when the keyword is absent
        elif kind == "unmodifiable":
            if op.get("via") == "custom_properties" and form != "dict":
                # the same attempt smuggled through the custom_properties= keyword: it must not win over the copied original
                kw["custom_properties"] = {op["prop"]: op["value"]}
            else:
                kw[op["prop"]] = op["value"]
        if form == "dict" or op.get("api") == "function":
            return core.guarded(versioning.new_version, head, **kw)
        return core.guarded(head.new_version, **kw)
    if kind == "revoke":
        if form == "dict" or op.get("api") == "function":
            return core.guarded(versioning.revoke, head)
        return core.guarded(head.revoke)
    if kind == "mark":
        m = S.MARKING_IDS[op["marking"] % len(S.MARKING_IDS)]
        how = op["how"]
        if how == "add":
            return core.guarded(markings.add_markings, head, m) if fn_api else core.guarded(head.add_markings, m)
        if how == "remove":
            return core.guarded(markings.remove_markings, head, m) if fn_api else core.guarded(head.remove_markings, m)
        if how == "clear":
            return core.guarded(markings.clear_markings, head) if fn_api else core.guarded(head.clear_markings)
        if how == "gadd":
            return core.guarded(markings.add_markings, head, m, [op["selector"]]) if fn_api else core.guarded(head.add_markings, m, [op["selector"]])
        if how == "gclear":
            return core.guarded(markings.clear_markings, head, [op["selector"]]) if fn_api else core.guarded(head.clear_markings, [op["selector"]])
    raise core.HarnessError("unknown op %r" % (op,))


def _expected_marking_doc(prev_doc, op, got=None):
    """Expected document (without modified) after a marking operation that must produce a new version, or None
    when the operation has nothing to do on this state (both refusal and an unchanged object are documented)."""
    m = S.MARKING_IDS[op["marking"] % len(S.MARKING_IDS)]
    how = op["how"]
    exp = copy.deepcopy(prev_doc)
    exp.pop("modified", None)
    refs = list(prev_doc.get("object_marking_refs", []))
    if how == "add":
        exp["object_marking_refs"] = refs + ([m] if m not in refs else [])
    elif how == "remove":
        if m not in refs:
            return None
        refs.remove(m)
        exp.pop("object_marking_refs", None)
        if refs:
            exp["object_marking_refs"] = refs
    elif how == "clear":
        exp.pop("object_marking_refs", None)
    elif how == "gadd":
        gm = copy.deepcopy(prev_doc.get("granular_markings", []))
        if (op["selector"], mm.REF, m) not in mm.read_pairs(prev_doc):
            gm.append({"marking_ref": m, "selectors": [op["selector"]]})
        exp["granular_markings"] = gm
    elif how == "gclear":
        # every (selector, marking) pair on exactly that selector goes; how the remaining pairs are grouped into entries is the library's business
        pairs = set(mm.read_pairs(prev_doc))
        keep = {p for p in pairs if p[0] != op["selector"]}
        if keep == pairs:
            return None
        exp.pop("granular_markings", None)
        gkeep = {p for p in keep if p[0] != mm.OBJECT}
        if got is not None and {p for p in mm.read_pairs(got) if p[0] != mm.OBJECT} == gkeep and ("granular_markings" in got) == bool(gkeep):
            if gkeep:
                exp["granular_markings"] = got["granular_markings"]
        elif gkeep:
            exp["granular_markings"] = "<entries carrying exactly the pairs %s>" % sorted(gkeep)
    return exp


def _run(case, clock, versioning):
    from stix2 import markings
    from stix2.exceptions import MarkingNotFoundError
    version, form = case["version"], case["form"]
    fails = []
    classes = ["version:" + version, "form:" + form, "type:" + case["subject"]["type"]]
    clock.set(tsref.parse(case["subject"]["modified"])[0])
    head = build(case["subject"], version, form)
    chain = mm.Chain(version)
    chain.append(ser(head))
    objs = [head]
    tight_steps = 0
    revoked = False

    def fail(key, detail, i):
        fails.append((key, "step %d %s: %s" % (i, core.short(case["ops"][i], 300) if i >= 0 else "", detail)))

    def check_untouched(i, which=None):
        for k in (range(len(objs)) if which is None else which):
            now_doc = ser(objs[k])
            if now_doc != chain.docs[k]:
                fail("original-modified", "version %d of the chain changed: keys %s" % (k, mm.differing_keys(now_doc, chain.docs[k], ignore=())), i)
                chain.docs[k] = now_doc   # report once

    for i, op in enumerate(case["ops"]):
        op = copy.deepcopy(op)      # values handed to the library may end up inside result dicts that a later "poke" edits
        kind = op["op"]
        prev_doc = chain.docs[-1]
        prev_exact = tsref.parse(prev_doc["modified"])[0]
        prev_spec = chain.instants[-1]
        now = clock.set(prev_exact + op.get("clock", 0))
        rel = clock_rel(now - prev_exact)

        if kind == "roundtrip":
            if form == "dict":
                new = json.loads(json.dumps(prev_doc))
            else:
                import stix2
                new, exc = core.guarded(stix2.parse, json.dumps(prev_doc), allow_custom=True, version=version)
                if exc is not None:
                    fail("own-output-refused", "parse(serialize(version)) raised %s" % core.fmt_exc(exc), i)
                    continue
            d = ser(new)
            if d != prev_doc:
                fail("roundtrip-changes-version", "keys %s" % mm.differing_keys(d, prev_doc, ignore=()), i)
                continue
            objs[-1] = head = new
            classes.append("op:roundtrip")
            continue
        if kind == "poke":
            # the caller edits *their* newest dict in place; earlier versions must not see it
            if form != "dict" or len(objs) < 2:
                continue
            lists = sorted(k for k, v in head.items() if isinstance(v, list) and v and k not in mm.MARKING_PROPS)
            if not lists:
                continue
            tgt = head[lists[op.get("which", 0) % len(lists)]]
            if isinstance(tgt[0], dict):
                tgt.append(dict(copy.deepcopy(tgt[0]), description="poked %d" % i))
                tgt[0]["description"] = "poked too"
            else:
                tgt.append("poked-%d" % i)
            check_untouched(i, range(len(objs) - 1))
            chain.docs[-1] = ser(head)
            classes.append("op:poke")
            continue

        if kind == "set_modified":
            t_req = max(tsref.MIN_INSTANT, min(prev_exact + op["delta"], S.LAST_ALLOWED))
            op = dict(op, _modified_text=tsref.fmt(t_req, "any"))
            mrel = clock_rel(t_req - prev_exact)
            classes.append("modified-as:" + op.get("as", "text"))
        if kind == "mark" and op["how"] in ("gadd", "gclear") and not mm.resolve(prev_doc, op["selector"])[0]:
            raise core.HarnessError("selector %r not in subject" % op["selector"])

        new, exc = _apply(head, form, op, versioning, markings)
        classes.append("op:" + kind + (":" + op["how"] if kind == "mark" else ""))
        if form == "object":
            classes.append("api:" + ("function" if op.get("api") == "function" else "method"))
        check_untouched(i, [len(objs) - 1])

        # ---- what must have happened ------------------------------------------------------------------------
        if exc is not None and not _stix_error(exc):
            fail("crash:%s" % type(exc).__name__, "%s at %s" % (core.fmt_exc(exc), core.lib_frame(exc)), i)
            continue

        if revoked:
            classes.append("on-revoked:" + kind)
            if exc is None and new is not head:
                fail("revoked-object-revoked-again" if kind == "revoke" else "revoked-object-versioned",
                     "operation on a revoked object returned %s" % core.short(ser(new), 300), i)
            continue

        expect_changes = None       # dict -> a new version with exactly these changes is required
        must_refuse = False
        may_refuse = False
        if kind == "new_version":
            expect_changes = op["changes"]
            if op.get("modified_none"):
                classes.append("new_version:modified=None")
        elif kind == "custom":
            expect_changes = dict(op.get("changes") or {}, **{op["name"]: op["value"]})
            # custom content without permission on an object that has none: refusal is the documented outcome, but the
            # statement speaks about legal change sets only -> either outcome, exactness checked when accepted
            allowed = has_custom(prev_doc) if op.get("allow_custom") is None else op["allow_custom"]
            may_refuse = form == "object" and not allowed and has_custom(mm.expected_after(prev_doc, expect_changes))
            classes.append("custom:allow=%s" % op.get("allow_custom"))
            if op.get("via") and form != "dict":
                classes.append("custom-via:" + op["via"])
        elif kind == "set_modified":
            classes.append("caller-modified:" + mrel)
            if op.get("via") and form != "dict":
                classes.append("caller-modified-via:" + op["via"])
            expect_changes = dict(op.get("changes") or {})
            if t_req <= prev_exact:
                must_refuse = True
            elif mm.spec_truncate(t_req, version) <= prev_spec:
                may_refuse = True           # later, but not after serialization: refuse, or make it strictly later
        elif kind == "unmodifiable":
            classes.append("unmodifiable:" + op["prop"])
            if op.get("via"):
                classes.append("unmodifiable-via:" + op["via"])
            if exc is None:
                d = ser(new)
                if d.get(op["prop"]) != prev_doc.get(op["prop"]):
                    locked = op["prop"] not in mm.IDENTITY_PROPS
                    fail("id-contributing-property-changed" if locked else "unmodifiable-property-changed:" + op["prop"],
                         "%s: %r -> %r, id %s" % (op["prop"], prev_doc.get(op["prop"]), d.get(op["prop"]), d.get("id")), i)
                    continue
                expect_changes = {}
            else:
                continue
        elif kind == "revoke":
            expect_changes = {"revoked": True}
        elif kind == "mark":
            exp_doc = _expected_marking_doc(prev_doc, op)
            if exp_doc is None:
                # nothing to remove: MarkingNotFoundError or the unchanged object
                if exc is not None and not isinstance(exc, MarkingNotFoundError):
                    fail("refused:%s" % type(exc).__name__, core.fmt_exc(exc), i)
                elif exc is None and ser(new) != prev_doc:
                    d = ser(new)
                    if mm.differing_keys(d, prev_doc) or mm.spec_instant(d["modified"], version) <= prev_spec:
                        fail("inexact-change", "remove of an absent marking changed %s" % mm.differing_keys(d, prev_doc, ignore=()), i)
                    else:
                        objs.append(new); chain.append(d); head = new
                continue

        if exc is not None:
            if must_refuse or may_refuse:
                classes.append("refused-as-expected")
                continue
            fail("legal-step-refused:%s" % type(exc).__name__, "%s (clock %s)" % (core.fmt_exc(exc), rel), i)
            continue
        d = ser(new)
        if must_refuse:
            fail("caller-modified-not-later-accepted", "modified=%s accepted on a version modified %s -> %s" % (op["_modified_text"], prev_doc["modified"], d.get("modified")), i)
            continue

        # identity
        for p in mm.IDENTITY_PROPS:
            if d.get(p) != prev_doc.get(p):
                fail("identity-changed:" + p, "%r -> %r" % (prev_doc.get(p), d.get(p)), i)
        # exactness
        exp = _expected_marking_doc(prev_doc, op, d) if kind == "mark" else mm.expected_after(prev_doc, expect_changes)
        diff = mm.differing_keys(d, exp)
        if diff:
            fail("inexact-change", "keys %s: got %s expected %s" % (diff, core.short({k: d.get(k) for k in diff}, 300), core.short({k: exp.get(k) for k in diff}, 300)), i)
        # strictly newer, at the serialized text
        try:
            new_spec = mm.spec_instant(d["modified"], version)
        except (KeyError, ValueError) as e:
            fail("modified-not-canonical", "%r (%s)" % (d.get("modified"), e), i)
            continue
        if new_spec <= prev_spec:
            fail("modified-not-later:" + version, "%s -> %s (clock %s, %+d us; %s)" % (prev_doc["modified"], d["modified"], tsref.fmt(now), now - prev_exact, kind), i)
        if kind == "set_modified":
            if not may_refuse and new_spec != mm.spec_truncate(t_req, version):
                fail("caller-modified-not-kept", "asked %s got %s" % (op["_modified_text"], d["modified"]), i)
        else:
            classes.append("clock:" + rel)
            if mm.spec_truncate(now, version) > prev_spec:
                # the clock is ahead also after serialization: "the modified time will be updated to the current time"
                if new_spec != mm.spec_truncate(now, version):
                    fail("modified-not-current-time", "clock %s, previous %s, got %s" % (tsref.fmt(now), prev_doc["modified"], d["modified"]), i)
            else:
                tight_steps += 1
        objs.append(new)
        chain.append(d)
        head = new
        if d.get("revoked") is True:
            revoked = True
        classes.append("accepted")

    check_untouched(len(case["ops"]) - 1)
    if not chain.strictly_increasing():
        fails.append(("chain-not-increasing", "serialized modified along the chain: %s" % [x["modified"] for x in chain.docs]))
    n = len(chain.docs)
    classes.append("chain-length:%s" % ("1" if n == 1 else "2" if n == 2 else "3-5" if n <= 5 else "6-12" if n <= 12 else "13+"))
    info = {"classes": classes, "nontrivial": n >= 3 and tight_steps >= 1, "versions": n}
    return fails, info


def check_case(case):
    if case.get("kind") == "nonversionable":
        return check_nonversionable(case)
    if case.get("kind") == "partial":
        return check_partial(case)
    return run_case(case)[0]


# ---- things that are not versionable must refuse ------------------------------------------------------------------

def nonversionable_cases():
    out = []
    for v in S.VERSIONS:
        out.append(("marking-definition", v, S.marking_definition(v)))
        b = {"type": "bundle", "id": "bundle--" + S.uid(0x81), "objects": [S.marking_definition(v)]}
        if v == "2.0":
            b["spec_version"] = "2.0"
        out.append(("bundle", v, b))
    out.append(("file-sco", "2.1", {"type": "file", "spec_version": "2.1", "id": "file--" + S.uid(0x72), "name": "a.exe"}))
    out.append(("ipv4-sco", "2.1", {"type": "ipv4-addr", "spec_version": "2.1", "id": "ipv4-addr--" + S.uid(0x74), "value": "198.51.100.3"}))
    cases = []
    for label, v, doc in out:
        for form in ("object", "dict"):
            for op in ("new_version", "revoke", "add_markings"):
                cases.append({"kind": "nonversionable", "label": label, "version": v, "form": form, "subject": doc, "op": op})
    return cases


def check_nonversionable(case):
    import stix2
    from stix2 import markings, versioning
    clock = Clock()
    try:
        clock.set(tsref.instant(2020, 1, 1))
        x = build(case["subject"], case["version"], case["form"])
        before = ser(x)
        if case["op"] == "new_version":
            r, exc = core.guarded(versioning.new_version, x, x_note="n", allow_custom=True)
        elif case["op"] == "revoke":
            r, exc = core.guarded(versioning.revoke, x)
        else:
            r, exc = core.guarded(markings.add_markings, x, S.MARKING_IDS[1])
        fails = []
        if exc is None:
            fails.append(("nonversionable-type-versioned", "%s(%s %s) returned %s" % (case["op"], case["label"], case["form"], core.short(ser(r), 300))))
        elif not _stix_error(exc):
            fails.append(("crash:%s" % type(exc).__name__, core.fmt_exc(exc)))
        if ser(x) != before:
            fails.append(("original-modified", "refused operation changed its input"))
        return fails
    finally:
        clock.restore()


# ---- objects that carry only some of created / modified / revoked --------------------------------------------------
# (plain dicts of registered and unregistered types, custom classes whose versioning properties are optional: the library
# supports versioning them -- repo tests test_versioning_dict_unregistered_no_modified, test_versioning_custom_object)

PARTIAL_OPS = ["new_version", "new_version-no-change", "revoke", "add_markings", "set_markings", "clear_markings", "remove_markings", "granular-add"]


def _partial_class():
    import stix2
    from stix2 import properties as P, registry
    cls = registry.class_for_type("x-verif-c05partial", "2.1", "objects")
    if cls is None:
        @stix2.v21.CustomObject("x-verif-c05partial", [("name", P.StringProperty()), ("created", P.TimestampProperty()), ("modified", P.TimestampProperty()),
                                                         ("revoked", P.BooleanProperty()), ("object_marking_refs", P.ListProperty(P.ReferenceProperty(valid_types="marking-definition", spec_version="2.1"))),
                                                         ("granular_markings", P.ListProperty(stix2.v21.GranularMarking))])
        class Partial(object):
            pass
        cls = Partial
    return cls


def partial_cases():
    cases = []
    for holder in ("dict-registered-2.1", "dict-registered-2.0", "dict-unregistered", "custom-class"):
        for present in (("created",), ("created", "modified"), ("created", "revoked"), ("created", "modified", "revoked")):
            for revoked in ((False, True) if "revoked" in present else (False,)):
                for op in PARTIAL_OPS:
                    cases.append({"kind": "partial", "holder": holder, "present": list(present), "revoked": revoked, "op": op})
    return cases


def check_partial(case):
    from stix2 import markings, versioning
    clock = Clock()
    try:
        clock.set(tsref.instant(2021, 6, 1))
        doc = {"name": "n", "created": "2020-01-01T00:00:00.000Z"}
        if "modified" in case["present"]:
            doc["modified"] = "2020-02-01T00:00:00.000Z"
        if "revoked" in case["present"]:
            doc["revoked"] = case["revoked"]
        if case["op"] in ("clear_markings", "remove_markings"):
            doc["object_marking_refs"] = [S.MARKING_IDS[1]]
        h = case["holder"]
        if h == "custom-class":
            x, exc = core.guarded(_partial_class(), **doc)
            if exc is not None:
                raise core.HarnessError("custom class refused %s: %s" % (doc, core.fmt_exc(exc)))
        else:
            t = "x-verif-unreg" if h == "dict-unregistered" else "campaign"
            x = dict(doc, type=t, id="%s--%s" % (t, S.uid(0x5c)))
            if not h.endswith("2.0"):
                x["spec_version"] = "2.1"
        before = ser(x)
        op = case["op"]
        if op == "new_version":
            r, exc = core.guarded(versioning.new_version, x, name="m")
        elif op == "new_version-no-change":
            r, exc = core.guarded(versioning.new_version, x)
        elif op == "revoke":
            r, exc = core.guarded(versioning.revoke, x)
        elif op == "granular-add":
            r, exc = core.guarded(markings.add_markings, x, S.MARKING_IDS[2], ["name"])
        elif op == "clear_markings":
            r, exc = core.guarded(markings.clear_markings, x)
        else:
            r, exc = core.guarded(getattr(markings, op), x, S.MARKING_IDS[1])
        fails = []
        if exc is not None and not _stix_error(exc):
            fails.append(("crash:%s" % type(exc).__name__, "%s at %s" % (core.fmt_exc(exc), core.lib_frame(exc))))
        elif case["revoked"]:
            if exc is None:
                fails.append(("revoked-object-revoked-again" if op == "revoke" else "revoked-object-versioned",
                              "%s on a revoked %s carrying only %s returned %s" % (op, h, case["present"], core.short(ser(r), 300))))
        elif exc is None:
            d = ser(r)
            if "modified" not in d or tsref.parse(d["modified"])[0] <= tsref.parse(before.get("modified", before["created"]))[0]:
                fails.append(("partial-version-not-newer", "%s on %s carrying %s: modified %r (before %r, created %r)" % (
                    op, h, case["present"], d.get("modified"), before.get("modified"), before["created"])))
            if d.get("created") != before["created"] or d.get("id") != before["id"]:
                fails.append(("partial-version-identity-changed", "id/created changed: %s" % core.short(d, 300)))
            if op == "revoke" and d.get("revoked") is not True:
                fails.append(("revoke-did-not-revoke", core.short(d, 300)))
        if ser(x) != before:
            fails.append(("original-modified", "the operation changed its input"))
        return fails
    finally:
        clock.restore()


# ---- strategies --------------------------------------------------------------------------------------------------

clock_delta = st.one_of(
    st.one_of(st.sampled_from([1, 999, 1000, 1001, 10 ** 6, DAY, 365 * DAY, 500 * 365 * DAY]), st.integers(1, 10 ** 7)).map(lambda d: -d),
    st.just(0),
    st.one_of(st.sampled_from([1, 500, 999]), st.integers(1, 999)),
    st.just(1000),
    st.one_of(st.sampled_from([1001, 1999, 2000, 2001, 10 ** 6, 60 * 10 ** 6, DAY, 30 * DAY]), st.integers(1001, 10 ** 8)),
)
CUSTOM_VALUES = ["v", 0, 7, True, ["a", "b"], {"k": "v"}]


@st.composite
def an_op(draw, typ, version, form, subject):
    sco = typ == "file"
    kinds = ["new_version"] * 5 + ["set_modified"] * 3 + ["unmodifiable"] * 2 + ["mark"] * 2 + ["custom"] * 2 + ["roundtrip"]
    if form == "dict":
        kinds.append("poke")
    kind = pick(draw, kinds)
    op = {"op": kind, "clock": draw(clock_delta)}
    if form == "object":
        op["api"] = pick(draw, ["method", "function"])

    def changes(min_size=1):
        if sco:
            props = picks(draw, sorted(S.FILE_FREE), min_size, 2)
            return {p: (None if draw(st.integers(0, 2)) == 0 else pick(draw, S.FILE_FREE[p][0])) for p in props}
        if min_size == 0 and draw(st.booleans()):
            return {}
        return draw(S.change_set(typ, version))

    if kind == "new_version":
        op["changes"] = changes()
        if draw(st.integers(0, 11)) == 0:
            op["modified_none"] = True
        elif draw(st.integers(0, 5)) == 0:
            op["via"] = "custom_properties"
    elif kind == "set_modified":
        op["delta"] = draw(clock_delta)
        op["changes"] = changes(0)
        op["as"] = pick(draw, ["text", "text", "text", "stixdt", "datetime-utc", "datetime-offset", "datetime-naive"])
        if draw(st.integers(0, 4)) == 0:
            op["via"] = "custom_properties"
    elif kind == "unmodifiable":
        if draw(st.integers(0, 3)) == 0:
            op["via"] = "custom_properties"
        if sco and subject["id"] != "file--" + S.uid(0x71) and draw(st.booleans()):
            p = pick(draw, sorted(S.FILE_LOCKED))
            op["prop"], op["value"] = p, pick(draw, S.FILE_LOCKED[p])
        else:
            p = pick(draw, ["id", "type", "created", "created_by_ref"])
            op["prop"] = p
            if p == "id":
                op["value"] = "%s--%s" % (typ, S.uid(0x99))
            elif p == "type":
                op["value"] = "campaign" if typ != "campaign" else "identity"
            elif p == "created":
                c = tsref.parse(subject["created"])[0]
                op["value"] = tsref.fmt(c + pick(draw, [-10 ** 6, 1000, 10 ** 6, DAY]) if c > 10 ** 6 else c + 1000, "millisecond", "exact")
            else:
                cur = subject.get("created_by_ref")
                other = [x for x in S.IDENT_IDS if x != cur]
                op["value"] = pick(draw, other + ([None] if cur else []))
        op["changes"] = {}
    elif kind == "mark":
        op["how"] = pick(draw, ["add", "add", "remove", "clear", "gadd", "gadd", "gclear"])
        op["marking"] = draw(st.integers(0, 2))
        if op["how"] in ("gadd", "gclear"):
            op["selector"] = pick(draw, ["type", "id", "created"])
        if sco:
            op["api"] = "function"
    elif kind == "custom":
        op["name"] = pick(draw, ["x_note", "x_other"])
        op["value"] = pick(draw, CUSTOM_VALUES + [None] * 3)
        op["allow_custom"] = pick(draw, [True, True, None, None, False])
        op["changes"] = changes(0) if draw(st.booleans()) else {}
        if draw(st.integers(0, 3)) == 0:
            op["via"] = "custom_properties"
    elif kind == "poke":
        op["which"] = draw(st.integers(0, 3))
    return op


@st.composite
def history(draw, max_ops):
    version = pick(draw, S.VERSIONS)
    form = pick(draw, ["object", "dict"])
    if version == "2.1" and draw(st.integers(0, 3)) == 0:
        subject = draw(S.versionable_file_sco())
    else:
        subject = draw(S.sdo(version))
        if draw(st.integers(0, 4)) == 0:
            subject["x_start"] = "custom from the beginning"
    typ = subject["type"]
    ops = draw(st.lists(an_op(typ, version, form, subject), min_size=pick(draw, [1, 1, 4, 10, 20]), max_size=max_ops))
    if draw(st.integers(0, 3)) == 0:
        tail = draw(st.lists(an_op(typ, version, form, subject), min_size=1, max_size=3))
        rv = {"op": "revoke", "clock": draw(clock_delta)}
        if form == "object":
            rv["api"] = pick(draw, ["method", "function"])
        again = dict(rv, clock=draw(clock_delta))
        ops = ops + [rv] + tail + ([again] if draw(st.booleans()) else [])
    return {"version": version, "form": form, "subject": subject, "ops": ops}


def run(ctx):
    ctx.rule = ("histories over a generated subject (identity, malware, indicator, report, relationship, campaign of STIX 2.0 and 2.1; 2.1 file SCO "
                "carrying custom created/modified/revoked; as library object or plain dict; created in years 1000-9990): up to %d operations "
                "(new_version with 1-3 legal property changes incl. None removals, custom properties with allow_custom True/None/False, "
                "caller-supplied modified, both also handed over through the custom_properties= keyword, attempts on id/type/created/created_by_ref and id-contributing SCO properties, revoke and "
                "operations after it (plus an enumeration of holders that carry only some of created/modified/revoked -- dicts of registered and unregistered types, a custom class -- x revoked or not x every operation), object-level and granular marking calls, serialize->parse, in-place edit of a result dict); the "
                "library clock is set before every operation to previous modified + d with d drawn from earlier (1us..500y) / equal / "
                "+1..999us / +1ms / later.  Non-trivial = chain of >= 3 versions in which at least one step had a clock reading that is "
                "not later than the previous modified after serialization (earlier, equal or inside the precision window); distinct = "
                "distinct history." % (30 if ctx.quick else 60))
    ctx.assumptions = ["oracle/tsref.py strict parser and integer arithmetic (self-tested); oracle/markmodel.py chain model (self-tested)",
                       "STIX 2.0 writes created/modified with exactly 3 fraction digits, 2.1 with at least 3 (library documentation)",
                       "clock later than the previous modified after serialization => modified equals the clock reading (versioning guide: "
                       "'updated to the current time')",
                       "years <= 9998: new_version of an object modified at datetime.max overflows (inherent)",
                       "refusals may use any exception of the library's STIXError family"]
    ctx.collect_only = True
    for c in nonversionable_cases():
        ctx.note(c, False, ["nonversionable:" + c["label"], "nonversionable-op:" + c["op"]])
        ctx.handle(c, check_nonversionable(c))
    for c in partial_cases():
        ctx.note(c, c["revoked"] or "modified" not in c["present"], ["partial:%s:%s" % (c["holder"], "+".join(c["present"])), "partial-op:" + c["op"]] +
                 (["partial:revoked-without-modified"] if c["revoked"] and "modified" not in c["present"] else []))
        ctx.handle(c, check_partial(c))
    ctx.collect_only = False

    def body(case):
        fails, info = run_case(case)
        ctx.note(case, info["nontrivial"], info["classes"])
        ctx.handle(case, fails)

    core.run_given(ctx, history(30 if ctx.quick else 60), body, ctx.n(2600, 12000), label="c05-histories")
    need = ["clock:" + r for r in CLOCK_RELS] + ["version:2.0", "version:2.1", "form:object", "form:dict", "op:revoke", "op:poke", "op:roundtrip",
                                                  "op:set_modified", "op:unmodifiable", "op:custom", "op:mark:gadd", "on-revoked:new_version",
                                                  "custom-via:custom_properties", "caller-modified-via:custom_properties"]
    total = sum(v for k, v in ctx.classes.items() if k.startswith("clock:"))
    if not ctx.violations and ctx.evaluations >= 1000:
        for k in need:
            if ctx.classes.get(k, 0) == 0 or (k.startswith("clock:") and ctx.classes[k] < 0.01 * total):
                raise core.HarnessError("generator unhealthy: class %s has share %d of %d" % (k, ctx.classes.get(k, 0), total))


def replay(case):
    return check_case(case)


def selftest():
    try:
        tsref.selftest()
        mm.selftest()
    except AssertionError as e:
        raise core.HarnessError("oracle self-test: %r" % (e,))
